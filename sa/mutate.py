"""Behaviour-preserving mutators (must-stay-silent battery).

Each mutator rewrites every Python file under spsdk/ into a variant with the same behaviour; the variants are analysed as
in-memory overlays. Expected: every check exits 0 and prints exactly the KNOWN-FINDING lines of the unmodified tree.

 M1 reformat   : ast.unparse round trip (comments dropped, layout changed, every line number moved)
 M2 logging    : a `logger.debug(...)` line in front of every statement of every function body
 M3 messages   : every exception / log message text changed
 M4 annotate   : plain local assignments become annotated assignments
 M5 kwargs     : keyword arguments of every call re-ordered
 M6 docstrings : every docstring replaced
 M7 shift      : a new helper function/constant added to every module and a method to every class (all positions move)
 M8 rename     : every function-local variable renamed
 M9 ternary    : every conditional expression flipped (`a if c else b` -> `b if not c else a`)
 M10 augassign : `x op= e` on plain names rewritten to `x = x op e`
 M11 hoist     : call arguments that are calls are hoisted into temporaries
 M12 inline    : single-use temporaries are inlined into the next statement
 M13 if-invert : `if c: A else: B` -> `if not c: B else: A`
 M14 else      : explicit `else:` after a branch that returns/raises
 M15 compreh.  : append loops become list comprehensions
 M17 constants : integer literals >= 16 inside functions become new module-level named constants
 M18 nesting   : early exits become `if not c: <rest> else: <exit>` (M14 then M13)
 M19 combo     : temporaries inlined, then += chains joined (M12 then M16)
 M16 join      : `x = <bytes>; x += a; x += b` chains become one b"".join([...])
"""
from __future__ import annotations

import ast
import contextlib
import io
import os
import sys
from concurrent.futures import ProcessPoolExecutor
from typing import Callable, Dict, List, Tuple


def _is_doc(st: ast.stmt) -> bool:
    return isinstance(st, ast.Expr) and isinstance(st.value, ast.Constant) and isinstance(st.value.value, str)


class M2(ast.NodeTransformer):
    def _weave(self, body: List[ast.stmt]) -> List[ast.stmt]:
        out: List[ast.stmt] = []
        for i, st in enumerate(body):
            if not (i == 0 and _is_doc(st)) and not isinstance(st, (ast.Global, ast.Nonlocal)):
                out.append(ast.parse("logger.debug('trace point')").body[0])
            out.append(st)
        return out

    def visit_FunctionDef(self, node):
        self.generic_visit(node)
        node.body = self._weave(node.body)
        for n in ast.walk(node):
            if n is node:
                continue
            if isinstance(n, (ast.If, ast.For, ast.While, ast.With, ast.Try)):
                for fld in ("body", "orelse", "finalbody"):
                    b = getattr(n, fld, None)
                    if isinstance(b, list) and b and isinstance(b[0], ast.stmt) and not any(isinstance(x, ast.Expr) and ast.unparse(x).startswith("logger.debug('trace point')") for x in b[:1]):
                        setattr(n, fld, self._weave(b))
        return node


class M3(ast.NodeTransformer):
    def visit_Raise(self, node):
        for n in ast.walk(node):
            if isinstance(n, ast.Constant) and isinstance(n.value, str) and n.value:
                n.value = n.value + " (reworded)"
        return node

    def visit_Expr(self, node):
        if isinstance(node.value, ast.Call):
            f = node.value.func
            if isinstance(f, ast.Attribute) and isinstance(f.value, ast.Name) and f.value.id in ("logger", "logging"):
                for n in ast.walk(node):
                    if isinstance(n, ast.Constant) and isinstance(n.value, str) and n.value:
                        n.value = "reworded: " + n.value
        return node


class M4(ast.NodeTransformer):
    def __init__(self):
        self.depth = 0

    def visit_FunctionDef(self, node):
        self.depth += 1
        self.generic_visit(node)
        self.depth -= 1
        return node

    def visit_Assign(self, node):
        if self.depth > 0 and len(node.targets) == 1 and isinstance(node.targets[0], (ast.Name, ast.Attribute)):
            if isinstance(node.targets[0], ast.Attribute) and not (isinstance(node.targets[0].value, ast.Name) and node.targets[0].value.id == "self"):
                return node
            return ast.copy_location(ast.AnnAssign(target=node.targets[0], annotation=ast.Name(id="Any", ctx=ast.Load()), value=node.value, simple=1 if isinstance(node.targets[0], ast.Name) else 0), node)
        return node


class M5(ast.NodeTransformer):
    def visit_Call(self, node):
        self.generic_visit(node)
        if node.keywords and all(k.arg is not None for k in node.keywords):
            node.keywords = sorted(node.keywords, key=lambda k: k.arg, reverse=True)
        return node


class M6(ast.NodeTransformer):
    def _doc(self, node):
        self.generic_visit(node)
        if node.body and _is_doc(node.body[0]):
            node.body[0].value.value = "Rewritten documentation."
        return node
    visit_FunctionDef = visit_ClassDef = visit_Module = visit_AsyncFunctionDef = _doc


class M7(ast.NodeTransformer):
    def visit_Module(self, node):
        self.generic_visit(node)
        i = 1 if node.body and _is_doc(node.body[0]) else 0
        while i < len(node.body) and isinstance(node.body[i], ast.ImportFrom) and node.body[i].module == "__future__":
            i += 1
        extra = ast.parse("def _unrelated_helper_added_by_refactor(x):\n    '''Unrelated.'''\n    return x\n\n_UNRELATED_CONSTANT = 1\n").body
        node.body[i:i] = extra
        return node

    def visit_ClassDef(self, node):
        self.generic_visit(node)
        i = 1 if node.body and _is_doc(node.body[0]) else 0
        if any(isinstance(b, ast.Name) and b.id in ("Enum", "SpsdkEnum", "SpsdkSoftEnum", "IntEnum") for b in node.bases) or any(isinstance(d, ast.Name) and d.id == "dataclass" or (isinstance(d, ast.Call) and ast.unparse(d.func) == "dataclass") for d in node.decorator_list):
            return node
        extra = ast.parse("def _unrelated_method_added_by_refactor(self):\n    '''Unrelated.'''\n    return None\n").body
        node.body[len(node.body):] = extra
        return node


class M8(ast.NodeTransformer):
    """alpha-rename function locals (assigned plain names that are not parameters, not global/nonlocal, not captured by nested scopes)."""

    def visit_FunctionDef(self, node):
        self.generic_visit(node)
        params = {a.arg for a in node.args.posonlyargs + node.args.args + node.args.kwonlyargs}
        if node.args.vararg:
            params.add(node.args.vararg.arg)
        if node.args.kwarg:
            params.add(node.args.kwarg.arg)
        banned = set(params)
        nested_names = set()
        for n in ast.walk(node):
            if n is not node and isinstance(n, (ast.FunctionDef, ast.AsyncFunctionDef, ast.Lambda, ast.ClassDef, ast.ListComp, ast.SetComp, ast.DictComp, ast.GeneratorExp)):
                for m in ast.walk(n):
                    if isinstance(m, ast.Name):
                        nested_names.add(m.id)
            if isinstance(n, (ast.Global, ast.Nonlocal)):
                banned.update(n.names)
        assigned = set()
        stack = list(node.body)
        while stack:
            n = stack.pop()
            if isinstance(n, (ast.FunctionDef, ast.AsyncFunctionDef, ast.Lambda, ast.ClassDef)):
                continue
            if isinstance(n, ast.Name) and isinstance(n.ctx, ast.Store):
                assigned.add(n.id)
            stack.extend(ast.iter_child_nodes(n))
        ren = {v: v + "_rn" for v in assigned - banned - nested_names if not v.startswith("__") and v != "_"}
        if not ren:
            return node
        stack = list(node.body)
        while stack:
            n = stack.pop()
            if isinstance(n, (ast.FunctionDef, ast.AsyncFunctionDef, ast.Lambda, ast.ClassDef)):
                continue
            if isinstance(n, ast.Name) and n.id in ren:
                n.id = ren[n.id]
            stack.extend(ast.iter_child_nodes(n))
        return node


class M9(ast.NodeTransformer):
    def visit_IfExp(self, node):
        self.generic_visit(node)
        return ast.copy_location(ast.IfExp(test=ast.UnaryOp(op=ast.Not(), operand=node.test), body=node.orelse, orelse=node.body), node)


class M10(ast.NodeTransformer):
    def visit_AugAssign(self, node):
        self.generic_visit(node)
        if isinstance(node.target, ast.Name):
            load = ast.Name(id=node.target.id, ctx=ast.Load())
            return ast.copy_location(ast.Assign(targets=[node.target], value=ast.BinOp(left=load, op=node.op, right=node.value)), node)
        return node


class M11(ast.NodeTransformer):
    """hoist call arguments that are calls into temporaries: `return f(g(a), h(b))` -> `t1 = g(a); t2 = h(b); return f(t1, t2)`
    (only in straight-line statement lists, only for calls without starred/keyword-unpacking; evaluation order is preserved)."""

    def __init__(self):
        self.k = 0

    def _hoist(self, body):
        out = []
        for st in body:
            if isinstance(st, (ast.Return, ast.Assign)) and isinstance(getattr(st, "value", None), ast.Call) and not isinstance(st.value.func, ast.Lambda):
                c = st.value
                if not any(isinstance(a, ast.Starred) for a in c.args) and all(k.arg for k in c.keywords):
                    pre = []
                    safe = True
                    # only hoist when every earlier argument is a name/constant/attribute or is hoisted too (keeps left-to-right order)
                    new_args = []
                    for a in c.args:
                        if isinstance(a, ast.Call) and not any(isinstance(x, (ast.Lambda, ast.Await, ast.NamedExpr)) for x in ast.walk(a)):
                            self.k += 1
                            nm = f"hoisted_arg_{self.k}"
                            pre.append(ast.Assign(targets=[ast.Name(id=nm, ctx=ast.Store())], value=a))
                            new_args.append(ast.Name(id=nm, ctx=ast.Load()))
                        else:
                            new_args.append(a)
                    if pre and safe:
                        c.args = new_args
                        out += pre
            out.append(st)
        return out

    def visit_FunctionDef(self, node):
        self.generic_visit(node)
        node.body = self._hoist(node.body)
        return node


class M12(ast.NodeTransformer):
    """inline a local that is assigned once (from a pure-looking expression) and used exactly once in the very next statement."""

    def visit_FunctionDef(self, node):
        self.generic_visit(node)
        body = node.body
        i = 0
        while i + 1 < len(body):
            st, nx = body[i], body[i + 1]
            if isinstance(st, ast.Assign) and len(st.targets) == 1 and isinstance(st.targets[0], ast.Name) and isinstance(nx, (ast.Return, ast.Assign, ast.Expr, ast.AugAssign)):
                v = st.targets[0].id
                stores = sum(1 for n in ast.walk(node) if isinstance(n, ast.Name) and n.id == v and isinstance(n.ctx, ast.Store))
                loads = [n for n in ast.walk(node) if isinstance(n, ast.Name) and n.id == v and isinstance(n.ctx, ast.Load)]
                loads_nx = [n for n in ast.walk(nx) if isinstance(n, ast.Name) and n.id == v and isinstance(n.ctx, ast.Load)]
                if stores == 1 and len(loads) == 1 and len(loads_nx) == 1 and not any(isinstance(x, (ast.Lambda, ast.ListComp, ast.GeneratorExp, ast.DictComp, ast.SetComp)) for x in ast.walk(nx)):
                    tgt = loads_nx[0]
                    # the use must be the first thing evaluated in the next statement? keep it simple: only when the next statement has no other call
                    calls_nx = [c for c in ast.walk(nx) if isinstance(c, ast.Call)]
                    if len(calls_nx) <= 1:
                        for n in ast.walk(nx):
                            for f, val in ast.iter_fields(n):
                                if val is tgt:
                                    setattr(n, f, st.value)
                                elif isinstance(val, list):
                                    for k2, x in enumerate(val):
                                        if x is tgt:
                                            val[k2] = st.value
                        del body[i]
                        continue
            i += 1
        return node


def _terminal(body) -> bool:
    return bool(body) and isinstance(body[-1], (ast.Return, ast.Raise, ast.Continue, ast.Break))


class M13(ast.NodeTransformer):
    """statement-level guard inversion: `if c: A else: B` -> `if not c: B else: A`."""

    def visit_If(self, node):
        self.generic_visit(node)
        if node.orelse and not (len(node.orelse) == 1 and isinstance(node.orelse[0], ast.If)):
            return ast.copy_location(ast.If(test=ast.UnaryOp(op=ast.Not(), operand=node.test), body=node.orelse, orelse=node.body), node)
        return node


class M14(ast.NodeTransformer):
    """`if c: <...return/raise>` followed by more statements  ->  `if c: ... else: <the rest>` (explicit else after a terminal branch)."""

    def _nest(self, body):
        for i, st in enumerate(body):
            if isinstance(st, ast.If) and not st.orelse and _terminal(st.body) and i + 1 < len(body):
                rest = self._nest(body[i + 1:])
                st.orelse = rest
                return body[:i + 1]
        return body

    def visit_FunctionDef(self, node):
        self.generic_visit(node)
        node.body = self._nest(node.body)
        return node


class M15(ast.NodeTransformer):
    """append loop -> comprehension: `xs = []` + `for v in it: xs.append(e)` -> `xs = [e for v in it]` (adjacent statements only)."""

    def _conv(self, body):
        out = []
        i = 0
        while i < len(body):
            st = body[i]
            nx = body[i + 1] if i + 1 < len(body) else None
            if isinstance(st, ast.Assign) and len(st.targets) == 1 and isinstance(st.targets[0], ast.Name) and isinstance(st.value, ast.List) and not st.value.elts \
                    and isinstance(nx, ast.For) and not nx.orelse and len(nx.body) == 1 and isinstance(nx.body[0], ast.Expr) and isinstance(nx.body[0].value, ast.Call) \
                    and isinstance(nx.body[0].value.func, ast.Attribute) and nx.body[0].value.func.attr == "append" and isinstance(nx.body[0].value.func.value, ast.Name) \
                    and nx.body[0].value.func.value.id == st.targets[0].id and len(nx.body[0].value.args) == 1 \
                    and not any(isinstance(n, ast.Name) and n.id == st.targets[0].id for n in ast.walk(nx.body[0].value.args[0])) \
                    and not any(isinstance(n, ast.Name) and n.id == st.targets[0].id for n in ast.walk(nx.iter)):
                comp = ast.ListComp(elt=nx.body[0].value.args[0], generators=[ast.comprehension(target=nx.target, iter=nx.iter, ifs=[], is_async=0)])
                out.append(ast.copy_location(ast.Assign(targets=st.targets, value=comp), st))
                i += 2
                continue
            out.append(st)
            i += 1
        return out

    def generic_visit(self, node):
        super().generic_visit(node)
        for fld in ("body", "orelse", "finalbody"):
            b = getattr(node, fld, None)
            if isinstance(b, list) and b and isinstance(b[0], ast.stmt):
                setattr(node, fld, self._conv(b))
        return node


def _bytes_init(e: ast.expr) -> bool:
    if isinstance(e, ast.Constant) and isinstance(e.value, bytes):
        return True
    if isinstance(e, ast.Call):
        f = ast.unparse(e.func)
        return f in ("bytes", "pack", "struct.pack") and (f != "bytes" or not e.args) or f.endswith(".export") or f.endswith(".to_bytes")
    return False


class M16(ast.NodeTransformer):
    """bytes assembly: `x = <bytes>` followed by consecutive `x += e` statements  ->  `x = b"".join([<bytes>, e, ...])`."""

    def _conv(self, body):
        out = []
        i = 0
        while i < len(body):
            st = body[i]
            if isinstance(st, ast.Assign) and len(st.targets) == 1 and isinstance(st.targets[0], ast.Name) and _bytes_init(st.value):
                v = st.targets[0].id
                parts = [] if (isinstance(st.value, ast.Call) and ast.unparse(st.value) == "bytes()") or (isinstance(st.value, ast.Constant) and st.value.value == b"") else [st.value]
                j = i + 1
                while j < len(body) and isinstance(body[j], ast.AugAssign) and isinstance(body[j].op, ast.Add) and isinstance(body[j].target, ast.Name) and body[j].target.id == v \
                        and not any(isinstance(n, ast.Name) and n.id == v for n in ast.walk(body[j].value)):
                    parts.append(body[j].value)
                    j += 1
                if j - i >= 3 and len(parts) >= 2:
                    call = ast.Call(func=ast.Attribute(value=ast.Constant(value=b""), attr="join", ctx=ast.Load()), args=[ast.List(elts=parts, ctx=ast.Load())], keywords=[])
                    out.append(ast.copy_location(ast.Assign(targets=st.targets, value=call), st))
                    i = j
                    continue
            out.append(st)
            i += 1
        return out

    def generic_visit(self, node):
        super().generic_visit(node)
        for fld in ("body", "orelse", "finalbody"):
            b = getattr(node, fld, None)
            if isinstance(b, list) and b and isinstance(b[0], ast.stmt):
                setattr(node, fld, self._conv(b))
        return node


class M17(ast.NodeTransformer):
    """magic numbers -> named constants: every integer literal >= 16 inside a function body becomes a new module-level constant."""

    def __init__(self):
        self.consts: Dict[int, str] = {}
        self.depth = 0

    def visit_FunctionDef(self, node):
        # defaults / decorators / annotations are left alone
        self.depth += 1
        node.body = [self.visit(s) for s in node.body]
        self.depth -= 1
        return node

    visit_AsyncFunctionDef = visit_FunctionDef

    def visit_JoinedStr(self, node):
        return node

    def visit_Constant(self, node):
        if self.depth and isinstance(node.value, int) and not isinstance(node.value, bool) and node.value >= 16:
            name = self.consts.setdefault(node.value, f"_MUT_CONST_{node.value:X}")
            return ast.copy_location(ast.Name(id=name, ctx=ast.Load()), node)
        return node


def _m17(t: ast.Module) -> ast.Module:
    m = M17()
    t = m.visit(t)
    if m.consts:
        i = 0
        while i < len(t.body) and (isinstance(t.body[i], (ast.Import, ast.ImportFrom)) or (isinstance(t.body[i], ast.Expr) and isinstance(t.body[i].value, ast.Constant))):
            i += 1
        defs = [ast.Assign(targets=[ast.Name(id=n, ctx=ast.Store())], value=ast.Constant(value=v), lineno=1, col_offset=0) for v, n in sorted(m.consts.items())]
        t.body[i:i] = defs
        ast.fix_missing_locations(t)
    return t


MUTATORS: Dict[str, Callable[[ast.Module], ast.Module]] = {
    "M1-reformat": lambda t: t,
    "M2-logging": lambda t: M2().visit(t),
    "M3-messages": lambda t: M3().visit(t),
    "M4-annotate": lambda t: M4().visit(t),
    "M5-kwargs": lambda t: M5().visit(t),
    "M6-docstrings": lambda t: M6().visit(t),
    "M7-shift": lambda t: M7().visit(t),
    "M8-rename-locals": lambda t: M8().visit(t),
    "M9-ternary-flip": lambda t: M9().visit(t),
    "M10-augassign": lambda t: M10().visit(t),
    "M11-hoist-args": lambda t: M11().visit(t),
    "M12-inline-temps": lambda t: M12().visit(t),
    "M13-if-invert": lambda t: M13().visit(t),
    "M14-explicit-else": lambda t: M14().visit(t),
    "M15-comprehension": lambda t: M15().visit(t),
    "M16-join-assembly": lambda t: M16().visit(t),
    "M17-named-constants": _m17,
    "M18-nested-guards": lambda t: M13().visit(M14().visit(t)),
    "M19-temps-then-join": lambda t: M16().visit(M12().visit(t)),
}


def overlays_for(root: str, name: str) -> Dict[str, str]:
    out = {}
    base = os.path.join(root, "spsdk")
    for dp, dn, fn in os.walk(base):
        dn[:] = [d for d in dn if d != "__pycache__"]
        for f in fn:
            if not f.endswith(".py"):
                continue
            p = os.path.join(dp, f)
            rp = os.path.relpath(p, root)
            src = open(p, encoding="utf-8").read()
            try:
                t = ast.parse(src)
            except SyntaxError:
                continue
            t = MUTATORS[name](t)
            out[rp] = ast.unparse(ast.fix_missing_locations(t)) + "\n"
    return out


def _one(args: Tuple[str, str, str]) -> Tuple[str, str, int, List[str], List[str]]:
    name, prop, root = args
    from .cli import run_prop
    ov = overlays_for(root, name)
    buf = io.StringIO()
    with contextlib.redirect_stdout(buf), contextlib.redirect_stderr(buf):
        rc = run_prop(prop, "quick", root, overlays=ov, write=False, quiet=True)
    lines = buf.getvalue().splitlines()
    known = sorted(l for l in lines if l.startswith("KNOWN-FINDING"))
    bad = [l for l in lines if l.startswith(("VIOLATION", "  rule=", "  offending", "ANALYSIS-ERROR"))]
    return name, prop, rc, known, bad


def run_mutants(props: List[str], root: str, jobs: int = 16, only: List[str] = ()) -> int:
    from .cli import ALL, run_prop
    props = props or ALL
    names = [n for n in MUTATORS if not only or n in only or n.split("-")[0] in only]
    # reference KNOWN-FINDING lines on the unmodified tree
    ref: Dict[str, List[str]] = {}
    for p in props:
        buf = io.StringIO()
        with contextlib.redirect_stdout(buf), contextlib.redirect_stderr(buf):
            run_prop(p, "quick", root, write=False, quiet=True)
        ref[p] = sorted(l for l in buf.getvalue().splitlines() if l.startswith("KNOWN-FINDING"))
    work = [(n, p, root) for n in names for p in props]
    bad = 0
    with ProcessPoolExecutor(max_workers=jobs) as ex:
        for name, prop, rc, known, lines in ex.map(_one, work):
            ok = rc == 0 and known == ref[prop]
            if not ok:
                bad += 1
            print(f"{'ok' if ok else 'ALARM':6} {name:14} {prop} rc={rc} known={len(known)}/{len(ref[prop])}" + ("" if ok else "  " + " | ".join(lines[:6])[:600]))
    print(f"benign mutants: {len(work)} (mutator, property) pairs, {bad} false alarms")
    return 0 if bad == 0 else 3


if __name__ == "__main__":
    sys.exit(run_mutants(sys.argv[1:], "/repo"))
