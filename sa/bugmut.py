"""Sensitivity measurement: single-point *behaviour-changing* mutants inside the functions a check analyses.

This is the opposite of ``mutate.py`` (behaviour-preserving rewrites, every check must stay silent).  Here one
operator, constant or statement inside a function listed in a property's ``coverage.functions`` is changed in
an in-memory overlay and the property's quick check is run on it.  A mutant that the check does not report
is either (a) equivalent, (b) a change the property does not speak about, or (c) a hole in the rules - the
list of silent mutants is the work list for (c).  Nothing here decides a property; the numbers go to
docs/SENSITIVITY.md and DESIGN.md as a measurement of how much of the analysed code the rules actually pin.
"""
from __future__ import annotations

import ast
import contextlib
import copy
import io
import json
import os
import random
import sys
from concurrent.futures import ProcessPoolExecutor
from typing import Dict, Iterator, List, Optional, Tuple

CMP = {ast.Lt: ast.LtE, ast.LtE: ast.Lt, ast.Gt: ast.GtE, ast.GtE: ast.Gt, ast.Eq: ast.NotEq, ast.NotEq: ast.Eq}
BIN = {ast.Add: ast.Sub, ast.Sub: ast.Add, ast.LShift: ast.RShift, ast.RShift: ast.LShift,
       ast.BitAnd: ast.BitOr, ast.BitOr: ast.BitAnd}
SWAP_ATTR = {"BIG": "LITTLE", "LITTLE": "BIG"}
SWAP_STR = {"big": "little", "little": "big"}


def _functions(tree: ast.Module) -> Dict[str, ast.AST]:
    out: Dict[str, ast.AST] = {}

    def walk(body, prefix):
        for n in body:
            if isinstance(n, (ast.FunctionDef, ast.AsyncFunctionDef)):
                out.setdefault(prefix + n.name, n)
            elif isinstance(n, ast.ClassDef):
                walk(n.body, prefix + n.name + ".")
    walk(tree.body, "")
    return out


def _docstring_nodes(fn: ast.AST) -> set:
    skip = set()
    for n in ast.walk(fn):
        if isinstance(n, (ast.FunctionDef, ast.ClassDef, ast.AsyncFunctionDef)) and n.body:
            f = n.body[0]
            if isinstance(f, ast.Expr) and isinstance(f.value, ast.Constant) and isinstance(f.value.value, str):
                skip.add(id(f.value))
    return skip


def _skip_subtrees(fn: ast.AST) -> set:
    """Nodes inside raise statements / logger calls / f-strings: changing a message is not a behaviour change."""
    skip = set()
    for n in ast.walk(fn):
        msg = isinstance(n, ast.Raise) or isinstance(n, ast.JoinedStr)
        if isinstance(n, ast.Call) and isinstance(n.func, ast.Attribute) and isinstance(n.func.value, ast.Name) \
                and n.func.value.id in ("logger", "logging", "click"):
            msg = True
        if msg:
            for s in ast.walk(n):
                skip.add(id(s))
    return skip


def sites(fn: ast.AST) -> List[Tuple[int, str]]:
    """(index in ast.walk order, operator tag) of every mutable site of ``fn``."""
    out = []
    skip = _docstring_nodes(fn) | _skip_subtrees(fn)
    for i, n in enumerate(ast.walk(fn)):
        if id(n) in skip:
            continue
        if isinstance(n, ast.Compare) and len(n.ops) == 1 and type(n.ops[0]) in CMP:
            out.append((i, "cmp"))
        elif isinstance(n, ast.BinOp) and type(n.op) in BIN:
            if isinstance(n.op, ast.Add) and (isinstance(n.left, ast.Constant) and isinstance(n.left.value, (str, bytes))
                                              or isinstance(n.right, ast.Constant) and isinstance(n.right.value, (str, bytes))):
                continue
            out.append((i, "bin"))
        elif isinstance(n, ast.BoolOp):
            out.append((i, "bool"))
        elif isinstance(n, ast.UnaryOp) and isinstance(n.op, ast.Not):
            out.append((i, "not"))
        elif isinstance(n, ast.Constant) and type(n.value) is int:
            out.append((i, "int"))
        elif isinstance(n, ast.Constant) and isinstance(n.value, str) and n.value in SWAP_STR:
            out.append((i, "str"))
        elif isinstance(n, ast.Attribute) and n.attr in SWAP_ATTR:
            out.append((i, "attr"))
        elif isinstance(n, (ast.AugAssign,)) or (isinstance(n, ast.Expr) and isinstance(n.value, ast.Call) and id(n.value) not in skip):
            out.append((i, "del"))  # (removing a log line is not a behaviour change: message-only calls are skipped)
    return out


def apply(fn: ast.AST, index: int, tag: str) -> str:
    """Mutate ``fn`` in place; returns a one-line description."""
    for i, n in enumerate(ast.walk(fn)):
        if i != index:
            continue
        before = ast.unparse(n)[:70]
        if tag == "cmp":
            n.ops[0] = CMP[type(n.ops[0])]()
        elif tag == "bin":
            n.op = BIN[type(n.op)]()
        elif tag == "bool":
            n.op = ast.Or() if isinstance(n.op, ast.And) else ast.And()
        elif tag == "not":
            n.operand = ast.UnaryOp(op=ast.Not(), operand=n.operand)
        elif tag == "int":
            n.value = n.value + 1
        elif tag == "str":
            n.value = SWAP_STR[n.value]
        elif tag == "attr":
            n.attr = SWAP_ATTR[n.attr]
        elif tag == "del":
            line = getattr(n, "lineno", 0)
            if isinstance(n, ast.AugAssign):
                n.value = ast.Constant(0) if isinstance(n.op, (ast.Add, ast.Sub, ast.BitOr, ast.LShift, ast.RShift)) else n.value
                after = ast.unparse(n)[:70]
                return f"L{line} {tag}: {before}  ->  {after}"
            n.value = ast.Constant(None)
            return f"L{line} {tag}: {before}  ->  (statement removed)"
        after = ast.unparse(n)[:70]
        return f"L{getattr(n, 'lineno', 0)} {tag}: {before}  ->  {after}"
    raise IndexError(index)


def candidates(root: str, prop: str) -> List[Tuple[str, str, int, str]]:
    ev = json.load(open(os.path.join(os.path.dirname(os.path.dirname(os.path.abspath(__file__))), "evidence", f"{prop}.json")))
    fns = ev["coverage"].get("functions") or []
    out = []
    cache: Dict[str, Dict[str, ast.AST]] = {}
    for f in fns:
        if "::" not in f:
            continue
        rel, q = f.split("::", 1)
        p = os.path.join(root, rel)
        if not os.path.isfile(p):
            continue
        if rel not in cache:
            cache[rel] = _functions(ast.parse(open(p, encoding="utf-8").read()))
        fn = cache[rel].get(q)
        if fn is None:
            continue
        for idx, tag in sites(fn):
            out.append((rel, q, idx, tag))
    return out


def _one(args) -> Tuple[str, str, str, int, str, int, List[str]]:
    prop, root, rel, q, idx, tag = args
    from .cli import run_prop
    src = open(os.path.join(root, rel), encoding="utf-8").read()
    tree = ast.parse(src)
    fn = _functions(tree)[q]
    desc = apply(fn, idx, tag)
    try:
        text = ast.unparse(ast.fix_missing_locations(tree)) + "\n"
        compile(text, rel, "exec")
    except Exception as exc:  # a mutant that does not compile is not a mutant
        return prop, rel, q, -1, desc, 0, [str(exc)]
    buf = io.StringIO()
    with contextlib.redirect_stdout(buf), contextlib.redirect_stderr(buf):
        try:
            rc = run_prop(prop, "quick", root, overlays={rel: text}, write=False, quiet=True)
        except SystemExit as exc:
            rc = int(exc.code or 0)
    lines = [l for l in buf.getvalue().splitlines() if l.startswith(("  rule=", "ANALYSIS-ERROR"))]
    return prop, rel, q, rc, desc, len(lines), lines[:2]


def run(props: List[str], root: str, per_prop: int = 40, jobs: int = 16, seed: int = 1, out_md: Optional[str] = None) -> int:
    from .cli import ALL
    props = props or ALL
    rnd = random.Random(seed)
    work = []
    totals = {}
    for p in props:
        c = candidates(root, p)
        totals[p] = len(c)
        rnd.shuffle(c)
        # spread over operator kinds: round-robin by tag
        by: Dict[str, list] = {}
        for x in c:
            by.setdefault(x[3], []).append(x)
        pick = []
        while len(pick) < per_prop and any(by.values()):
            for t in sorted(by):
                if by[t] and len(pick) < per_prop:
                    pick.append(by[t].pop())
        work += [(p, root, rel, q, idx, tag) for rel, q, idx, tag in pick]
    res: Dict[str, List] = {p: [] for p in props}
    with ProcessPoolExecutor(max_workers=jobs) as ex:
        for r in ex.map(_one, work, chunksize=1):
            res[r[0]].append(r)
    md = ["# Sensitivity on single-point mutants of analysed functions", "",
          "One operator / integer / byte order / statement changed inside a function listed in the property's",
          "`coverage.functions`; `fired` = exit 1 with a VIOLATION, `closed` = exit 2 (analysis refused, fail-closed),",
          "`silent` = exit 0.  Silent mutants are equivalent, outside the property, or holes (see the list).", "",
          f"seed={seed} per_property<={per_prop}", "",
          "| property | sites | sampled | fired | closed | silent |", "|---|---|---|---|---|---|"]
    silent_all = []
    tf = tc = ts = 0
    for p in props:
        rs = [r for r in res[p] if r[3] >= 0]
        f = sum(1 for r in rs if r[3] == 1)
        c = sum(1 for r in rs if r[3] == 2)
        s = sum(1 for r in rs if r[3] == 0)
        tf += f; tc += c; ts += s
        md.append(f"| {p} | {totals[p]} | {len(rs)} | {f} | {c} | {s} |")
        print(f"{p}: sites={totals[p]} sampled={len(rs)} fired={f} closed={c} silent={s}")
        for r in rs:
            if r[3] == 0:
                silent_all.append(f"- {p} `{r[1]}::{r[2]}` {r[4]}")
    md += ["", f"total: fired={tf} closed={tc} silent={ts}", "", "## Silent mutants", ""] + silent_all
    if out_md:
        open(out_md, "w").write("\n".join(md) + "\n")
    print(f"total: fired={tf} closed={tc} silent={ts}")
    return 0


if __name__ == "__main__":
    a = sys.argv[1:]
    n = 40
    if a and a[0].isdigit():
        n = int(a.pop(0))
    sys.exit(run(a, "/repo", per_prop=n, out_md=os.path.join(os.path.dirname(os.path.dirname(os.path.abspath(__file__))), "docs", "SENSITIVITY.md")))
