"""Self-validation against stored patches: each patch (the re-introduction of a repaired defect under
regress/, an independently written property-breaking change under seeded/, or a behaviour-preserving
refactor under benign/) is applied to a temp copy of the files it touches and analysed as an in-memory
overlay of /repo. Expected: regress+seeded -> the named property check exits 1; benign -> exits 0."""
from __future__ import annotations

import contextlib
import io
import json
import os
import re
import shutil
import subprocess
import sys
import tempfile
from concurrent.futures import ProcessPoolExecutor
from typing import Dict, List, Tuple

from .core.report import VERIF


def overlay_from_patch(root: str, patch: str) -> Dict[str, str]:
    txt = open(patch).read()
    files = sorted(set(re.findall(r"(?m)^\+\+\+ b/(\S+)", txt)) | set(re.findall(r"(?m)^--- a/(\S+)", txt)))
    tmp = tempfile.mkdtemp(prefix="ovl")
    try:
        for f in files:
            src = os.path.join(root, f)
            dst = os.path.join(tmp, f)
            os.makedirs(os.path.dirname(dst), exist_ok=True)
            if os.path.exists(src):
                shutil.copy(src, dst)
        r = subprocess.run(["patch", "-p1", "-s", "-f", "-d", tmp, "-i", patch], capture_output=True, text=True)
        if r.returncode != 0:
            raise RuntimeError(f"patch does not apply: {patch}: {r.stdout} {r.stderr}")
        out = {}
        for f in files:
            p = os.path.join(tmp, f)
            if os.path.exists(p):
                out[f] = open(p, encoding="utf-8").read()
        return out
    finally:
        shutil.rmtree(tmp, ignore_errors=True)


def _one(args: Tuple[str, str, str, str, str]) -> Tuple[str, str, str, int, str]:
    kind, name, prop, patch, root = args
    from .cli import run_prop
    try:
        ov = overlay_from_patch(root, patch)
    except Exception as e:  # noqa
        return kind, name, prop, -1, str(e)
    buf = io.StringIO()
    with contextlib.redirect_stdout(buf), contextlib.redirect_stderr(buf):
        rc = run_prop(prop, "quick", root, overlays=ov, write=False, quiet=True)
    lines = [l for l in buf.getvalue().splitlines() if l.startswith(("  rule=", "ANALYSIS-ERROR", "  offending"))]
    return kind, name, prop, rc, " | ".join(lines[:4])


_ANCHORS = None


def _props_touching(patch_path: str):
    global _ANCHORS
    if _ANCHORS is None:
        # the modules each check consults, as recorded by its last evidence file (units), plus the property's anchor files
        _ANCHORS = {}
        for line in open(os.path.join(VERIF, "properties.jsonl")):
            line = line.strip()
            if not line:
                continue
            d = json.loads(line)
            files = {f.split(" ")[0].strip() for f in d.get("anchors", {}).get("files", [])}
            ev = os.path.join(VERIF, "evidence", d["id"] + ".json")
            if os.path.exists(ev):
                try:
                    files |= set(json.load(open(ev)).get("coverage", {}).get("units", {}))
                except (ValueError, AttributeError):
                    pass
            _ANCHORS[d["id"]] = files
    touched = {l[6:].strip() for l in open(patch_path) if l.startswith("+++ b/")}
    out = set()
    for pid, files in _ANCHORS.items():
        if any(t == f or (f.endswith("/") and t.startswith(f)) or (f.endswith("*") and t.startswith(f.rstrip("*"))) for t in touched for f in files):
            out.add(pid)
    return out


def collect(only: List[str]) -> List[Tuple[str, str, str, str]]:
    items = []
    for kind, fname in (("regress", "reintroduce.diff"), ("seeded", "patch.diff"), ("benign", "patch.diff")):
        d = os.path.join(VERIF, kind)
        if not os.path.isdir(d):
            continue
        for name in sorted(os.listdir(d)):
            p = os.path.join(d, name, fname)
            mp = os.path.join(d, name, "meta.json")
            if not (os.path.exists(p) and os.path.exists(mp)):
                continue
            meta = json.load(open(mp))
            props = meta.get("property")
            props = props if isinstance(props, list) else [props]
            if kind == "benign":
                # a behaviour-preserving patch must leave EVERY check silent whose anchor modules it touches
                props = sorted(set(props) | _props_touching(p))
            for prop in props:
                if only and prop not in only and name not in only and kind not in only:
                    continue
                items.append((kind, name, prop, p))
    return items


def run_regress(only: List[str], root: str, jobs: int = 16) -> int:
    items = collect(only)
    bad = 0
    with ProcessPoolExecutor(max_workers=jobs) as ex:
        res = list(ex.map(_one, [(k, n, p, f, root) for k, n, p, f in items]))
    for kind, name, prop, rc, info in res:
        want = 0 if kind == "benign" else 1
        status = "ok" if rc == want else "MISMATCH"
        if rc != want:
            bad += 1
        verdict = {0: "silent", 1: "FIRED", 2: "ANALYSIS-ERROR", -1: "PATCH-FAILED"}.get(rc, str(rc))
        print(f"{status:8} {kind:7} {name:32} {prop} -> {verdict}  {info[:230]}")
    print(f"regress: {len(res)} patch/property pairs, {bad} not as expected")
    return 0 if bad == 0 else 3
