"""C02 MBI signatures, CRC, HMAC, encryption: protected ranges and key flow (E14 windows, E4 twins, E13 constants)."""
from __future__ import annotations

import ast
from typing import Any, Dict, List

from ..core import astutil as A
from ..core.loader import AnalysisError
from ..core.report import norm
from . import c01, c03, c09

MIX = "spsdk/image/mbi/mbi_mixin.py"
CLS = "spsdk/image/mbi/mbi_classes.py"


def rule_crc(ctx) -> None:
    chk, prog = ctx.chk, ctx.prog
    sg = ctx.own(MIX, "Mbi_ExportMixinCrcSign", "sign")
    calcs = [c for c in sorted(A.calls_in(sg.node, "calculate"), key=lambda c: c.lineno)]
    # CRC coverage as a window list: two calculations chained through initial_value, or one calculation over the concatenation
    # (equivalent for CRC-32/MPEG-2: no reflection, no final xor - the algorithm itself is pinned by the next obligation)
    K = "self.IVT_CRC_CERTIFICATE_OFFSET"
    if len(calcs) == 2:
        wins = [norm(calcs[0].args[0]), norm(calcs[1].args[0])]
        seed = [n for n in A.walk_no_nested(sg.node) if isinstance(n, ast.Assign) and norm(n.targets[0]) == "crc_obj.initial_value"]
        chained = bool(seed) and norm(seed[0].value) == "crc" and calcs[0].lineno < seed[0].lineno < calcs[1].lineno
    elif len(calcs) == 1:
        def flat(e):
            return flat(e.left) + flat(e.right) if isinstance(e, ast.BinOp) and isinstance(e.op, ast.Add) else [e]
        wins = [norm(x) for x in flat(A.inline_locals(sg.node, calcs[0].args[0], keep=["input_image"]))]
        chained = True
    else:
        raise AnalysisError("C02.crc-window: expected one or two CRC calculations in Mbi_ExportMixinCrcSign.sign")
    ok = wins == [f"input_image[:{K}]", f"input_image[{K} + 4:]"]
    chk.decide(ok and chained, "C02.crc-window", sg.qual, "CRC covers image[:K] then image[K+4:] (second part seeded with the first), i.e. everything except the 4-byte CRC word", f"{wins}, chained={chained}", f"input_image[:{K}] and input_image[{K} + 4:]", A.loc(MIX, sg.node))
    alg = [c for c in A.calls_in(sg.node, "from_crc_algorithm")]
    chk.decide(bool(alg) and norm(alg[0].args[0]) == "CrcAlg.CRC32_MPEG", "C02.crc-window", sg.qual + " algorithm", "CRC-32/MPEG-2", norm(alg[0]) if alg else "", "", A.loc(MIX, sg.node))
    inp = A.single_def(sg.node, "input_image")
    chk.decide(inp is not None and norm(inp) == "image.export()", "C02.crc-window", sg.qual + " input", "computed over the exported image", norm(inp) if inp is not None else "", "", A.loc(MIX, sg.node))
    wr = [c for c in A.calls_in(sg.node, "update_crc_val_cert_offset")]
    tgt = [c for c in A.calls_in(sg.node, "get_image_by_absolute_address")]
    ok = bool(wr) and [norm(a) for a in wr[0].args] == ["image_with_crc.binary", "crc"] and bool(tgt) and norm(tgt[0].args[0]) == K
    chk.decide(ok, "C02.crc-window", sg.qual + " store", "the result is written into the sub-image that holds offset K, at K", norm(wr[0]) if wr else "", "", A.loc(MIX, sg.node))
    # BCA variant
    sb = ctx.own(MIX, "Mbi_ExportMixinCrcSignBca", "sign")
    # sign evaluated on a model image: the BCA sub-image gets CRC-32/MPEG-2 of image[IMG_DATA_START:] at 12, the start IMG_DATA_START
    # at 4 and the byte count at 8 (little-endian words), nothing else changes; revert returns the image untouched
    import struct as _struct
    import zlib as _zlib
    from ..engines import ordereval as _oe
    Obj = _oe.Obj
    # (the export mixin only declares IMG_DATA_START; the value comes from the mixin that defines the vx image layout)
    starts = {prog.fold(n.value, sb.module) for k in ast.walk(sb.module.tree) if isinstance(k, ast.ClassDef) for n in k.body
              if isinstance(n, (ast.Assign, ast.AnnAssign)) and n.value is not None and norm(n.targets[0] if isinstance(n, ast.Assign) else n.target) == "IMG_DATA_START"}
    if len(starts) != 1 or not isinstance(next(iter(starts)), int):
        raise AnalysisError(f"C02.crc-window: IMG_DATA_START is not defined once in the module ({starts})")
    START = next(iter(starts))
    probs = []
    for L in (START + 1, START + 64, START + 333):
        RAW = bytes((i * 11 + 5) & 0xFF for i in range(L))
        BCA0 = bytes(range(0x80, 0x80 + 64))
        bca = Obj(_sub=True, binary=BCA0)
        image = Obj(_img=True, _bca=bca)

        def cv(c: ast.Call, ev, RAW=RAW, bca=bca):
            f = norm(c.func)
            if f == "image.export" and not c.args:
                return RAW
            if f == "image.find_sub_image" and len(c.args) == 1:
                return bca if ev.ev(c.args[0]) == "Boot Config Area" else None
            if f in ("struct.pack", "pack") and c.args:
                return _struct.pack(ev.ev(c.args[0]), *[ev.ev(a) for a in c.args[1:]])
            if f == "from_crc_algorithm" and len(c.args) == 1:
                return Obj(_crc=norm(c.args[0]))
            if isinstance(c.func, ast.Attribute) and c.func.attr == "calculate" and len(c.args) == 1:
                o = ev.ev(c.func.value)
                if isinstance(o, Obj) and "_crc" in o.__dict__:
                    return _zlib.crc32(o.__dict__["_crc"].encode() + b"|" + bytes(ev.ev(c.args[0])))
            return _oe.NOT_MODELLED
        try:
            out = _oe.Evaluator({"self": Obj(IMG_DATA_START=START), "image": image, "revert": False}, ctx.fold_sym(sb), opaque_return=False, call_value=cv).run(A.body_of(sb.node))
        except _oe.Unsupported as ex:
            raise AnalysisError(f"C02.crc-window: Mbi_ExportMixinCrcSignBca.sign left the fragment: {ex}")
        crc = _zlib.crc32(b"CrcAlg.CRC32_MPEG|" + RAW[START:])
        want_b = bytearray(BCA0)
        want_b[12:16] = _struct.pack("<I", crc)
        want_b[4:8] = _struct.pack("<I", START)
        want_b[8:12] = _struct.pack("<I", L - START)
        got_b = bytes(bca.__dict__["binary"]) if isinstance(bca.__dict__["binary"], (bytes, bytearray)) else None
        if out.kind != "return" or got_b != bytes(want_b):
            diff = [i for i in range(min(len(got_b or b""), 64)) if (got_b or b"")[i] != want_b[i]]
            probs.append(f"image of {L} bytes: {out.kind}; BCA bytes differ at {diff[:12]} (length {len(got_b) if got_b is not None else None})")
    out_r = _oe.Evaluator({"self": Obj(IMG_DATA_START=START), "image": Obj(_img=True, _marker=1), "revert": True}, ctx.fold_sym(sb), opaque_return=False).run(A.body_of(sb.node))
    if not (out_r.kind == "return" and isinstance(out_r.value, Obj) and "_marker" in out_r.value.__dict__):
        probs.append("revert does not hand the image back untouched")
    chk.decide(not probs, "C02.crc-window", sb.qual, f"start (@4), byte count (@8) and CRC-32/MPEG-2 (@12) describe exactly the hashed range image[IMG_DATA_START={START}:] (3 models)", "; ".join(probs[:2]), "", A.loc(MIX, sb.node))
    # manifest CRC
    cd = ctx.own(MIX, "Mbi_ExportMixinAppCertBlockManifest", "collect_data")
    t = norm(cd.node)
    ok = "self.manifest.compute_crc(ret.export()[:-4])" in t and "image_manifest.binary = self.manifest.export()" in t
    app_before = t.find("ret.append_image(image_manifest)") < t.find("self.manifest.compute_crc(")
    mc = ctx.cls(CLS, "MasterBootImageManifestCrc")
    ex = mc.method("export")
    from ..engines import bytelayout
    nf = bytelayout.normal_form(lambda e: prog.fold(e, mc.module, mc), ex.node) if ex is not None else None
    # the parent's bytes, then exactly one 4-byte little-endian word holding self.crc (however the bytes are put together)
    crc_last = bool(nf) and len(nf) == 2 and "super().export()" in str(nf[0]) and nf[1][0] == 4 and "self.crc" in str(nf[1]) and "little" in str(nf[1])
    chk.decide(ok and app_before and crc_last, "C02.manifest", cd.qual, "manifest CRC covers the whole block except its trailing 4-byte CRC item, then the manifest is re-exported into the same sub-image", f"crc call {ok}, appended before {app_before}, crc is last item {crc_last}", "", A.loc(MIX, cd.node))
    cc = mc.method("compute_crc")
    chk.decide(cc is not None and "CrcAlg.CRC32_MPEG" in norm(cc.node) and "self.crc = crc_obj.calculate(image)" in norm(cc.node), "C02.manifest", f"{CLS}::MasterBootImageManifestCrc.compute_crc", "CRC-32/MPEG-2 of the given bytes", "", "", CLS)


def rule_signed_range(ctx) -> None:
    chk = ctx.chk
    for cn in ("Mbi_ExportMixinRsaSign", "Mbi_ExportMixinEccSign"):
        sg = ctx.own(MIX, cn, "sign")
        gs = [c for c in A.calls_in(sg.node, "get_signature")]
        app = [c for c in A.calls_in(sg.node, "append_image")]
        if not gs or not app:
            raise AnalysisError(f"C02.sign-what-precedes: {cn}.sign shape changed")
        arg = norm(gs[0].args[0])
        dts = [n for n in A.walk_no_nested(sg.node) if isinstance(n, ast.Assign) and norm(n.targets[0]) == "self.data_to_sign"]
        signed = arg if arg == "image.export()" else (norm(dts[0].value) if arg == "self.data_to_sign" and dts else arg)
        # no modification of the image between taking the bytes and appending the signature
        lo = dts[0].lineno if dts else gs[0].lineno
        muts = [n for n in A.walk_no_nested(sg.node) if isinstance(n, (ast.Assign, ast.AugAssign)) and lo < n.lineno < app[0].lineno and norm(n.targets[0] if isinstance(n, ast.Assign) else n.target).startswith("image.")]
        ok = signed == "image.export()" and not muts and app[0].lineno > gs[0].lineno and norm(app[0].func.value) == "image"
        chk.decide(ok, "C02.sign-what-precedes", sg.qual, "the signature is computed over image.export() of the very image it is then appended to, with no store in between", f"signed `{signed}`, stores in between {[norm(m) for m in muts]}", "", A.loc(MIX, sg.node))
    vx = ctx.own(MIX, "Mbi_ExportMixinEccSignVx", "sign")
    d = A.single_def(vx.node, "data_to_sign")
    want = "input_image[:self.IMG_DIGEST_OFFSET] + input_image[self.IMG_BCA_OFFSET:self.IMG_SIGNED_HEADER_END] + input_image[self.IMG_DATA_START:]"
    chk.decide(d is not None and norm(d) == want, "C02.sign-what-precedes", vx.qual, "signed data = header up to the digest | BCA..FCF | data from IMG_DATA_START", norm(d) if d is not None else "", want, A.loc(MIX, vx.node))
    bt = ctx.cls(MIX, "Mbi_MixinBcaTable")
    f = lambda k: ctx.prog.fold(bt.consts.get(k), bt.module, bt, None, 1)  # noqa: E731  (class-body expression: bare names are class constants)
    v = {k: f(k) for k in ("IMG_DIGEST_OFFSET", "IMG_DIGEST_SIZE", "IMG_SIGNATURE_OFFSET", "IMG_BCA_OFFSET", "IMG_SIGNED_HEADER_END", "IMG_FCF_OFFSET", "IMG_ISK_OFFSET", "IMG_DATA_START", "IMG_ISK_HASH_OFFSET", "IMG_ISK_HASH_SIZE")}
    if not all(isinstance(x, int) for x in v.values()):
        raise AnalysisError(f"C02.sign-what-precedes: BCA table constants do not fold: {v}")
    ordered = 0 < v["IMG_DIGEST_OFFSET"] < v["IMG_BCA_OFFSET"] < v["IMG_SIGNED_HEADER_END"] <= v["IMG_DATA_START"]
    outside = v["IMG_DIGEST_OFFSET"] + v["IMG_DIGEST_SIZE"] <= v["IMG_SIGNATURE_OFFSET"] and v["IMG_SIGNATURE_OFFSET"] + 64 <= v["IMG_BCA_OFFSET"] and v["IMG_SIGNED_HEADER_END"] <= v["IMG_ISK_OFFSET"] \
        and v["IMG_ISK_HASH_OFFSET"] + v["IMG_ISK_HASH_SIZE"] <= v["IMG_DATA_START"] and v["IMG_ISK_OFFSET"] >= v["IMG_SIGNED_HEADER_END"]
    chk.decide(ordered and outside, "C02.sign-what-precedes", f"{MIX}::Mbi_MixinBcaTable windows", "the three signed windows are ordered and disjoint; digest, signature, ISK certificate and ISK hash are written outside them", f"{v}", "", A.loc(MIX, bt.node))
    dg = A.single_def(vx.node, "image_digest")
    sig = A.single_def(vx.node, "signature")
    chk.decide(dg is not None and norm(dg) == "get_hash(data_to_sign)" and sig is not None and norm(sig) == "self.signature_provider.get_signature(data_to_sign)", "C02.sign-what-precedes", vx.qual + " digest", "digest and signature are computed over the same bytes", "", "", A.loc(MIX, vx.node))


def rule_hmac_enc(ctx) -> None:
    chk = ctx.chk
    ch = ctx.own(MIX, "Mbi_MixinHmac", "compute_hmac")
    key = A.single_def(ch.node, "key")
    res = A.single_def(ch.node, "result")
    ok = key is not None and norm(key) == "KeyStore.derive_hmac_key(self.hmac_key)" and res is not None and norm(res) == "hmac(key, data)"
    guard = any(isinstance(s, ast.If) and norm(s.test) == "len(result) != self.HMAC_SIZE" and A.always_raises(s.body) for s in A.body_of(ch.node))
    chk.decide(ok and guard, "C02.hmac", ch.qual, "HMAC-SHA256 under the key derived from the user key, over the given bytes; size checked", f"key {norm(key) if key is not None else ''}, result {norm(res) if res is not None else ''}", "", A.loc(MIX, ch.node))
    fz = ctx.own(MIX, "Mbi_ExportMixinHmacKeyStoreFinalize", "finalize")
    hv = A.single_def(fz.node, "hmac_value")
    chk.decide(hv is not None and norm(hv) == "self.compute_hmac(raw_image[:self.HMAC_OFFSET])", "C02.hmac", fz.qual, "HMAC covers the first HMAC_OFFSET (64) bytes of the final image", norm(hv) if hv is not None else "", "", A.loc(MIX, fz.node))
    # encryption twin
    enc = ctx.own(MIX, "Mbi_ExportMixinAppTrustZoneCertBlockEncrypt", "encrypt")
    # decision table of the function in its inputs (layout of the ifs, temporaries and conditional expressions do not matter)
    from .c01 import enc_table
    table, dirs_ok = enc_table(enc.node)
    want_tab = {("derived", "KeyStore.derive_enc_image_key(self.hmac_key)", "self.ctr_init_vector", "image.export()"), ("stored", "self.hmac_key", "self.ctr_init_vector", "image.export()")}
    ok = table["aes_ctr_encrypt"] == table["aes_ctr_decrypt"] and dirs_ok and all(x[2] == "self.ctr_init_vector" and x[3] == "image.export()" for x in table["aes_ctr_encrypt"]) and bool(table["aes_ctr_encrypt"])
    chk.decide(ok, "C02.enc-twin", enc.qual, "encrypt and its revert use the same key and the same counter IV over the whole image", f"{sorted(table['aes_ctr_encrypt'])} / {sorted(table['aes_ctr_decrypt'])}; directions {dirs_ok}", "", A.loc(MIX, enc.node))
    chk.decide(table["aes_ctr_encrypt"] == want_tab, "C02.enc-twin", enc.qual + " key", "key = user key, replaced by derive_enc_image_key(user key) when no key store / OTP source", f"{sorted(table['aes_ctr_encrypt'])}", f"{sorted(want_tab)}", A.loc(MIX, enc.node))
    pe = ctx.own(MIX, "Mbi_ExportMixinAppTrustZoneCertBlockEncrypt", "post_encrypt")
    # forward: the parts appended on the non-revert paths, in order; revert: numeric windows of the re-assembled image for a sample
    # (offset, size) of the certificate block - both read off the symbolic paths, so temporaries / named constants do not matter
    sp = [q for q in A.spaths(pe.node) if q.end == "return"]
    fwd_seqs = set()
    for q in sp:
        if not q.assumes("revert", False):
            continue
        parts = []
        for c in q.calls("append_image"):
            b = [k.value for cc in ast.walk(c) if isinstance(cc, ast.Call) and A.call_name(cc) == "BinaryImage" for k in cc.keywords if k.arg == "binary"]
            parts.append(ctx.vnorm(pe, b[0]) if b else "?")
        fwd_seqs.add(tuple(parts))
    IB = "image.export()"
    want_fwd = [f"self.ivt_table.update_ivt({IB}[:self.HMAC_OFFSET], self.img_len, self.app_len)", f"{IB}[self.HMAC_OFFSET:self.app_len]", "self.cert_block.export()", f"{IB}[:56]", "self.ctr_init_vector", f"{IB}[self.app_len:]"]
    want_fwd = [ctx.vnorm(pe, w) for w in want_fwd]
    fwd_ok = fwd_seqs == {tuple(want_fwd), tuple(want_fwd[:-1])} and any(q.assumes("self.trust_zone.export()", True) and len(q.calls("append_image")) == 6 for q in sp)
    O, S = 1000, 300
    env = {f"self.ivt_table.get_cert_block_offset_from_data({IB})": O, "self.cert_block.expected_size": S}
    rev_wins = set()
    for q in sp:
        if not q.assumes("revert", True) or q.value is None:
            continue
        b = [k.value for cc in ast.walk(q.value) if isinstance(cc, ast.Call) and A.call_name(cc) == "BinaryImage" for k in cc.keywords if k.arg == "binary"]

        def flat(e):
            return flat(e.left) + flat(e.right) if isinstance(e, ast.BinOp) and isinstance(e.op, ast.Add) else [e]
        wins = []
        for x in (flat(b[0]) if b else []):
            if isinstance(x, ast.Subscript) and isinstance(x.slice, ast.Slice) and norm(x.value) == IB:
                lo = ctx.subst_fold(x.slice.lower, env, pe.module, pe.cls) if x.slice.lower is not None else 0
                hi = ctx.subst_fold(x.slice.upper, env, pe.module, pe.cls) if x.slice.upper is not None else None
                wins.append((lo, hi))
            else:
                wins.append(norm(x))
        rev_wins.add(tuple(wins))
    rev = rev_wins == {((O + S, O + S + 56), (56, O), (O + S + 56 + 16, None))}
    chk.decide(fwd_ok and rev, "C02.enc-twin", pe.qual, "forward layout: new IVT | rest of app | cert block | original encrypted IVT (56) | IV (16) | TrustZone; revert re-assembles exactly these windows", f"forward {sorted(fwd_seqs)[:1]}, revert windows {sorted(map(str, rev_wins))}", "", A.loc(MIX, pe.node))
    il = ctx.own(MIX, "Mbi_ExportMixinAppTrustZoneCertBlockEncrypt", "img_len")
    r = A.returns_in(il.node)
    chk.decide(bool(r) and ctx.vnorm(il, A.inline_locals(il.node, r[-1].value)) == "self.total_len + self.cert_block.signature_size + 56 + 16", "C02.enc-twin", il.qual, "image length counts the encrypted IVT copy (56) and the IV (16)", norm(r[-1]) if r else "", "", A.loc(MIX, il.node))


def rule_certlen(ctx) -> None:
    """cert_block.image_length is assigned before cert_block.export() wherever the block is emitted."""
    chk = ctx.chk
    for cn, mn in (("Mbi_ExportMixinAppTrustZoneCertBlock", "collect_data"), ("Mbi_ExportMixinAppTrustZoneCertBlockEncrypt", "post_encrypt")):
        fn = ctx.own(MIX, cn, mn)
        sets = [n.lineno for n in A.walk_no_nested(fn.node) if isinstance(n, ast.Assign) and norm(n.targets[0]) == "self.cert_block.image_length"]
        emits = [c.lineno for c in A.calls_in(fn.node, "append_image") if "self.cert_block.export()" in norm(c)]
        chk.decide(bool(sets) and bool(emits) and min(sets) < min(emits), "C02.certlen", fn.qual, "the certificate block's image length is set before the block is exported into the image", f"set at {sets}, emitted at {emits}", "", A.loc(MIX, fn.node))
    fn = ctx.own(MIX, "Mbi_ExportMixinAppTrustZoneCertBlock", "collect_data")
    st = [norm(n.value) for n in A.walk_no_nested(fn.node) if isinstance(n, ast.Assign) and norm(n.targets[0]) == "self.cert_block.image_length"]
    chk.decide(st == ["self.total_length_for_cert_block"], "C02.certlen", fn.qual + " value", "image length = sum of the parts counted for the legacy cert block length", f"{st}", "", A.loc(MIX, fn.node))
    iv = [c for c in A.calls_in(fn.node, "update_ivt")]
    chk.decide(bool(iv) and [norm(a) for a in iv[0].args] == ["self.app", "self.total_len + self.cert_block.signature_size", "self.app_len"], "C02.certlen", fn.qual + " ivt", "IVT total length includes the signature; cert offset word = application length", norm(iv[0]) if iv else "", "", A.loc(MIX, fn.node))


def rule_manifest_digest(ctx) -> None:
    """C02.manifest-digest: the optional manifest digest is the hash of the bytes that were signed (everything preceding the signature)."""
    chk = ctx.chk
    fn = ctx.own(MIX, "Mbi_ExportMixinAppCertBlockManifest", "finalize")
    hs = [c for c in ast.walk(fn.node) if isinstance(c, ast.Call) and A.call_name(c) == "get_hash"]
    if len(hs) != 1:
        raise AnalysisError("C02.manifest-digest: get_hash call of finalize not found")
    data = norm(A.inline_locals(fn.node, A.arg_of(hs[0], 0, "data")))
    alg = norm(A.arg_of(hs[0], 1, "algorithm")) if A.arg_of(hs[0], 1, "algorithm") is not None else ""
    chk.decide(data == "self.data_to_sign" and alg == "self.manifest.digest_hash_algo", "C02.manifest-digest", fn.qual, "digest = H(self.data_to_sign) with the manifest's digest algorithm",
               f"digest is computed over `{data}` with `{alg}`", "get_hash(self.data_to_sign, self.manifest.digest_hash_algo)", A.loc(MIX, hs[0]))
    # data_to_sign is what the signing mixin signed
    for cn in ("Mbi_ExportMixinEccSign",):
        sg = ctx.own(MIX, cn, "sign")
        dts = [n for n in A.walk_no_nested(sg.node) if isinstance(n, ast.Assign) and norm(n.targets[0]) == "self.data_to_sign"]
        gs = [c for c in A.calls_in(sg.node, "get_signature")]
        ok = len(dts) == 1 and norm(dts[0].value) == "image.export()" and bool(gs) and norm(gs[0].args[0]) == "self.data_to_sign" and dts[0].lineno < gs[0].lineno
        chk.decide(ok, "C02.manifest-digest", sg.qual, "self.data_to_sign = image.export() taken before the signature is appended, and it is what gets signed", "", "", A.loc(MIX, sg.node))


def run(ctx) -> None:
    ctx.chk.explain("C02: the CRC window (two slices around the 4-byte word, chained, MPEG-2), the BCA CRC fields, the manifest CRC, the bytes handed to the signature provider, the "
                    "EccSignVx signed windows vs the windows written afterwards, the HMAC input and derived key, the AES-CTR twin and the post-encrypt layout/revert windows, "
                    "the cert block length ordering are decided on the AST; key-store derivation constants are folded (shared with C09); the root-key hash construction "
                    "sites are cross-checked (shared with C03); key-store presence representation (shared with C01).")
    ctx.rule(rule_crc)
    ctx.rule(rule_signed_range)
    ctx.rule(rule_hmac_enc)
    ctx.rule(rule_certlen)
    ctx.rule(c09.rule_keystore, "C02")
    ctx.rule(c01.rule_presence, "C02")
    ctx.rule(c03.rule_key_hash, "C02")
    ctx.rule(rule_manifest_digest)
    from . import c17 as _c17
    _t = _c17.build_taint(ctx)
    ctx.rule(_c17.rule_stable_getter, _t, "C02")
    ctx.chk.assumptions = ["signature providers, hashes, HMAC, AES and CRC primitives compute their standards (C08/C09)", "not decided: that signatures verify, that chains lead to the RKTH at value level"]


MANIFEST = {
    "level": "Static structural decision that every protected range is the range the format defines and that the same keys/bytes are used on both sides: slice windows, chaining, "
             "ordering and key flow are extracted from the AST and compared with the format's constants. Cryptographic values are not computed.",
    "note": "Trusted: crypto wrappers (C09), signature provider (C08). Not decided: signature validity, certificate chain validation.",
    "technique": "static analysis: slice-window and ordering rules, twin cross-checks, constant folding, construction cross-check of root-key hashing, symbolic-path decision tables (encryption twin), numeric windows, byte-layout normal forms",
}
