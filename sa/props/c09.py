"""C09 Ciphers, MACs, hashes, CRCs and KDFs (E4 twins, wrapper binding, E13 constant tables, counter)."""
from __future__ import annotations

import ast
from typing import Any, Dict, List, Optional, Tuple

from ..core import astutil as A
from ..core.loader import AnalysisError
from ..core.report import norm
from ..core.symtab import UNKNOWN, FuncInfo
from ..engines import bytelayout, ordereval, roundtrip

SYM = "spsdk/crypto/symmetric.py"
HASH = "spsdk/crypto/hash.py"
HMAC = "spsdk/crypto/spsdk_hmac.py"
CMAC = "spsdk/crypto/cmac.py"
HKDF = "spsdk/crypto/hkdf.py"
CRC = "spsdk/crypto/crc.py"
KEYSTORE = "spsdk/image/keystore.py"
KDF = "spsdk/sbfile/sb31/functions.py"

# constants of the `cryptography` package the wrappers consult (documented values)
EXTERNAL = {
    "algorithms.AES.block_size": 128, "algorithms.SM4.block_size": 128,
    "algorithms.AES.key_sizes": frozenset([128, 192, 256, 512]), "algorithms.SM4.key_sizes": frozenset([128]),
}
# positional parameter names of the external primitives (cryptography API)
EXT_SIG = {"Cipher": ["algorithm", "mode"], "AESCCM": ["key", "tag_length"], "HMAC": ["key", "algorithm"], "CMAC": ["algorithm"],
           "HKDF": ["algorithm", "length", "salt", "info"], "Hash": ["algorithm"], "AES": ["key"], "SM4": ["key"], "CBC": ["initialization_vector"],
           "CTR": ["nonce"], "XTS": ["tweak"], "ECB": [], "aes_key_wrap": ["wrapping_key", "key_to_wrap"], "aes_key_unwrap": ["wrapping_key", "wrapped_key"],
           "encrypt": ["nonce", "data", "associated_data"], "decrypt": ["nonce", "data", "associated_data"], "derive": ["key_material"],
           "update": ["data"], "verify": ["signature"], "mkCrcFun": ["poly", "initCrc", "rev", "xorOut"]}


def expand_helpers(ctx, fn: FuncInfo, e: ast.expr, depth: int = 3) -> ast.expr:
    """Inline calls to same-module helper functions whose body is assignments + one return."""
    if depth == 0:
        return e
    prog = ctx.prog

    class T(ast.NodeTransformer):
        def visit_Call(self, node: ast.Call) -> ast.AST:
            self.generic_visit(node)
            if isinstance(node.func, ast.Name):
                r = prog.resolve(fn.module, node.func.id)
                if isinstance(r, FuncInfo) and r.module is fn.module and r.cls is None and r.node is not fn.node:
                    s = A.summary_expr(r.node)
                    b = A.bind_args(r.node, node)
                    if s is not None and b is not None:
                        return expand_helpers(ctx, r, A.subst(s, b), depth - 1)
            return node

    return T().visit(A.clone(e))


def value_of(ctx, fn: FuncInfo, e: ast.expr) -> ast.expr:
    return expand_helpers(ctx, fn, A.inline_locals(fn.node, expand_helpers(ctx, fn, e), depth=6))


def call_desc(c: ast.Call) -> Tuple[str, Dict[str, str]]:
    """(callee short name, {param: normalised arg}) with positional args bound through EXT_SIG."""
    name = A.call_name(c)
    sig = EXT_SIG.get(name, [])
    out: Dict[str, str] = {}
    for i, a in enumerate(c.args):
        out[sig[i] if i < len(sig) else f"#{i}"] = norm(a)
    for k in c.keywords:
        out[k.arg or "**"] = norm(k.value)
    return name, out


def cipher_desc(ctx, fn: FuncInfo) -> Dict[str, Any]:
    """Descriptor of a Cipher-style wrapper: algorithm, key, mode, mode parameter, direction, data."""
    rets = A.returns_in(fn.node)
    if len(rets) != 1:
        raise AnalysisError(f"{fn.qual}: expected one return")
    e = value_of(ctx, fn, rets[0].value)
    if not (isinstance(e, ast.BinOp) and isinstance(e.op, ast.Add) and isinstance(e.left, ast.Call) and isinstance(e.right, ast.Call)
            and A.call_name(e.left) == "update" and A.call_name(e.right) == "finalize"):
        raise AnalysisError(f"{fn.qual}: return is not <ctx>.update(data) + <ctx>.finalize(): {norm(e)[:120]}")
    o1, o2 = e.left.func.value, e.right.func.value  # type: ignore[union-attr]
    if norm(o1) != norm(o2):
        return {"error": f"update and finalize act on different contexts: {norm(o1)[:60]} vs {norm(o2)[:60]}"}
    if not (isinstance(o1, ast.Call) and A.call_name(o1) in ("encryptor", "decryptor")):
        raise AnalysisError(f"{fn.qual}: context is not cipher.encryptor()/decryptor()")
    ciph = o1.func.value  # type: ignore[union-attr]
    if not (isinstance(ciph, ast.Call) and A.call_name(ciph) == "Cipher"):
        raise AnalysisError(f"{fn.qual}: cipher object is not Cipher(...)")
    _n, cargs = call_desc(ciph)
    alg = mode = None
    for c in ast.walk(ciph):
        if isinstance(c, ast.Call) and isinstance(c.func, ast.Attribute) and norm(c.func.value) == "algorithms":
            alg = (c.func.attr, norm(c.args[0]) if c.args else None)
        if isinstance(c, ast.Call) and isinstance(c.func, ast.Attribute) and norm(c.func.value) == "modes":
            mode = (c.func.attr, norm(c.args[0]) if c.args else None)
    slot_ok = "algorithms." in cargs.get("algorithm", "") and "modes." in cargs.get("mode", "")
    data = e.left.args[0] if e.left.args else None
    data_txt = norm(data) if data is not None else None
    padded = None
    if isinstance(data, ast.Call) and A.call_name(data) == "align_block":
        padded = norm(A.arg_of(data, 1, "alignment")) if A.arg_of(data, 1, "alignment") is not None else "default"
        data_txt = norm(data.args[0])
    return {"alg": alg, "mode": mode, "direction": A.call_name(o1), "data": data_txt, "padded": padded, "slots": slot_ok}


CIPHER_REF = {
    "aes_ecb_encrypt": (("AES", "key"), ("ECB", None), "encryptor", "plain_data"),
    "aes_ecb_decrypt": (("AES", "key"), ("ECB", None), "decryptor", "encrypted_data"),
    "aes_cbc_encrypt": (("AES", "key"), ("CBC", "IV"), "encryptor", "plain_data"),
    "aes_cbc_decrypt": (("AES", "key"), ("CBC", "IV"), "decryptor", "encrypted_data"),
    "aes_ctr_encrypt": (("AES", "key"), ("CTR", "nonce"), "encryptor", "plain_data"),
    "aes_ctr_decrypt": (("AES", "key"), ("CTR", "nonce"), "decryptor", "encrypted_data"),
    "aes_xts_encrypt": (("AES", "key"), ("XTS", "tweak"), "encryptor", "plain_data"),
    "aes_xts_decrypt": (("AES", "key"), ("XTS", "tweak"), "decryptor", "encrypted_data"),
    "sm4_cbc_encrypt": (("SM4", "key"), ("CBC", "IV"), "encryptor", "plain_data"),
    "sm4_cbc_decrypt": (("SM4", "key"), ("CBC", "IV"), "decryptor", "encrypted_data"),
}
TWINS = [("aes_ecb_encrypt", "aes_ecb_decrypt"), ("aes_cbc_encrypt", "aes_cbc_decrypt"), ("aes_ctr_encrypt", "aes_ctr_decrypt"),
         ("aes_xts_encrypt", "aes_xts_decrypt"), ("sm4_cbc_encrypt", "sm4_cbc_decrypt")]


def _ext_subst(e: ast.AST) -> ast.AST:
    class T(ast.NodeTransformer):
        def visit_Attribute(self, node: ast.Attribute) -> ast.AST:
            d = A.dotted(node)
            if d in EXTERNAL:
                v = EXTERNAL[d]
                if isinstance(v, frozenset):
                    return ast.Tuple(elts=[ast.Constant(value=x) for x in sorted(v)], ctx=ast.Load())
                return ast.Constant(value=v)
            return self.generic_visit(node)
    return T().visit(A.clone(e))


def rule_ciphers(ctx) -> None:
    chk = ctx.chk
    descs: Dict[str, Dict[str, Any]] = {}
    for name, (alg, mode, direction, data) in CIPHER_REF.items():
        fn = ctx.func(SYM, name)
        d = cipher_desc(ctx, fn)
        descs[name] = d
        if "error" in d:
            chk.bad("C09.wrapper-binding", fn.qual, d["error"], "one cipher context for update and finalize", A.loc(SYM, fn.node))
            continue
        iv_ok = True
        mode_param = d["mode"][1] if d["mode"] else None
        if mode[1] == "IV":
            # IV is `iv_data or <default block of zeros>`
            iv_ok = mode_param is not None and mode_param.startswith("iv_data or bytes(")
            got_mode = (d["mode"][0], "IV" if iv_ok else mode_param)
        else:
            got_mode = d["mode"]
        ok = d["alg"] == alg and got_mode == mode and d["direction"] == direction and d["data"] == data and d["slots"]
        chk.decide(bool(ok), "C09.wrapper-binding", fn.qual, f"Cipher({alg[0]}({alg[1]}), {mode[0]}({mode[1] or ''})).{direction}() over `{data}`",
                   f"algorithm={d['alg']} mode={d['mode']} direction={d['direction']} data={d['data']}", f"{alg} {mode} {direction} {data}", A.loc(SYM, fn.node))
    for enc, dec in TWINS:
        e, d = descs.get(enc, {}), descs.get(dec, {})
        if "error" in e or "error" in d or not e or not d:
            continue
        same = e["alg"] == d["alg"] and e["mode"] == d["mode"]
        chk.decide(same, "C09.enc-dec-twin", f"{SYM}::{enc}/{dec}", f"both build Cipher({e['alg']}, {e['mode']})",
                   f"{enc}: {e['alg']},{e['mode']}  vs  {dec}: {d['alg']},{d['mode']}", "identical algorithm, key, mode and mode parameter (incl. the default IV expression)", SYM)
        # guards (configuration slice): same raising tests in the same order
        fe, fd = ctx.func(SYM, enc), ctx.func(SYM, dec)
        ge = [norm(s.test) for s in A.body_of(fe.node) if isinstance(s, ast.If) and A.always_raises(s.body)]
        gd = [norm(s.test) for s in A.body_of(fd.node) if isinstance(s, ast.If) and A.always_raises(s.body)]
        chk.decide(ge == gd, "C09.enc-dec-twin", f"{SYM}::{enc}/{dec} guards", f"same {len(ge)} raising guard(s)", f"{enc} guards {ge} vs {dec} guards {gd}", "identical guards", SYM)
    # padding only on the encrypt side of CBC, with the cipher's block size
    for name, blk in (("aes_cbc_encrypt", "AES"), ("sm4_cbc_encrypt", "SM4")):
        d = descs.get(name, {})
        if d and "error" not in d:
            pad = d.get("padded")
            v = None
            if pad:
                try:
                    v = ordereval.Evaluator({}).ev(_ext_subst(ast.parse(pad, mode="eval").body))
                except ordereval.Unsupported:
                    v = None
            chk.decide(v == 16, "C09.cbc-padding", f"{SYM}::{name}", "plaintext is padded to the 16-byte block", f"padding alignment {pad} = {v}", f"algorithms.{blk}.block_size // 8 = 16", SYM)
    # defaults satisfy guards (E5 on the guard prefix with the cryptography constants substituted)
    for name, alg in (("aes_cbc_encrypt", "AES"), ("aes_cbc_decrypt", "AES"), ("sm4_cbc_encrypt", "SM4"), ("sm4_cbc_decrypt", "SM4")):
        fn = ctx.func(SYM, name)
        body = [_ext_subst(s) for s in A.body_of(fn.node)]
        iv_def = [s for s in body if isinstance(s, ast.Assign) and isinstance(s.value, ast.BoolOp) and isinstance(s.value.op, ast.Or)]
        if len(iv_def) != 1:
            raise AnalysisError(f"C09.default-iv: `{name}` has no `x = iv_data or <default>` statement")
        ivname = iv_def[0].targets[0].id
        default = iv_def[0].value.values[-1]
        dl = None
        if isinstance(default, ast.Call) and A.call_name(default) == "bytes" and default.args:
            try:
                dl = ordereval.Evaluator({}).ev(default.args[0])
            except ordereval.Unsupported:
                dl = None
        if not isinstance(dl, int):
            raise AnalysisError(f"C09.default-iv: default IV of {name} is not bytes(<int expr>)")
        guards = [s for s in body if isinstance(s, ast.If) and A.always_raises(s.body)]
        keysizes = sorted(EXTERNAL[f"algorithms.{alg}.key_sizes"])
        cex = None
        n = 0
        for klen in [0, 8, 15, 16, 17, 24, 32, 48, 64]:
            for ivlen in sorted({dl, 0, 8, 12, 15, 16, 17, 32, 128}):
                def sym(x, klen=klen, ivlen=ivlen):
                    if isinstance(x, ast.Call) and A.call_name(x) == "len" and x.args:
                        a = norm(x.args[0])
                        if a == "key":
                            return klen
                        if a in (ivname, "iv_data"):
                            return ivlen
                    if isinstance(x, ast.JoinedStr):
                        return 0
                    return None
                out = ordereval.Evaluator({}, sym).run(guards)
                n += 1
                want = "raise" if (klen * 8 not in keysizes or ivlen != 16) else "fall"
                if out.kind != want and cex is None:
                    cex = (klen, ivlen, out.kind, want)
        chk.exhaustive_rules.add("C09.guards")
        chk.decide(cex is None, "C09.guards", fn.qual, f"accepts exactly key lengths {[k // 8 for k in keysizes]} and 16-byte IVs ({n} points)",
                   f"key {cex[0]} B, IV {cex[1]} B -> {cex[2]}" if cex else "", f"{cex[3]}" if cex else "", A.loc(SYM, fn.node))
        chk.decide(dl == 16, "C09.default-iv", fn.qual, "default IV is one 16-byte block and satisfies the length guard",
                   f"default IV is {dl} bytes ({norm(default)}); the guard accepts only 16", "bytes(block_size // 8)", A.loc(SYM, fn.node))
    chk.floor("C09.wrapper-binding", 10)


def _obj_trace(ctx, fn: FuncInfo) -> Dict[str, Any]:
    """The wrapper evaluated on symbolic arguments with the external primitive as a recorder: which primitive is constructed with
    which arguments, what is fed to update(), how it is finished and what is returned.  Classes of the analysed module that wrap the
    primitive (spsdk's own Hash) are stepped into, so going through them or through the library object directly reads the same."""
    params = [a.arg for a in fn.node.args.args]
    made: List[ordereval.Obj] = []
    classes = {c.name: c for c in ctx.prog.classes.values() if c.module is fn.module}

    def bound(name: str, call: ast.Call, ev) -> Tuple:
        sig = EXT_SIG.get(name, [])
        out = {}
        for i, a in enumerate(call.args):
            out[sig[i] if i < len(sig) else f"#{i}"] = ev.ev(a)
        for k in call.keywords:
            out[k.arg or "**"] = ev.ev(k.value)
        return tuple(sorted(out.items()))

    def cv(call: ast.Call, ev):
        name = A.call_name(call)
        if name == "get_hash_algorithm" and len(call.args) + len(call.keywords) == 1:
            return ("ALG", ev.ev(call.args[0] if call.args else call.keywords[0].value))
        external = isinstance(call.func, ast.Attribute) and isinstance(call.func.value, ast.Name) and call.func.value.id not in ev.env \
            or isinstance(call.func, ast.Name) and call.func.id not in ev.env and call.func.id not in classes
        if name in ("AES", "SM4") and external:
            return (name,) + bound(name, call, ev)
        if name in ("Hash", "HMAC", "CMAC") and external:
            o = ordereval.Obj(_ext=name, args=bound(name, call, ev), ups=[], fin=None)
            made.append(o)
            return o
        if isinstance(call.func, ast.Attribute) and call.func.attr in ("update", "finalize", "verify"):
            try:
                recv = ev.ev(call.func.value)
            except ordereval.Unsupported:
                return ordereval.NOT_MODELLED
            if isinstance(recv, ordereval.Obj) and "_ext" in recv.__dict__:
                if recv.fin is not None:
                    raise ordereval.Unsupported(call, "primitive used after it was finished")
                if call.func.attr == "update":
                    recv.ups.append(bound("update", call, ev))
                    return None
                recv.fin = (call.func.attr, bound(call.func.attr, call, ev))
                return ("DIGEST", id(recv)) if call.func.attr == "finalize" else None
        return ordereval.NOT_MODELLED
    try:
        out = ordereval.Evaluator({p_: f"<{p_}>" for p_ in params}, ctx.fold_sym(fn), opaque_return=False,
                                  call_value=ctx.model_calls(cv, classes=classes)).run(A.body_of(fn.node))
    except ordereval.Unsupported as ex:
        raise AnalysisError(f"{fn.qual}: left the fragment: {ex}")
    if len(made) != 1:
        return {"error": f"{len(made)} primitive objects constructed"}
    o = made[0]
    ret = "digest" if out.kind == "return" and out.value == ("DIGEST", id(o)) else (out.kind, out.value if not isinstance(out.value, tuple) else "?")
    return {"ctor": o._ext, "args": dict(o.args), "update": [dict(u) for u in o.ups], "final": [(o.fin[0], dict(o.fin[1]))] if o.fin else [], "returns": ret}


OBJ_REF = {
    (HASH, "get_hash"): {"ctor": "Hash", "args": {"algorithm": ("ALG", "<algorithm>")}, "update": [{"data": "<data>"}], "final": [("finalize", {})], "returns": "digest"},
    (HMAC, "hmac"): {"ctor": "HMAC", "args": {"key": "<key>", "algorithm": ("ALG", "<algorithm>")}, "update": [{"data": "<data>"}], "final": [("finalize", {})], "returns": "digest"},
    (HMAC, "hmac_validate"): {"ctor": "HMAC", "args": {"key": "<key>", "algorithm": ("ALG", "<algorithm>")}, "update": [{"data": "<data>"}],
                              "final": [("verify", {"signature": "<signature>"})], "returns": ("return", True)},
    (CMAC, "cmac"): {"ctor": "CMAC", "args": {"algorithm": ("AES", ("key", "<key>"))}, "update": [{"data": "<data>"}], "final": [("finalize", {})], "returns": "digest"},
    (CMAC, "cmac_validate"): {"ctor": "CMAC", "args": {"algorithm": ("AES", ("key", "<key>"))}, "update": [{"data": "<data>"}],
                              "final": [("verify", {"signature": "<signature>"})], "returns": ("return", True)},
}


def rule_macs(ctx) -> None:
    chk = ctx.chk
    for (rp, name), ref in OBJ_REF.items():
        fn = ctx.func(rp, name)
        d = _obj_trace(ctx, fn)
        chk.decide(d == ref, "C09.wrapper-binding", fn.qual, f"{ref['ctor']}({ref['args']}).update(data).{ref['final'][0][0]}() is what the wrapper does and returns (trace on symbolic arguments)", f"{d}", f"{ref}", A.loc(rp, fn.node))
        if ref["final"][0][0] != "finalize":
            # verify inside a try: completing it leads to `return True` (inside or after the try), InvalidSignature alone to `return False`
            trs = [n for n in A.walk_no_nested(fn.node) if isinstance(n, ast.Try)]
            ok = False
            if len(trs) == 1:
                t = trs[0]
                h_ok = len(t.handlers) == 1 and norm(t.handlers[0].type) == "InvalidSignature" and [norm(s) for s in t.handlers[0].body] == ["return False"] and not t.finalbody
                in_try = any(isinstance(s, ast.Expr) and isinstance(s.value, ast.Call) and A.call_name(s.value) == "verify" for s in t.body)
                is_verify = lambda s: isinstance(s, ast.Expr) and isinstance(s.value, ast.Call) and A.call_name(s.value) == "verify"  # noqa: E731
                gp = A.gpaths(fn.node)
                with_v = [q for q in gp if any(is_verify(s) for s in q.stmts)]
                without = [q for q in gp if not any(is_verify(s) for s in q.stmts)]
                ok = h_ok and in_try and bool(with_v) and all(q.end == "return" and norm(q.last) == "return True" and is_verify(q.stmts[-2]) for q in with_v) \
                    and bool(without) and all(q.end == "return" and norm(q.last) == "return False" for q in without)
            chk.decide(ok, "C09.validate-polarity", fn.qual, "verify() success -> True, InvalidSignature -> False", norm(trs[0])[:120] if trs else "no try", "try: verify; return True / except InvalidSignature: return False", A.loc(rp, fn.node))
    # hkdf
    fn = ctx.func(HKDF, "hkdf")
    r = A.returns_in(fn.node)
    e = value_of(ctx, fn, r[0].value) if r else None
    ok = False
    if isinstance(e, ast.Call) and A.call_name(e) == "derive" and isinstance(e.func.value, ast.Call):
        n, a = call_desc(e.func.value)
        ok = n == "HKDF" and a == {"algorithm": "SHA256()", "length": "length", "salt": "salt", "info": "info"} and [norm(x) for x in e.args] == ["ikm"]
    chk.decide(ok, "C09.wrapper-binding", fn.qual, "HKDF(SHA256, length, salt, info).derive(ikm)", norm(e) if e is not None else "", "HKDF(algorithm=SHA256(), length=length, salt=salt, info=info).derive(ikm)", A.loc(HKDF, fn.node))
    # key wrap and CCM
    for name, callee, want in (("aes_key_wrap", "aes_key_wrap", {"wrapping_key": "kek", "key_to_wrap": "key_to_wrap"}),
                               ("aes_key_unwrap", "aes_key_unwrap", {"wrapping_key": "kek", "wrapped_key": "wrapped_key"})):
        fn = ctx.func(SYM, name)
        r = A.returns_in(fn.node)
        e = value_of(ctx, fn, r[0].value) if r else None
        ok = isinstance(e, ast.Call) and norm(e.func) == f"keywrap.{callee}" and call_desc(e)[1] == want
        chk.decide(ok, "C09.wrapper-binding", fn.qual, f"keywrap.{callee}({want})", norm(e) if e is not None else "", f"keywrap.{callee}(kek, ...)", A.loc(SYM, fn.node))
    ccm = {}
    for name, meth, data in (("aes_ccm_encrypt", "encrypt", "plain_data"), ("aes_ccm_decrypt", "decrypt", "encrypted_data")):
        fn = ctx.func(SYM, name)
        r = A.returns_in(fn.node)
        e = value_of(ctx, fn, r[0].value) if r else None
        if not (isinstance(e, ast.Call) and A.call_name(e) == meth and isinstance(e.func.value, ast.Call) and A.call_name(e.func.value) == "AESCCM"):
            raise AnalysisError(f"C09: {name} is not AESCCM(...).{meth}(...): {norm(e)[:100] if e is not None else ''}")
        ctor = call_desc(e.func.value)[1]
        args = call_desc(e)[1]
        ccm[name] = ctor
        ok = ctor == {"key": "key", "tag_length": "tag_len"} and args == {"nonce": "nonce", "data": data, "associated_data": "associated_data"}
        chk.decide(ok, "C09.wrapper-binding", fn.qual, f"AESCCM(key, tag_length=tag_len).{meth}(nonce, {data}, associated_data)", f"AESCCM({ctor}).{meth}({args})",
                   f"AESCCM(key, tag_length=tag_len).{meth}(nonce, {data}, associated_data)", A.loc(SYM, fn.node))
    chk.decide(ccm["aes_ccm_encrypt"] == ccm["aes_ccm_decrypt"], "C09.enc-dec-twin", f"{SYM}::aes_ccm_encrypt/aes_ccm_decrypt", "same AESCCM construction on both sides",
               f"{ccm}", "identical key and tag length", SYM)
    dfl = {}
    for name in ("aes_ccm_encrypt", "aes_ccm_decrypt"):
        fn = ctx.func(SYM, name)
        a = fn.node.args
        d = dict(zip([x.arg for x in a.args][len(a.args) - len(a.defaults):], [ctx.prog.fold(x, fn.module) for x in a.defaults]))
        dfl[name] = d.get("tag_len")
    chk.decide(dfl["aes_ccm_encrypt"] == dfl["aes_ccm_decrypt"] == 16, "C09.enc-dec-twin", f"{SYM}::aes_ccm default tag_len", "default tag length 16 on both sides", f"{dfl}", "16 / 16", SYM)
    # every optional parameter of an encrypt wrapper is optional with the same default on the decrypt side (and vice versa), so that
    # leaving the optional parameters out on both sides decrypts what was encrypted
    m_sym = ctx.m(SYM)
    pairs = []
    for q_, f_ in sorted(ctx.prog.functions.items()):
        if f_.module is m_sym and f_.cls is None and f_.name.endswith("_encrypt"):
            try:
                pairs.append((f_, ctx.func(SYM, f_.name[:-len("_encrypt")] + "_decrypt")))
            except Exception:  # noqa: BLE001
                raise AnalysisError(f"C09.enc-dec-twin: {f_.name} has no decrypt twin")
    if len(pairs) < 6:
        raise AnalysisError(f"C09.enc-dec-twin: only {len(pairs)} encrypt/decrypt pairs found")

    def optional_of(f_):
        a_ = f_.node.args
        pos = [x.arg for x in a_.args]
        d_ = dict(zip(pos[len(pos) - len(a_.defaults):], [ctx.prog.fold(x, f_.module) if not (isinstance(x, ast.Constant)) else x.value for x in a_.defaults]))
        for x, dv in zip(a_.kwonlyargs, a_.kw_defaults):
            if dv is not None:
                d_[x.arg] = dv.value if isinstance(dv, ast.Constant) else ctx.prog.fold(dv, f_.module)
        return pos + [x.arg for x in a_.kwonlyargs], d_
    data_names = {"plain_data", "encrypted_data"}
    for fe, fd in pairs:
        pe, de = optional_of(fe)
        pd_, dd = optional_of(fd)
        shared = [x for x in pe if x in pd_ and x not in data_names]
        diff = [x for x in shared if (x in de) != (x in dd) or (x in de and repr(de[x]) != repr(dd[x]))]
        only = [x for x in list(de) + list(dd) if x not in shared and x not in data_names]
        chk.decide(not diff and not only, "C09.enc-dec-twin", f"{SYM}::{fe.name}/{fd.name} defaults", f"optional parameters {sorted(set(de) | set(dd))} have the same default on both sides",
                   f"{fe.name} defaults {de} but {fd.name} defaults {dd}" + (f" (only on one side: {only})" if only else ""), "same optional parameters, same defaults", A.loc(SYM, fd.node))
    # hash algorithm lookup: every enum label names a cryptography hash class
    known = {"SHA1", "SHA224", "SHA256", "SHA384", "SHA512", "SHA512_224", "SHA512_256", "SHA3_224", "SHA3_256", "SHA3_384", "SHA3_512", "MD5", "SM3", "BLAKE2b", "BLAKE2s"}
    en = ctx.cls(HASH, "EnumHashAlgorithm")
    for k, v in en.consts.items():
        val = ctx.prog.fold(v, en.module, en)
        if isinstance(val, tuple) and len(val) >= 2 and k != "NONE":
            chk.decide(val[1].upper() in known and val[1].upper() == k, "C09.hash-registry", f"{HASH}::EnumHashAlgorithm.{k}", f"label {val[1]!r} names hashes.{val[1].upper()}",
                       f"label {val[1]!r} of member {k}", "label.upper() is the member's own hash class", A.loc(HASH, en.node))
    gha = ctx.func(HASH, "get_hash_algorithm")
    # evaluated on a model member: the class is looked up in `hashes` under the member's own upper-cased label and instantiated;
    # a label without such a class is refused by a raise
    par = gha.params()[0]

    def cv_h(c: ast.Call, ev):
        if A.call_name(c) == "getattr" and len(c.args) in (2, 3) and norm(c.args[0]) == "hashes":
            nm = ev.ev(c.args[1])
            if nm in known:
                return ordereval.Obj(_hashcls=nm)
            if len(c.args) == 3:
                return ev.ev(c.args[2])
            raise ordereval.ModelRaise(ordereval.Outcome("raise", "AttributeError", c))
        if not c.args and not c.keywords:
            try:
                callee = ev.ev(c.func)
            except ordereval.Unsupported:
                return ordereval.NOT_MODELLED
            if isinstance(callee, ordereval.Obj) and "_hashcls" in callee.__dict__:
                return ("INSTANCE", callee._hashcls)
        return ordereval.NOT_MODELLED
    probs = []
    for label in ("sha256", "Sha384", "sha3_512", "sm3", "nonsense"):
        try:
            out = ordereval.Evaluator({par: ordereval.Obj(label=label, tag=0)}, ctx.fold_sym(gha), opaque_return=False, call_value=cv_h).run(A.body_of(gha.node))
        except ordereval.Unsupported as ex:
            raise AnalysisError(f"C09.hash-registry: get_hash_algorithm left the fragment: {ex}")
        want_o = ("return", ("INSTANCE", label.upper())) if label.upper() in known else ("raise", None)
        if (out.kind, out.value) != want_o or (out.kind == "raise" and not isinstance(out.node, ast.Raise)):
            probs.append(f"label {label!r}: {out.kind} {out.value!r}")
    chk.decide(not probs, "C09.hash-registry", gha.qual, "class looked up by the member's own label (upper-cased) and instantiated; unknown labels refused",
               "; ".join(probs[:3]), "getattr(hashes, algorithm.label.upper(), None)()", A.loc(HASH, gha.node))
    ghl = ctx.func(HASH, "get_hash_length")
    r = A.returns_in(ghl.node)
    sp = [q for q in A.spaths(ghl.node) if q.end == "return"]
    chk.decide(bool(sp) and all(q.vtext == "get_hash_algorithm(algorithm).digest_size" for q in sp), "C09.hash-registry", ghl.qual, "length is the digest size of the same algorithm", norm(r[0]) if r else "", "", A.loc(HASH, ghl.node))


CRC_REF = {
    "CRC32": {"polynomial": 0x104C11DB7, "initial_value": 0x00000000, "final_xor": 0xFFFFFFFF, "reverse": True},
    "CRC32_MPEG": {"polynomial": 0x104C11DB7, "initial_value": 0xFFFFFFFF, "final_xor": 0x00000000, "reverse": False},
    "CRC16_XMODEM": {"polynomial": 0x11021, "initial_value": 0x0000, "final_xor": 0x0000, "reverse": False},
}


def rule_crc(ctx) -> None:
    chk = ctx.chk
    m = ctx.m(CRC)
    consts = ctx.prog.module_consts(m)
    tbl_node = consts.get("CRC_ALGORITHMS")
    if tbl_node is None:
        raise AnalysisError("C09.crc-table: CRC_ALGORITHMS not found")
    cfg = ctx.cls(CRC, "CrcConfig")
    fields = list(cfg.annots)

    # the table is evaluated, however it is written (a literal, a comprehension over rows, named constants for the polynomials):
    # module-level names are evaluated from their defining expressions, CrcAlg members are enum models, CrcConfig(...) binds its fields
    class _Shim:
        module, cls, node = m, None, m.tree
    base_sym = ctx.fold_sym(_Shim)
    active: set = set()

    def cv_cfg(c: ast.Call, ev):
        if A.call_name(c) == "CrcConfig":
            got_ = {}
            for i, a in enumerate(c.args):
                got_[fields[i]] = ev.ev(a)
            for kw in c.keywords:
                got_[kw.arg] = ev.ev(kw.value)
            return got_
        return ordereval.NOT_MODELLED

    def sym(x):
        if isinstance(x, ast.Name) and x.id in consts and x.id not in active and x.id != "CRC_ALGORITHMS":
            active.add(x.id)
            try:
                return ordereval.Evaluator({}, sym, call_value=cv_cfg).ev(consts[x.id])
            except ordereval.Unsupported:
                return None
            finally:
                active.discard(x.id)
        return base_sym(x)
    try:
        table = ordereval.Evaluator({}, sym, call_value=cv_cfg).ev(tbl_node)
    except ordereval.Unsupported as ex:
        raise AnalysisError(f"C09.crc-table: CRC_ALGORITHMS left the fragment: {ex}")
    if not isinstance(table, dict) or not table:
        raise AnalysisError("C09.crc-table: CRC_ALGORITHMS does not evaluate to a table")
    seen = set()
    for k, got in table.items():
        name = getattr(k, "name", None) or str(k)
        if not isinstance(got, dict):
            raise AnalysisError("C09.crc-table: entry is not CrcConfig(...)")
        seen.add(name)
        if name in CRC_REF:
            chk.decide(got == CRC_REF[name], "C09.crc-table", f"{CRC}::CRC_ALGORITHMS[{name}]", f"catalogue parameters {got} (crcmod convention)", f"{got}", f"{CRC_REF[name]}", A.loc(CRC, tbl_node))
    chk.decide(set(CRC_REF) <= seen, "C09.crc-table", f"{CRC}::CRC_ALGORITHMS", "the three named CRCs are present", f"present: {sorted(seen)}", f"{sorted(CRC_REF)}", CRC)
    init = ctx.own(CRC, "Crc", "__init__")
    st = {norm(s.targets[0]): norm(s.value) for s in A.walk_no_nested(init.node) if isinstance(s, ast.Assign)}
    chk.decide(all(st.get(f"self.{f}") == f"config.{f}" for f in ("polynomial", "initial_value", "final_xor", "reverse")), "C09.crc-binding", init.qual,
               "each parameter is copied from the config field of the same name", f"{st}", "self.x = config.x", A.loc(CRC, init.node))
    calc = ctx.own(CRC, "Crc", "calculate")
    mk = A.calls_in(calc.node, "mkCrcFun")
    got = call_desc(mk[0])[1] if mk else {}
    chk.decide(got == {"poly": "self.polynomial", "initCrc": "self.initial_value", "rev": "self.reverse", "xorOut": "self.final_xor"}, "C09.crc-binding", calc.qual,
               "mkCrcFun(poly, initCrc, rev, xorOut) receive polynomial, initial value, reverse, final xor", f"{got}", "poly=polynomial initCrc=initial_value rev=reverse xorOut=final_xor", A.loc(CRC, calc.node))
    r = A.returns_in(calc.node)
    e = A.inline_locals(calc.node, r[0].value) if r else None
    chk.decide(isinstance(e, ast.Call) and [norm(a) for a in e.args] == ["data"], "C09.crc-binding", calc.qual + " data", "the CRC function is applied to `data`", norm(e) if e is not None else "", "crc_func(data)", A.loc(CRC, calc.node))
    ver = ctx.own(CRC, "Crc", "verify")
    r = A.returns_in(ver.node)
    chk.decide(bool(r) and norm(r[0].value) in ("self.calculate(data) == crc", "crc == self.calculate(data)"), "C09.crc-binding", ver.qual, "verify compares the computed CRC with the given one",
               norm(r[0]) if r else "", "self.calculate(data) == crc", A.loc(CRC, ver.node))
    fca = ctx.func(CRC, "from_crc_algorithm")
    rets = [q for q in A.spaths(fca.node) if q.end == "return"]
    # the parameter set is looked up in CRC_ALGORITHMS by the requested algorithm: by index, or by .get() with the miss rejected
    def key(q):
        return "CrcAlg.from_label(crc_alg.lower())" if q.assumes("isinstance(crc_alg, str)", True) else "crc_alg"
    good = [q for q in rets if q.vtext == f"Crc(CRC_ALGORITHMS[{key(q)}])" or (q.vtext == f"Crc(CRC_ALGORITHMS.get({key(q)}))" and q.assumes(f"CRC_ALGORITHMS.get({key(q)}) is None", False))]
    chk.decide(bool(rets) and len(good) == len(rets), "C09.crc-binding", fca.qual, "returns Crc(CRC_ALGORITHMS[crc_alg])", "; ".join(q.vtext for q in rets if q not in good), "", A.loc(CRC, fca.node))


KEYSTORE_REF = {
    "derive_hmac_key": ("hmac_key", bytes(16), 32),
    "derive_enc_image_key": ("master_key", bytes([1] + [0] * 15 + [2] + [0] * 15), 32),
    "derive_sb_kek_key": ("master_key", bytes([3] + [0] * 15 + [4] + [0] * 15), 32),
}


def rule_keystore(ctx, P: str = "C09") -> None:
    chk = ctx.chk
    ks = ctx.cls(KEYSTORE, "KeyStore")
    for name, (key, block, klen) in KEYSTORE_REF.items():
        fn = ctx.own(KEYSTORE, "KeyStore", name)
        # whole-function evaluation (helpers stepped into): the function hands exactly (its key argument, the documented block) to AES-ECB
        keyv = bytes(range(7, 7 + klen))

        def leaves(c: ast.Call, ev):
            if norm(c.func) == "aes_ecb_encrypt" and len(c.args) == 2 and not c.keywords:
                return ("ecb", bytes(ev.ev(c.args[0])), bytes(ev.ev(c.args[1])))
            return roundtrip.std_leaves(c, ev)
        try:
            out = ordereval.Evaluator({a.arg: keyv for a in fn.node.args.args}, ctx.fold_sym(fn), opaque_return=False,
                                      call_value=ctx.model_calls(leaves, classes={"KeyStore": ks}, module=KEYSTORE)).run(A.body_of(fn.node))
            got = (out.kind, out.value)
        except ordereval.Unsupported as ex:
            raise AnalysisError(f"{P}.keystore-constants: {fn.qual} left the fragment: {ex}")
        ok = got == ("return", ("ecb", keyv, block))
        chk.decide(ok, f"{P}.keystore-constants", fn.qual, f"aes_ecb_encrypt({key}, {block.hex()})", f"{got[0]} {got[1][2].hex() if isinstance(got[1], tuple) and len(got[1]) == 3 else got[1]!r}"[:200],
                   f"({key}, {block.hex()})", A.loc(KEYSTORE, fn.node))
        cex = None
        for L in (0, 16, 31, 32, 33, 64):
            def sym(x, L=L):
                if isinstance(x, ast.Call) and A.call_name(x) == "len":
                    return L
                v = ctx.prog.fold(x, fn.module, ks) if isinstance(x, ast.Attribute) else None
                return v if isinstance(v, int) else None
            out = ordereval.Evaluator({}, sym).run(A.body_of(fn.node), stop_at_unsupported=True)
            want = "return" if L == klen else "raise"
            if out.kind != want and cex is None:
                cex = (L, out.kind)
        chk.decide(cex is None, f"{P}.keystore-guard", fn.qual, f"accepts exactly {klen}-byte keys", f"key length {cex[0]} -> {cex[1]}" if cex else "", "", A.loc(KEYSTORE, fn.node))
    fn = ctx.own(KEYSTORE, "KeyStore", "derive_otfad_kek_key")
    r = A.returns_in(fn.node)
    chk.decide(len(r) == 1 and norm(r[0].value) == "aes_ecb_encrypt(master_key, otfad_input)", f"{P}.keystore-constants", fn.qual, "aes_ecb_encrypt(master_key, otfad_input)", norm(r[0]) if r else "", "", A.loc(KEYSTORE, fn.node))


def rule_kdf(ctx, P: str = "C09") -> None:
    chk = ctx.chk
    fn = ctx.func(KDF, "_get_key_derivation_data")
    # whole-function evaluation on every combination of the small parameter domains (and three derivation constants) against the
    # documented 32-byte record: 12-byte LE constant | 8 zero | rights<<6 | mode 01/10 | 0 | key option 20/21 | BE key length | BE iteration
    kdm = ctx.enum_model(ctx.cls(KDF, "KeyDerivationMode"))
    if kdm is None:
        raise AnalysisError(f"{P}.kdf-layout: KeyDerivationMode does not fold to an enum model")
    sym_map0 = {"Endianness.LITTLE": ordereval.Obj(value="little"), "Endianness.BIG": ordereval.Obj(value="big"), "KeyDerivationMode": kdm}
    calls0 = ctx.model_calls(roundtrip.std_leaves, sym_map0, module=KDF)
    bad_l: List[str] = []
    n_l = 0
    for dc in (0, 0x0102030405, (1 << 96) - 2):
        for rights in (0, 1, 2, 3):
            for mode_m, mode_b in ((kdm.KDK, b"\x01"), (kdm.BLK, b"\x10")):
                for kl, opt in ((128, 0x20), (256, 0x21)):
                    for it in (1, 2):
                        want_r = dc.to_bytes(12, "little") + bytes(8) + bytes([rights << 6]) + mode_b + b"\x00" + bytes([opt]) + kl.to_bytes(4, "big") + it.to_bytes(4, "big")
                        try:
                            o = ordereval.Evaluator({"derivation_constant": dc, "kdk_access_rights": rights, "mode": mode_m, "key_length": kl, "iteration": it},
                                                    ctx.fold_sym(fn, sym_map0), opaque_return=False, call_value=calls0).run(A.body_of(fn.node))
                        except ordereval.Unsupported as ex:
                            raise AnalysisError(f"{P}.kdf-layout: {fn.qual} left the fragment: {ex}")
                        n_l += 1
                        if not (o.kind == "return" and isinstance(o.value, (bytes, bytearray)) and bytes(o.value) == want_r):
                            bad_l.append(f"constant {dc:#x}, rights {rights}, mode {mode_m.label}, length {kl}, iteration {it}: {o.kind} {bytes(o.value).hex() if isinstance(o.value, (bytes, bytearray)) else o.value!r} (expected {want_r.hex()})")
    chk.decide(not bad_l, f"{P}.kdf-layout", fn.qual, f"32-byte derivation record: 12-byte LE constant | 8 zero | rights<<6 | mode 01/10 | 0 | key option 20/21 | BE key length | BE iteration ({n_l} models)",
               "; ".join(bad_l[:2])[:600], "", A.loc(KDF, fn.node))
    # guards
    gs = [norm(s.test) for s in A.body_of(fn.node) if isinstance(s, ast.If) and A.always_raises(s.body)]
    chk.decide("kdk_access_rights not in [0, 1, 2, 3]" in gs and "key_length not in [128, 256]" in gs, f"{P}.kdf-guards", fn.qual, "rejects rights outside 0..3 and key lengths other than 128/256", f"{gs}", "", A.loc(KDF, fn.node))
    dk = ctx.func(KDF, "_derive_key")
    # _derive_key evaluated on a model: the derivation record is a symbolic function of its keyword arguments, CMAC a symbolic
    # function of (key, data).  Loop, comprehension, += chain and functools.partial / direct calls are all covered by evaluation.
    probs = []
    n_models = 0
    for kl in (128, 256):
        for mode in ("KDK", "BLK"):
            params = {"derivation_constant": 7, "kdk_access_rights": 2, "mode": mode, "key_length": kl}

            def cv(c: ast.Call, ev):
                f = norm(c.func)
                kw = {k.arg: ev.ev(k.value) for k in c.keywords if k.arg}
                if f in ("functools.partial", "partial") and c.args and norm(c.args[0]) == "_get_key_derivation_data":
                    return ordereval.Obj(_partial=kw)
                if isinstance(c.func, ast.Name) and isinstance(ev.env.get(c.func.id), ordereval.Obj) and "_partial" in ev.env[c.func.id].__dict__ and not c.args:
                    kw = dict(ev.env[c.func.id].__dict__["_partial"], **kw)
                    f = "_get_key_derivation_data"
                if f == "_get_key_derivation_data" and not c.args:
                    if {k: v for k, v in kw.items() if k != "iteration"} != params or not isinstance(kw.get("iteration"), int):
                        return b"D?"
                    return b"D" + bytes([kw["iteration"]])
                if f == "cmac" and len(c.args) + len(c.keywords) == 2:
                    return b"<" + ev.ev(A.arg_of(c, 0, "key")) + b"|" + ev.ev(A.arg_of(c, 1, "data")) + b">"
                return ordereval.NOT_MODELLED
            env = dict(params, key=b"K")
            try:
                out = ordereval.Evaluator(env, None, opaque_return=False, call_value=cv).run(A.body_of(dk.node))
            except ordereval.Unsupported as ex:
                raise AnalysisError(f"C09.kdf-derive: _derive_key left the fragment: {ex}")
            n_models += 1
            want_b = b"<K|D\x01>" + (b"<K|D\x02>" if kl == 256 else b"")
            if not (out.kind == "return" and out.value == want_b):
                probs.append(f"key_length {kl}, mode {mode}: {out.kind} {out.value!r} (expected CMAC(key, data(1)){' || CMAC(key, data(2))' if kl == 256 else ''})")
    chk.decide(not probs, f"{P}.kdf-derive", dk.qual, f"CMAC(key, data(i=1)) and, for 256-bit keys, || CMAC(key, data(i=2)); the record is bound to the caller's own parameters ({n_models} models)", "; ".join(probs[:2]), "", A.loc(KDF, dk.node))
    # the public entry points evaluated on a model, stepping into every function of the module on the way: the derivation record and
    # CMAC are symbolic leaves.  derive_kdk / derive_block_key / KeyDerivator bind key, constant, rights, length and mode as documented.
    gd_params = [a.arg for a in fn.node.args.args]
    kd = ctx.cls(KDF, "KeyDerivator")

    def rec(dc, rights, mode, kl, it) -> bytes:
        return b"D" + repr(sorted({"derivation_constant": dc, "kdk_access_rights": rights, "mode": mode, "key_length": kl, "iteration": it}.items())).encode()

    def leaves(c: ast.Call, ev):
        f = norm(c.func)
        kw = {k.arg: ev.ev(k.value) for k in c.keywords if k.arg}
        if f in ("functools.partial", "partial") and c.args and norm(c.args[0]) == "_get_key_derivation_data":
            return ordereval.Obj(_partial=kw)
        if isinstance(c.func, ast.Name) and isinstance(ev.env.get(c.func.id), ordereval.Obj) and "_partial" in ev.env[c.func.id].__dict__ and not c.args:
            kw = dict(ev.env[c.func.id].__dict__["_partial"], **kw)
            f = "_get_key_derivation_data"
        if f == "_get_key_derivation_data":
            for i, a in enumerate(c.args):
                kw[gd_params[i]] = ev.ev(a)
            return b"D" + repr(sorted(kw.items())).encode()
        if f == "cmac" and len(c.args) + len(c.keywords) == 2:
            return b"<" + ev.ev(A.arg_of(c, 0, "key")) + b"|" + ev.ev(A.arg_of(c, 1, "data")) + b">"
        return ordereval.NOT_MODELLED
    for n_ in ("derive_kdk", "derive_block_key"):
        ctx.func(KDF, n_)
    for n_ in ("__init__", "get_block_key"):
        ctx.own(KDF, "KeyDerivator", n_)
    sym_map = {"KeyDerivationMode.KDK": "KDK", "KeyDerivationMode.BLK": "BLK"}
    calls = ctx.model_calls(leaves, sym_map, classes={"KeyDerivator": kd}, module=KDF, max_depth=6)
    probs = []
    n2 = 0
    for kl in (128, 256):
        def cm(key: bytes, dc: int, mode: str) -> bytes:
            return b"".join(b"<" + key + b"|" + rec(dc, 2, mode, kl, i) + b">" for i in range(1, 2 + (kl == 256)))
        want_kdk = cm(b"P", 11, "KDK")
        cases = [("derive_kdk(pck, ts, kl, r)", want_kdk), ("derive_block_key(pck, bn, kl, r)", cm(b"P", 5, "BLK")),
                 ("KeyDerivator(pck, ts, kl, r).kdk", want_kdk), ("KeyDerivator(pck=pck, timestamp=ts, key_length=kl, kdk_access_rights=r).get_block_key(bn)", cm(want_kdk, 5, "BLK"))]
        for text, want_v in cases:
            ev_ = ordereval.Evaluator({"pck": b"P", "ts": 11, "kl": kl, "r": 2, "bn": 5}, ctx.fold_sym(dk, sym_map), opaque_return=False, call_value=calls)
            try:
                got_v = ev_.ev(ast.parse(text, mode="eval").body)
            except ordereval.ModelRaise as mr:
                got_v = f"raise {mr}"
            except ordereval.Unsupported as ex:
                raise AnalysisError(f"{P}.kdf-derive: {text} left the fragment: {ex}")
            n2 += 1
            if got_v != want_v:
                probs.append(f"{text} (key_length {kl}): {got_v!r}")
    chk.decide(not probs, f"{P}.kdf-derive", "derive_kdk / derive_block_key / KeyDerivator", f"KDK = KDF(PCK, timestamp, mode KDK), block key = KDF(KDK, block number, mode BLK), with the caller's rights and length ({n2} models)",
               "; ".join(probs[:2])[:500], "", A.loc(KDF, kd.node))


def rule_hash_update_int(ctx) -> None:
    """C09.hash-update-int: Hash.update_int(value) feeds the integer "as is": exactly the minimal big-endian bytes of |value| reach the
    digest (what get_hash of the same bytes sees), for values on both sides of every byte boundary."""
    kcls = ctx.cls(HASH, "Hash")
    fn = ctx.own(HASH, "Hash", "update_int")
    sym_map = {"Endianness.LITTLE": ordereval.Obj(value="little"), "Endianness.BIG": ordereval.Obj(value="big")}
    probs = []
    vals = [0, 1, 0x7F, 0x80, 0xFF, 0x100, 0x7FFF, 0x8000, 0xFFFF, 0x10000, (1 << 255) - 1, 1 << 255, (1 << 256) - 1, 1 << 256, -5, -0x80]
    for v in vals:
        fed: List[bytes] = []

        def leaves(c: ast.Call, ev, fed=fed):
            if norm(c.func) == "self.hash_obj.update" and len(c.args) == 1:
                fed.append(bytes(ev.ev(c.args[0])))
                return None
            return roundtrip.std_leaves(c, ev)
        me = ordereval.Obj(_cls=kcls, hash_obj=ordereval.Obj(_h=True))
        try:
            out = ordereval.Evaluator({"self": me, "value": v}, ctx.fold_sym(fn, sym_map), opaque_return=False, call_value=ctx.model_calls(leaves, sym_map, classes={"Hash": kcls})).run(A.body_of(fn.node))
        except ordereval.Unsupported as ex:
            raise AnalysisError(f"C09.hash-update-int: {fn.qual} left the fragment: {ex}")
        want = abs(v).to_bytes((abs(v).bit_length() + 7) // 8, "big")
        if out.kind == "raise" or b"".join(fed) != want:
            probs.append(f"value {v:#x}: digest is fed {b''.join(fed).hex()[:24] or '(nothing)'}{'...' if len(b''.join(fed)) > 12 else ''} ({len(b''.join(fed))} bytes), the integer is {want.hex()[:24] or '(empty)'} ({len(want)} bytes)")
    ctx.chk.analysed(fn.qual)
    ctx.chk.decide(not probs, "C09.hash-update-int", fn.qual, f"the digest sees the minimal big-endian bytes of |value| ({len(vals)} values around the byte boundaries)", "; ".join(probs[:3])[:600], "", A.loc(HASH, fn.node))


def rule_counter(ctx) -> None:
    chk = ctx.chk
    M = 1 << 32
    inc = ctx.own(SYM, "Counter", "increment")
    init = ctx.own(SYM, "Counter", "__init__")
    val = ctx.own(SYM, "Counter", "value")
    kcls = ctx.cls(SYM, "Counter")
    Obj = ordereval.Obj
    # The class evaluated as an object model (constructor, `value`, `increment` are stepped into; attribute names are whatever the
    # class uses): value = nonce[:12] | (counter word of the nonce + ctr_value + increments) in the SAME byte order it was read with.
    sym_map = {"Endianness.LITTLE": Obj(value="little"), "Endianness.BIG": Obj(value="big")}
    calls = ctx.model_calls(None, sym_map, classes={"Counter": kcls})

    def run_m(fn, env):
        try:
            return ordereval.Evaluator(env, ctx.fold_sym(fn, sym_map), opaque_return=False, call_value=calls).run(A.body_of(fn.node))
        except ordereval.Unsupported as e:
            raise AnalysisError(f"C09.counter: {fn.qual} left the fragment: {e}")
    probs_layout, probs_start, probs_inc = [], [], []
    n = 0
    NONCE = bytes(range(0xA0, 0xAC))
    for order in ("little", "big"):
        for c0 in (0, 1, 0x01020304, M - 40, M - 11):  # up to 2**32 - 1; the behaviour AT the wrap is the subject of C09.counter.width
            for start in (None, 0, 5):
                me = Obj(_cls=kcls)
                env = {"self": me, "nonce": NONCE + c0.to_bytes(4, order), "ctr_value": start, "ctr_byteorder_encoding": Obj(value=order)}
                out = run_m(init, env)
                n += 1
                if out.kind == "raise":
                    probs_layout.append(f"a 16-byte nonce is rejected ({order}, counter word {c0:#x})")
                    continue
                if c0 + (start or 0) >= M:
                    continue
                v = run_m(val, {"self": me})
                want_b = NONCE + (c0 + (start or 0)).to_bytes(4, order)
                got_b = bytes(v.value) if v.kind == "return" and isinstance(v.value, (bytes, bytearray)) else None
                if got_b != want_b:
                    (probs_start if start else probs_layout).append(f"{order}-endian counter word {c0:#x}, ctr_value {start}: value {got_b.hex() if got_b else v.kind}, expected {want_b.hex()}")
                    continue
                if c0 + (start or 0) >= M:
                    continue
                for k in (1, 2, 7):
                    c1 = c0 + (start or 0) + k
                    if c1 >= M:
                        break
                    run_m(inc, {"self": me, "value": k})
                    v2 = run_m(val, {"self": me})
                    want2 = NONCE + c1.to_bytes(4, order)
                    got2 = bytes(v2.value) if v2.kind == "return" and isinstance(v2.value, (bytes, bytearray)) else None
                    if got2 != want2:
                        probs_inc.append(f"{order}-endian, counter {c0 + (start or 0):#x} + {k}: value {got2.hex() if got2 else v2.kind}, expected {want2.hex()}")
                    c0 = c1 - (start or 0)
    for bad_nonce in (bytes(15), bytes(17), "x" * 16):
        out = run_m(init, {"self": Obj(_cls=kcls), "nonce": bad_nonce, "ctr_value": None, "ctr_byteorder_encoding": Obj(value="little")})
        if out.kind != "raise":
            probs_layout.append(f"nonce {bad_nonce!r:.20} is accepted")
    chk.decide(not probs_inc, "C09.counter.increment", inc.qual, "counter advances by exactly its argument (observed through `value`)", "; ".join(probs_inc[:2]), "ctr + value", A.loc(SYM, inc.node))
    chk.decide(not probs_layout, "C09.counter.layout", f"{SYM}::Counter", f"value = nonce[:12] | 4-byte counter, same byte order for reading and writing; only 16-byte nonces accepted ({n} models)",
               "; ".join(probs_layout[:2]), "nonce[:-4] | 4-byte counter, same byte order for reading and writing", A.loc(SYM, init.node))
    chk.decide(not probs_start, "C09.counter.start", init.qual, "ctr_value is added to the counter word of the nonce", "; ".join(probs_start[:2]), "counter word + ctr_value", A.loc(SYM, init.node))
    # bounded width: the 4-byte encoding of an accumulator that is never reduced (known finding, see DESIGN.md)
    reduced = any(isinstance(n2, ast.BinOp) and isinstance(n2.op, (ast.Mod, ast.BitAnd)) for f in (inc, init, val) for n2 in ast.walk(f.node))
    if not reduced:
        chk.bad("C09.counter.width", f"{SYM}::Counter.value", "self._ctr.to_bytes(4, ...) of an accumulator that is never reduced mod 2**32",
                "at the 32-bit wrap `value` raises OverflowError instead of giving the wrapped counter block", A.loc(SYM, val.node))
    else:
        chk.ok("C09.counter.width", f"{SYM}::Counter.value", "counter is reduced to 32 bits before it is encoded in 4 bytes")


def run(ctx) -> None:
    ctx.chk.explain("C09: every cipher/MAC/hash/KDF wrapper is reduced (locals and same-module helpers inlined) to a descriptor of the primitive it builds and the slot each "
                    "parameter lands in, compared with the reference binding; encrypt/decrypt twins must build the same configuration; CBC guards are decided on the "
                    "guard's syntax tree with cryptography's documented constants (default IV must satisfy its own guard); CRC catalogue, key-store constants and the "
                    "SB3.1 KDF record are folded/laid out symbolically and compared with the standards' tables; Counter arithmetic is decided at the 32-bit boundary.")
    ctx.rule(rule_ciphers)
    ctx.rule(rule_macs)
    ctx.rule(rule_crc)
    ctx.rule(rule_keystore)
    ctx.rule(rule_kdf)
    ctx.rule(rule_counter)
    ctx.rule(rule_hash_update_int)
    ctx.chk.assumptions = ["the `cryptography` and `crcmod` primitives implement their standards; their documented constants (block/key sizes) are as tabulated",
                           "not decided: ciphertext/digest values, equality with independent implementations"]


MANIFEST = {
    "level": "Static decision of wrapper structure for all keys/IVs/messages: each wrapper's primitive, parameter slots, defaults and guards are extracted from the source "
             "and compared with reference bindings; twins are cross-checked; standard constant tables are folded and compared. Values computed by the third-party "
             "primitives are trusted, not re-derived.",
    "note": "Trusted: cryptography/crcmod APIs and constants. One known finding (Counter 32-bit overflow) is listed in known_findings.json. Not decided: byte-level equality with reference implementations.",
    "technique": "static analysis: descriptor extraction with helper inlining, twin cross-check, order-type guard decision, symbolic byte layout, constant folding, finite-model evaluation of the KDF and of Counter as an object model, guarded paths, MAC/hash wrappers as traces on symbolic arguments (wrapper classes stepped into), KDF entry points as an interprocedural model, optional-parameter defaults of every encrypt/decrypt pair, key-store constants, KDF record and Hash.update_int decided by whole-function evaluation",
}
