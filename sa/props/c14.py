"""C14 Bootable image: database layout lint (E15) + offset formula twins, pattern routing, predicates."""
from __future__ import annotations

import ast
import itertools
from typing import Any, Dict, List, Optional, Tuple

from ..core import astutil as A
from ..core.devdb import DevDB
from ..core.loader import AnalysisError
from ..core.report import norm
from ..engines import ordereval
from ..engines.ordereval import Obj

BIMG = "spsdk/image/bootable_image/bimg.py"
SEG = "spsdk/image/bootable_image/segments.py"
MISC = "spsdk/utils/misc.py"


def segment_model(ctx) -> Dict[str, Dict[str, Any]]:
    """label -> {class, SIZE, INIT_SEGMENT, BOOT_HEADER, OFFSET_ALIGNMENT} from the Segment class hierarchy (globals() registry reconstructed statically)."""
    prog = ctx.prog
    base = ctx.cls(SEG, "Segment")
    enum = ctx.cls(SEG, "BootableImageSegment")
    labels = {}
    for k, v in enum.consts.items():
        t = prog.fold(v, enum.module, enum)
        if isinstance(t, tuple):
            labels[k] = t[1]
    out: Dict[str, Dict[str, Any]] = {}
    names_seen: Dict[str, str] = {}
    for c in prog.subclasses(base):
        if c.module.relpath != SEG:
            continue
        fc = prog.find_const(c, "NAME")
        member = norm(fc[1]).split(".")[-1] if fc else None
        if member not in labels:
            raise AnalysisError(f"C14: segment class {c.name} has NAME {member} which is not a BootableImageSegment member")
        info = {"class": c.name, "member": member}
        for attr in ("SIZE", "INIT_SEGMENT", "BOOT_HEADER", "OFFSET_ALIGNMENT"):
            f2 = prog.find_const(c, attr)
            info[attr] = prog.fold(f2[1], f2[0].module, f2[0]) if f2 else None
        label = labels[member]
        if label in out:
            ctx.chk.bad("C14.db-layout", f"{SEG}::{c.name}", f"segment name `{label}` is claimed by {out[label]['class']} and {c.name}: the globals() registry keeps only one", "segment NAMEs are unique", A.loc(SEG, c.node))
        out[label] = info
    if len(out) < 12:
        raise AnalysisError(f"C14: only {len(out)} segment classes modelled")
    return out


def rule_db_layout(ctx) -> None:
    chk = ctx.chk
    db = DevDB(ctx.repo)
    segs = segment_model(ctx)
    chk.extra["segment_classes"] = {k: v["class"] for k, v in sorted(segs.items())}
    ntab = 0
    seen = set()
    for dev, rev, f in db.iter_features("bootable_image"):
        for mt, d in (f.get("mem_types") or {}).items():
            table = (d or {}).get("segments")
            if not isinstance(table, dict):
                continue
            key = (dev, mt, tuple(table.items()), d.get("image_pattern"))
            where = f"spsdk/data/devices/{dev}/database.yaml bootable_image.{mt} ({rev})"
            if key in seen:
                continue
            seen.add(key)
            ntab += 1
            prev_static: Optional[Tuple[str, int]] = None
            has_init = False
            first_static_seen = False
            for name, off in table.items():
                if name not in segs:
                    chk.bad("C14.db-layout", where, f"segment `{name}` has no Segment class", "names resolvable through get_segments()", f"spsdk/data/devices/{dev}/database.yaml")
                    continue
                if not isinstance(off, int):
                    chk.bad("C14.db-layout", where, f"offset of `{name}` is {off!r}", "integer offset (negative = floating)", f"spsdk/data/devices/{dev}/database.yaml")
                    continue
                info = segs[name]
                has_init = has_init or (info["BOOT_HEADER"] is False)
                if off < 0:
                    if not first_static_seen:
                        chk.bad("C14.db-layout", where, f"floating segment `{name}` has no preceding segment with a static offset", "a floating segment follows a placed one", f"spsdk/data/devices/{dev}/database.yaml")
                    continue
                al = info["OFFSET_ALIGNMENT"] or 1
                eff = -(-off // al) * al
                if eff != off:
                    chk.bad("C14.db-layout", where, f"segment `{name}` is prescribed at {off:#x} but its class alignment {al} moves it to {eff:#x}", "every prescribed static offset is a multiple of the segment class's OFFSET_ALIGNMENT (the exporter aligns the offset up)", f"spsdk/data/devices/{dev}/database.yaml")
                first_static_seen = True
                if prev_static is not None:
                    pname, pend = prev_static
                    if eff < pend:
                        chk.bad("C14.db-layout", where, f"segment `{name}` at {eff:#x} starts before `{pname}` ends ({pend:#x})", "static offsets increase and fixed-size segments do not reach into the next one", f"spsdk/data/devices/{dev}/database.yaml")
                size = info["SIZE"] if isinstance(info["SIZE"], int) and info["SIZE"] > 0 else 0
                prev_static = (name, eff + size) if prev_static is None or eff + size >= prev_static[1] else prev_static
                if prev_static[0] != name and eff <= [o for n2, o in table.items() if n2 == prev_static[0]][0]:
                    chk.bad("C14.db-layout", where, f"segment `{name}` ({eff:#x}) is declared after `{prev_static[0]}` but does not lie behind it", "declaration order = address order", f"spsdk/data/devices/{dev}/database.yaml")
            if not has_init:
                chk.bad("C14.db-layout", where, "no application container segment (BOOT_HEADER = False: mbi/hab/ahab/sb) in the table", "at least one application container segment", f"spsdk/data/devices/{dev}/database.yaml")
            pat = d.get("image_pattern")
            if pat is not None and not (str(pat) in ("rand", "zeros", "ones", "inc") or _is_number(str(pat))):
                chk.bad("C14.db-layout", where, f"image_pattern `{pat}` is not a BinaryPattern literal", "zeros/ones/rand/inc or a number", f"spsdk/data/devices/{dev}/database.yaml")
    chk.ok("C14.db-layout", "bootable_image tables", f"{ntab} distinct (family, memory type) segment tables: names resolve, static offsets increase, fixed-size segments fit before the next one, an application container exists, patterns valid")
    chk.exhaustive_rules.add("C14.db-layout")
    chk.extra["segment_tables"] = ntab
    if ntab < 80:
        raise AnalysisError(f"C14.db-layout: only {ntab} segment tables found")


def _is_number(s: str) -> bool:
    from ..core.regspec import to_int
    return to_int(s) is not None


def rule_offsets(ctx) -> None:
    chk = ctx.chk
    gso = ctx.own(BIMG, "BootableImage", "get_segment_offset")
    inner = [n for n in gso.node.body if isinstance(n, ast.FunctionDef)]
    if not inner:
        raise AnalysisError("C14.offset-formula: inner _get_segment_offset not found")
    # evaluate the recursive inner function on small segment lists: static -> own offset; floating -> align(prev offset + len(prev), alignment)
    fn_node = inner[0]
    cex = None
    n = 0

    def run_inner(segments, seg):
        holder: Dict[str, Any] = {}

        def sym(x: ast.expr):
            if isinstance(x, ast.Call):
                f = norm(x.func)
                ev = holder["ev"]
                if f == "_get_segment_offset":
                    return run_inner(ev.ev(x.args[0]), ev.ev(x.args[1]))
                if f == "align":
                    a, b = ev.ev(x.args[0]), ev.ev(x.args[1])
                    return -(-a // b) * b
                if f == "isinstance":
                    return True
            return None
        ev = ordereval.Evaluator({"segments": segments, "segment": seg}, sym, opaque_return=False)
        holder["ev"] = ev
        out = ev.run(A.body_of(fn_node))
        if out.kind == "raise":
            raise _Raised()
        return out.value
    for layout in ([(0, 5, 1), (-1, 7, 4), (-1, 3, 8)], [(16, 9, 1), (-1, 2, 4)], [(0, 0, 1), (8, 3, 1), (-1, 1, 1)], [(-1, 4, 4), (32, 1, 1)]):
        segs = tuple(Obj(full_image_offset=o, len=l, OFFSET_ALIGNMENT=a, NAME=f"s{i}") for i, (o, l, a) in enumerate(layout))
        exp: List[Any] = []
        for i, (o, l, a) in enumerate(layout):
            if o >= 0:
                exp.append(o)
            elif i == 0 or exp[i - 1] == "raise":
                exp.append("raise")
            else:
                exp.append(-(-(exp[i - 1] + layout[i - 1][1]) // a) * a)
        for i, s in enumerate(segs):
            try:
                got: Any = run_inner(segs, s)
            except _Raised:
                got = "raise"
            except ordereval.Unsupported as e:
                raise AnalysisError(f"C14.offset-formula: left the fragment: {e}")
            n += 1
            if got != exp[i] and cex is None:
                cex = (layout, i, got, exp[i])
    chk.decide(cex is None, "C14.offset-formula", gso.qual, f"static segments sit at their database offset, floating ones at align(previous offset + previous length, OFFSET_ALIGNMENT) ({n} cases)",
               f"layout (offset,len,align) {cex[0]}, segment {cex[1]}: {cex[2]}" if cex else "", f"{cex[3]}" if cex else "", A.loc(BIMG, gso.node))
    r = A.returns_in(gso.node)
    chk.decide(bool(r) and norm(r[-1].value) == "_get_segment_offset(self._segments, segment) - self._init_offset", "C14.offset-formula", gso.qual + " init offset", "offsets are relative to the initial offset", norm(r[-1]) if r else "", "", A.loc(BIMG, gso.node))
    # the same dynamic formula in _parse and image_info
    # (as a recurrence: with X the first argument of align(X, segment.OFFSET_ALIGNMENT) in terms of the loop-carried variables, X is 0
    #  before the first segment and, after an iteration, X' = <offset used for this segment> + len(segment).  One running end, an
    #  (offset, size) pair or any other carried representation give the same recurrence.)
    for mn in ("_parse", "image_info"):
        f = ctx.own(BIMG, "BootableImage", mn)
        loops = [n_ for n_ in ast.walk(f.node) if isinstance(n_, ast.For) and any(A.call_name(c) == "align" and len(c.args) == 2 and norm(c.args[1]).endswith(".OFFSET_ALIGNMENT") for c in A.calls_in(n_))]
        if len(loops) != 1:
            raise AnalysisError(f"C14.offset-formula: the segment loop of {f.qual} was not found")
        lp = loops[0]
        seg = norm(lp.target)
        paths = [q for q in A.spaths(lp.body) if q.end in ("fall", "continue")]
        xs = {norm(c.args[0]) for q in paths for c in q.calls("align") if len(c.args) == 2 and norm(c.args[1]) == f"{seg}.OFFSET_ALIGNMENT"}
        probs = []
        if len(xs) != 1:
            probs.append(f"floating offset computed as {sorted(xs)}")
        else:
            x = ast.parse(next(iter(xs)), mode="eval").body
            carried = {n_.id for n_ in ast.walk(x) if isinstance(n_, ast.Name)}
            # initial value: the carried variables are bound to constants before the loop
            init = {}
            for st in ast.walk(f.node):
                if isinstance(st, ast.Assign) and isinstance(st.value, ast.Constant) and st.lineno < lp.lineno:
                    for t_ in st.targets:
                        if isinstance(t_, ast.Name) and t_.id in carried:
                            init[t_.id] = st.value
            x0 = ctx.prog.fold(A.subst(x, init), f.module) if set(init) == carried else None
            if x0 != 0:
                probs.append(f"before the first segment X = {norm(A.subst(x, init))} (expected 0)")
            for q in paths:
                if q.end == "continue" and not any(k in q.env and norm(q.env[k]) != k for k in carried):
                    continue  # a skipped segment leaves the carry alone
                nxt = norm(A.subst(x, {k: v for k, v in q.env.items() if k in carried}))
                floating = [norm(c) for c in q.calls("align") if len(c.args) == 2 and norm(c.args[1]) == f"{seg}.OFFSET_ALIGNMENT"]
                if not nxt.endswith(f" + len({seg})"):
                    probs.append(f"X' = {nxt}")
                    continue
                off = nxt[: -len(f" + len({seg})")]
                if floating:
                    # (the parser may add the displacement found by searching from the aligned position)
                    if off != floating[0] and not off.startswith(floating[0] + " + "):
                        probs.append(f"floating segment: X' = {nxt}, expected {floating[0]} + len({seg})")
                elif any(isinstance(n_, ast.Name) and n_.id in carried for n_ in ast.walk(ast.parse(off, mode="eval"))):
                    probs.append(f"static segment: X' = {nxt} depends on the carry")
        chk.decide(not probs, "C14.offset-formula", f.qual, "floating segments sit at align(end of the previous segment, OFFSET_ALIGNMENT); the end carried on is this segment's offset + its length", "; ".join(probs[:3]), "", A.loc(BIMG, f.node))
    fio = ctx.own(SEG, "Segment", "full_image_offset")
    cex = None
    for off in (-1, 0, 5, 1024):
        for al in (1, 4, 1024):
            holder: Dict[str, Any] = {}
            def sym(x):
                if isinstance(x, ast.Call) and norm(x.func) == "align":
                    a, b = holder["ev"].ev(x.args[0]), holder["ev"].ev(x.args[1])
                    return -(-a // b) * b
                return None
            ev = ordereval.Evaluator({"self": Obj(_offset=off, OFFSET_ALIGNMENT=al)}, sym, opaque_return=False)
            holder["ev"] = ev
            out = ev.run(A.body_of(fio.node))
            want = off if off < 0 else -(-off // al) * al
            if out.value != want and cex is None:
                cex = (off, al, out.value, want)
    chk.decide(cex is None, "C14.offset-formula", fio.qual, "database offset aligned up to the segment's alignment; negative means floating", f"{cex}", "", A.loc(SEG, fio.node))


class _Raised(Exception):
    pass


def rule_predicates(ctx) -> None:
    chk = ctx.chk
    st = ctx.own(BIMG, "BootableImage", "init_offset", kind="setter")
    us = ctx.own(BIMG, "BootableImage", "_update_segments")
    cex = None
    n = 0
    offsets_sets = [(0, 1024, 4096), (0, 512, -1), (1024, 2048), (0,)]
    for offs in offsets_sets:
        for off in (-1, 0, 1, 512, 513, 1024, 4096, 4097):
            segs = tuple(Obj(full_image_offset=o, excluded=False) for o in offs)
            me = Obj(_segments=segs, _init_offset=99)
            called = {"n": 0}

            def hook(c: ast.Call, ev, called=called) -> bool:
                if norm(c.func) == "self._update_segments":
                    called["n"] += 1
                    return True
                return False
            ev = ordereval.Evaluator({"self": me, "offset": off}, None, call_hook=hook)
            try:
                out = ev.run(A.body_of(st.node))
            except ordereval.Unsupported as e:
                raise AnalysisError(f"C14.predicates: init_offset setter left the fragment: {e}")
            n += 1
            ups = [o for o in offs if o >= off]  # documented: the closest segment START at or above; floating segments (-1) have no static start
            if off < 0 or (off > 0 and not ups):
                want: Any = "raise"
                got: Any = out.kind
            else:
                want = (0 if off == 0 else min(ups), 1)
                got = (ev.env.get("self._init_offset", me.__dict__.get("_init_offset")), called["n"])
            if got != want and cex is None:
                cex = (offs, off, got, want)
    chk.exhaustive_rules.add("C14.predicates")
    chk.decide(cex is None, "C14.predicates", f"{st.qual}.setter", f"negative offsets are rejected, 0 keeps the whole image, otherwise the closest segment start at or above the offset is chosen ({n} cases)",
               f"segment offsets {cex[0]}, init offset {cex[1]}: {cex[2]}" if cex else "", f"{cex[3]}" if cex else "", A.loc(BIMG, st.node))
    cex = None
    for offs in offsets_sets:
        for init in (0, 512, 1024, 4096):
            segs = tuple(Obj(full_image_offset=o, excluded=None) for o in offs)

            def sym(x, init=init):
                if norm(x) == "self.init_offset":
                    return init
                return None
            ev = ordereval.Evaluator({"self": Obj(_segments=segs)}, sym)
            # attribute stores on loop objects land in env under 'segment.excluded'; evaluate per segment instead
            for s in segs:
                ev2 = ordereval.Evaluator({"self": Obj(_segments=(s,))}, sym)
                try:
                    ev2.run(A.body_of(us.node))
                except ordereval.Unsupported as e:
                    raise AnalysisError(f"C14.predicates: _update_segments left the fragment: {e}")
                got = ev2.env.get("segment.excluded", s.__dict__.get("excluded"))
                want = (s.full_image_offset - init < 0) and s.full_image_offset >= 0
                if got != want and cex is None:
                    cex = (s.full_image_offset, init, got, want)
    chk.decide(cex is None, "C14.predicates", us.qual, "a segment is excluded exactly when it is statically placed before the initial offset (floating segments stay)", f"{cex}", "", A.loc(BIMG, us.node))


def rule_pattern_and_export(ctx) -> None:
    chk = ctx.chk
    init = ctx.own(BIMG, "BootableImage", "__init__")
    st = {norm(s.targets[0]): norm(s.value) for s in A.walk_no_nested(init.node) if isinstance(s, ast.Assign)}
    chk.decide(st.get("self.image_pattern") == "bimg_descr.get('image_pattern', 'zeros')", "C14.pattern", init.qual, "fill pattern comes from the database key `image_pattern` (default zeros)", st.get("self.image_pattern", ""), "", A.loc(BIMG, init.node))
    ii = ctx.own(BIMG, "BootableImage", "image_info")
    bi = [c for c in A.calls_in(ii.node, "BinaryImage")]
    kw = {k.arg: norm(k.value) for k in bi[0].keywords} if bi else {}
    chk.decide(kw.get("pattern") == "BinaryPattern(self.image_pattern)" and kw.get("size") == "len(self)", "C14.pattern", ii.qual, "export buffer has len(self) bytes filled with the device pattern", f"{kw}", "", A.loc(BIMG, ii.node))
    loops = [n for n in A.body_of(ii.node) if isinstance(n, ast.For)]
    ok = bool(loops) and norm(loops[0].iter) == "self.segments"
    sets = [norm(s) for s in ast.walk(loops[0]) if isinstance(s, ast.Assign)] if loops else []
    ok = ok and "img_info.offset = self.get_segment_offset(segment)" in sets and any(norm(c) == "bin_image.add_image(img_info)" for c in A.calls_in(loops[0]))
    chk.decide(ok, "C14.pattern", ii.qual + " segments", "every present segment is added at get_segment_offset(segment)", f"{sets}", "", A.loc(BIMG, ii.node))
    ex = ctx.own(BIMG, "BootableImage", "export")
    r = A.returns_in(ex.node)
    chk.decide(bool(r) and norm(r[-1].value) == "self.image_info().export()", "C14.pattern", ex.qual, "export is the export of image_info()", norm(r[-1]) if r else "", "", A.loc(BIMG, ex.node))
    ln = ctx.own(BIMG, "BootableImage", "__len__")
    r = A.returns_in(ln.node)
    chk.decide(bool(r) and norm(A.inline_locals(ln.node, r[-1].value)) == "self.get_segment_offset(self.segments[-1]) + len(self.segments[-1])", "C14.pattern", ln.qual, "length = end of the last present segment", norm(r[-1]) if r else "", "", A.loc(BIMG, ln.node))
    sg = ctx.own(BIMG, "BootableImage", "segments")
    r = A.returns_in(sg.node)
    chk.decide(bool(r) and norm(r[-1].value) == "[seg for seg in self._segments if seg.is_present]", "C14.pattern", sg.qual, "present segments in table order", norm(r[-1]) if r else "", "", A.loc(BIMG, sg.node))
    # parse: each non-excluded segment is parsed at its offset, in table order
    pa = ctx.own(BIMG, "BootableImage", "_parse")
    calls = [c for c in A.calls_in(pa.node, "parse_binary")]
    chk.decide(bool(calls) and norm(calls[0].args[0]) == "binary[offset:]", "C14.parse", pa.qual, "segments are parsed from binary[offset:]", norm(calls[0]) if calls else "", "", A.loc(BIMG, pa.node))
    loops = [n for n in ast.walk(pa.node) if isinstance(n, ast.For)]
    chk.decide(bool(loops) and norm(loops[0].iter) == "[seg for seg in self._segments if not seg.excluded]", "C14.parse", pa.qual + " order", "all non-excluded segments in table order", norm(loops[0].iter) if loops else "", "", A.loc(BIMG, pa.node))
    gs = ctx.own(BIMG, "BootableImage", "_get_segments")
    c = [x for x in ast.walk(gs.node) if isinstance(x, ast.Call) and any(k.arg == "offset" for k in x.keywords)]
    kw = {k.arg: norm(k.value) for k in c[0].keywords} if c else {}
    chk.decide(kw.get("offset") == "segment_offset" and "bimg_descr['segments'].items()" in norm(gs.node) and "BootableImageSegment.from_label(segment_name)" in norm(gs.node), "C14.parse", gs.qual, "segments are built from the database table (name -> class, offset -> offset) in table order", f"{kw}", "", A.loc(BIMG, gs.node))


RAW_KEEPERS = ["Segment", "SegmentFcb", "SegmentImageVersion", "SegmentImageVersionAntiPole", "SegmentMbi", "SegmentHab", "SegmentAhab"]


def rule_raw_bytes(ctx) -> None:
    """Parsing keeps the segment's bytes: parse_binary stores a slice of its input, never a re-export of the parsed object.
    (SegmentXmcd is the one deliberate exception: a variable-length block stored in canonical re-exported form.)"""
    chk = ctx.chk
    for cn in RAW_KEEPERS:
        c = ctx.cls(SEG, cn)
        f = c.method("parse_binary")
        if f is None:
            raise AnalysisError(f"C14.raw-bytes: {cn}.parse_binary not found")
        stores = [n for n in A.walk_no_nested(f.node) if isinstance(n, ast.Assign) and norm(n.targets[0]) == "self.raw_block"]
        delegates = "super().parse_binary(" in norm(f.node)
        if not stores and not delegates:
            raise AnalysisError(f"C14.raw-bytes: {cn}.parse_binary neither stores raw_block nor delegates")
        bad = []
        for st in stores:
            v = st.value
            if isinstance(v, ast.IfExp):
                parts = [v.body, v.orelse]
            else:
                parts = [v]
            for pz in parts:
                base = pz.value if isinstance(pz, ast.Subscript) else pz
                if not (isinstance(base, ast.Name) and base.id == "binary"):
                    bad.append(norm(st))
        chk.decide(not bad, "C14.raw-bytes", f"{SEG}::{cn}.parse_binary", "the segment keeps a slice of the parsed input as its bytes", f"{bad[0] if bad else ''}: the stored bytes are not the input bytes (normalising re-export)", "self.raw_block = binary[...]", A.loc(SEG, f.node))
    ctx.chk.report("C14.raw-bytes exception: SegmentXmcd.parse_binary stores xmcd.export() (variable-length block kept in canonical form)")


def rule_parse_fallthrough(ctx) -> None:
    """C14.parse-fallthrough: in every segment's parse_binary a path that has parsed the block successfully (delegated to the raw
    parser, or marked the segment as parsed) never runs into a raise."""
    chk, prog = ctx.chk, ctx.prog
    SEGS = "spsdk/image/bootable_image/segments.py"
    m = ctx.m(SEGS)
    n = 0
    for k in prog.classes.values():
        if k.module is not m:
            continue
        fn = k.method("parse_binary")
        if fn is None:
            continue
        n += 1
        try:
            ps = A.paths(A.body_of(fn.node))
        except OverflowError:
            raise AnalysisError(f"C14.parse-fallthrough: too many paths in {fn.qual}")
        bad = []
        for stmts, end in ps:
            if end != "raise":
                continue
            marks = [norm(s) for s in stmts[:-1] if norm(s).startswith("super().parse_binary(") or norm(s) == "self.not_parsed = False"]
            if marks:
                bad.append((marks[-1], norm(stmts[-1])[:70]))
        chk.decide(not bad, "C14.parse-fallthrough", fn.qual, f"none of {len(ps)} paths raises after the block was parsed",
                   f"after `{bad[0][0]}` the path runs into `{bad[0][1]}`" if bad else "", "return after the successful parse", A.loc(SEGS, fn.node))
    chk.floor("C14.parse-fallthrough", 8)


def rule_floating_search(ctx) -> None:
    """C14.floating-search: the scanner that locates a floating AHAB container set hands the header check everything from the candidate
    offset to the end of the data (a container header can be longer than one 0x400 slot: 8 images, PQC signatures)."""
    chk = ctx.chk
    AI = "spsdk/image/ahab/ahab_image.py"
    fn = ctx.own(AI, "AHABImage", "find_offset_of_ahab")
    calls = [c for c in ast.walk(fn.node) if isinstance(c, ast.Call) and isinstance(c.func, ast.Attribute) and c.func.attr in ("check_container_head", "pre_parse_verify")]
    if len(calls) < 1:
        raise AnalysisError("C14.floating-search: header checks of find_offset_of_ahab not found")
    for c in calls:
        a = A.inline_locals(fn.node, c.args[0]) if c.args else None
        ok = isinstance(a, ast.Subscript) and isinstance(a.slice, ast.Slice) and norm(a.value) == "binary" and a.slice.upper is None and a.slice.lower is not None and norm(a.slice.lower) == "offset"
        chk.decide(ok, "C14.floating-search", fn.qual, "the candidate is checked on binary[offset:] (no upper bound)", f"header check sees `{norm(a) if a is not None else None}`: a header longer than the window is reported as missing", "binary[offset:]", A.loc(AI, c))


def rule_padding_predicate(ctx) -> None:
    """C14.padding-predicate: a segment is taken for absent ("padding only") exactly when its first SIZE bytes are ONE of the fill
    patterns throughout - all 0x00 or all 0xFF.  A supplied segment whose bytes merely consist of fill bytes in some mix (a half-erased
    key store, one 0xFF among zeros) is content and must parse back.  Segment._is_padding is evaluated on model blocks."""
    fn = ctx.own(SEG, "Segment", "_is_padding")
    k = ctx.cls(SEG, "Segment")
    pats = ctx.prog.fold(k.consts.get("IMAGE_PATTERNS"), k.module, k) if "IMAGE_PATTERNS" in k.consts else None
    if not isinstance(pats, (list, tuple)) or not pats:
        raise AnalysisError("C14.padding-predicate: Segment.IMAGE_PATTERNS does not fold")
    fills = {"zeros": 0x00, "ones": 0xFF}
    if any(p_ not in fills for p_ in pats):
        raise AnalysisError(f"C14.padding-predicate: unknown fill pattern in {pats}")

    def leaves(c: ast.Call, ev):
        if isinstance(c.func, ast.Attribute) and c.func.attr == "get_block" and isinstance(c.func.value, ast.Call) and norm(c.func.value.func) == "BinaryPattern" and len(c.args) == 1:
            return bytes([fills[ev.ev(c.func.value.args[0])]]) * ev.ev(c.args[0])
        return ordereval.NOT_MODELLED
    probs = []
    n = 0
    par = fn.params()[1] if len(fn.params()) > 1 else fn.params()[0]
    for size in (0, 1, 4):
        for block in (bytes(4), b"\xff" * 4, b"\x00\xff\x00\xff", b"\x00\x00\x00\xff", b"\xff\x00\x00\x00", b"\x00\x01\x00\x00", b"\x12\x34\x56\x78", bytes(4) + b"\x55" * 4, b"\xff" * 4 + bytes(4)):
            cls_obj = Obj(_cls=k, SIZE=size, IMAGE_PATTERNS=tuple(pats))  # (class-tagged: its own SIZE wins over the folded Segment.SIZE)
            try:
                out = ordereval.Evaluator({"cls": cls_obj, par: block}, ctx.fold_sym(fn), opaque_return=False, call_value=leaves).run(A.body_of(fn.node))
            except ordereval.Unsupported as ex:
                raise AnalysisError(f"C14.padding-predicate: {fn.qual} left the fragment: {ex}")
            n += 1
            head = block[:size]
            want = size > 0 and any(head == bytes([fills[p_]]) * size for p_ in pats)
            if out.kind != "return" or bool(out.value) != want:
                probs.append(f"SIZE {size}, block {block.hex()}: {out.kind} {out.value!r}, expected {want}")
    ctx.chk.exhaustive_rules.add("C14.padding-predicate")
    ctx.chk.decide(not probs, "C14.padding-predicate", fn.qual, f"padding = the first SIZE bytes are one fill pattern throughout ({n} model blocks)", "; ".join(probs[:3]), "all 0x00 or all 0xFF", A.loc(SEG, fn.node))


def run(ctx) -> None:
    ctx.chk.explain("C14: all (family, revision, memory type) segment tables of the database are linted against the Segment class model reconstructed from the AST (names resolve, "
                    "static offsets increase in declaration order, fixed-size segments end before the next one, an application container exists, patterns valid); the dynamic "
                    "offset function is evaluated on small segment lists (recursive floating placement) and its formula is cross-checked in _parse and image_info; init-offset "
                    "and exclusion predicates are decided on order types; fill-pattern routing and export/parse structure are checked.")
    ctx.rule(rule_db_layout)
    ctx.rule(rule_offsets)
    ctx.rule(rule_predicates)
    ctx.rule(rule_pattern_and_export)
    ctx.rule(rule_raw_bytes)
    ctx.rule(rule_parse_fallthrough)
    ctx.rule(rule_floating_search)
    ctx.rule(rule_padding_predicate)
    ctx.chk.assumptions = ["segment payload parsers are decided by their own properties (C01/C06/C07/C12)", "BinaryImage composition is decided in C16",
                           "not decided: byte equality after parse, floating-segment search inside binaries"]


MANIFEST = {
    "level": "Exhaustive static lint of all bootable-image tables of the device database against the code-derived segment model, plus decision of the offset/exclusion logic by "
             "evaluation on small segment lists and order types. Byte-level recovery is not decided.",
    "note": "Trusted: PyYAML, devdb merge model, the evaluator. Not decided: parse with floating segments inside arbitrary binaries.",
    "technique": "static analysis: database lint against AST-derived class model, abstract evaluation of offset logic, structural routing rules, loop-carried recurrence of the floating offset on symbolic paths, padding predicate evaluated on model blocks",
}
