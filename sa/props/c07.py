"""C07 HAB image: layout round trip, CSF authenticates its blocks, encryption inverts (structural clauses)."""
from __future__ import annotations

import ast
import itertools
from typing import Any, Dict, List, Optional, Tuple

from ..core import astutil as A
from ..core import callgraph as CG
from ..core.devdb import DevDB
from ..core.loader import AnalysisError
from ..core.report import norm
from ..core.symtab import UNKNOWN, ClassInfo, FuncInfo, struct_items
from ..engines import ordereval
from ..engines import bitprov, wire
from ..engines.ordereval import Evaluator, Unsupported

HC = "spsdk/image/hab/hab_container.py"
HS = "spsdk/image/hab/segments.py"
HCMD = "spsdk/image/hab/commands/commands.py"
SEG = "spsdk/image/segments.py"
CMD = "spsdk/image/commands.py"
HDR = "spsdk/image/header.py"
SEC = "spsdk/image/secret.py"
IMGS = "spsdk/image/images.py"

WIRE_PAIRS = [
    (SEG, "SegIVT2", "export", "parse"), (SEG, "SegBDT", "export", "parse"), (SEG, "XMCDHeader", "export", "parse"),
    (HDR, "Header", "export", "parse"), (HDR, "Header2", "export", "parse"),
    (CMD, "CmdWriteData", "export", "parse"), (CMD, "CmdCheckData", "export", "parse"), (CMD, "CmdSet", "export", "parse"),
    (CMD, "CmdInitialize", "export", "parse"), (CMD, "CmdUnlockAbstract", "export", "parse"), (CMD, "CmdInstallKey", "export", "parse"),
    (CMD, "CmdAuthData", "export", "parse"), (SEC, "SecretKeyBlob", "export", "parse"), (SEC, "MAC", "export", "parse"),
]
WRAPPERS = ["IvtHabSegment", "BdtHabSegment", "DcdHabSegment", "XmcdHabSegment", "CsfHabSegment", "AppHabSegment"]


# --------------------------------------------------------------------------- wire
def _byte_map(ctx, fn: FuncInfo, cls: ClassInfo, call: ast.Call, base_off: int, writer: bool) -> Dict[int, Tuple[int, str]]:
    fmt = ctx.prog.fold(call.args[0], fn.module, cls)
    its = struct_items(fmt) if isinstance(fmt, str) else None
    if not its:
        raise AnalysisError(f"C07.wire: format of `{norm(call)[:60]}` in {fn.qual} does not fold")
    out: Dict[int, Tuple[int, str]] = {}
    off = base_off
    if writer:
        vals = call.args[1:]
    else:
        st = A.enclosing_stmt(call)
        t = st.targets[0] if isinstance(st, ast.Assign) else None
        vals = list(t.elts) if isinstance(t, ast.Tuple) else [t]
    vi = 0
    for code, sz in its:
        if code == "x":
            off += sz
            continue
        if vi < len(vals) and vals[vi] is not None:
            out[off] = (sz, norm(vals[vi]))
        vi += 1
        off += sz
    if vi != len(vals):
        raise AnalysisError(f"C07.wire: {fn.qual}: {vi} items vs {len(vals)} values")
    return out


def rule_wire(ctx) -> None:
    chk, prog = ctx.chk, ctx.prog
    for p in WIRE_PAIRS:
        ctx.rule(wire.check_pair, "C07.wire", *p, 1)
    chk.floor("C07.wire", len(WIRE_PAIRS))
    # SRK items: the reader peeks behind three reserved bytes; compare by byte position
    for cn, names in (("SrkItemRSA", {"flag": "self.flag", "modulus_len": "len(self.modulus)", "exponent_len": "len(self.exponent)"}),
                      ("SrkItemEcc", {"flag": "self.flag", "curve_id": "curve_id", "key_size": None})):
        cls = ctx.cls(SEC, cn)
        ex, pa = ctx.own(SEC, cn, "export"), ctx.own(SEC, cn, "parse")
        pk = [c for c in A.calls_in(ex.node, "pack")]
        up = [c for c in A.calls_in(pa.node, "unpack_from")]
        if len(pk) != 1 or len(up) != 1:
            raise AnalysisError(f"C07.wire: {cn}: pack/unpack_from sites changed")
        roff = prog.fold(up[0].args[2], pa.module, cls)
        hs = prog.fold(ast.parse("Header.SIZE").body[0].value, pa.module, cls)
        if not isinstance(roff, int) or not isinstance(hs, int):
            raise AnalysisError(f"C07.wire: {cn}: reader offset does not fold")
        W = _byte_map(ctx, ex, cls, pk[0], hs, True)
        R = _byte_map(ctx, pa, cls, up[0], roff, False)
        probs = []
        for off, (sz, var) in R.items():
            if var == "_":
                continue
            w = W.get(off)
            if w is None and cn == "SrkItemEcc" and var == "key_size":
                # 16-bit big-endian read of two bytes written separately: high byte then low byte
                hi, lo = W.get(off), W.get(off + 1)
                hi, lo = W.get(off, (0, "")), W.get(off + 1, (0, ""))
                if not (hi == (1, "self.key_size >> 8 & 255") and lo == (1, "self.key_size & 255")):
                    probs.append(f"key_size read at byte {off} but the writer has {hi}/{lo} there")
                continue
            if w is None:
                probs.append(f"`{var}` read at byte {off}: no writer item starts there")
            elif w[0] != sz:
                if cn == "SrkItemEcc" and var == "key_size" and sz == 2 and w == (1, "self.key_size >> 8 & 255") and W.get(off + 1) == (1, "self.key_size & 255"):
                    continue
                probs.append(f"`{var}` read as {sz} B at byte {off} but written as {w[0]} B ({w[1]})")
            elif names.get(var) is not None and w[1] != names[var]:
                probs.append(f"`{var}` read at byte {off} where the writer puts `{w[1]}`")
            elif w[1] == "0":
                probs.append(f"`{var}` read from a reserved zero byte at {off}")
        chk.decide(not probs, "C07.wire", f"{SEC}::{cn} export<->parse", f"{len([v for v in R.values() if v[1] != '_'])} fields read at the byte positions and widths they are written (reader starts {roff - hs} bytes into the body)",
                   "; ".join(probs), "", A.loc(SEC, pa.node))
    # XMCD header nibbles (E2)
    cls = ctx.cls(SEG, "XMCDHeader")
    ex, pa = ctx.own(SEG, "XMCDHeader", "export"), ctx.own(SEG, "XMCDHeader", "parse")
    pk = [c for c in A.calls_in(ex.node, "pack")][0]
    widths = {"self.block_size": ("block_size", 12), "self.block_type": ("block_type", 4), "self.interface": ("interface", 4), "self.instance": ("instance", 4), "self.tag": ("tag", 4), "self.version": ("version", 4)}
    sym = lambda e: bitprov.var_bits(*widths[norm(e)]) if norm(e) in widths else None  # noqa: E731
    try:
        wbytes = [bitprov.BitEval({}, None, sym).ev(a)[:8] + [0] * (bitprov.W - 8) for a in pk.args[1:]]
        full = [bitprov.BitEval({}, None, sym).ev(a) for a in pk.args[1:]]
    except (bitprov.Top, bitprov.SymbolicShift, ValueError) as e:
        chk.bad("C07.wire", ex.qual, f"packed expressions leave the bit-provenance fragment / overlap: {e}", "each header byte is composed of two disjoint nibbles", A.loc(SEG, ex.node))
        return
    over = [i for i, b in enumerate(full) if any(x != 0 for x in b[8:])]
    chk.decide(not over, "C07.wire", ex.qual + " byte range", "each packed value fits one byte for the declared field widths", f"arguments {over} carry bits above bit 7 (operator precedence?)", "", A.loc(SEG, ex.node))
    up = [c for c in A.calls_in(pa.node, "unpack_from")][0]
    tg = A.enclosing_stmt(up).targets[0]
    env = {norm(t): b for t, b in zip(tg.elts, wbytes)}
    for st in A.body_of(pa.node):
        try:
            if isinstance(st, ast.Assign) and isinstance(st.targets[0], ast.Name) and not isinstance(st.value, ast.Call):
                env[st.targets[0].id] = bitprov.BitEval(env).ev(st.value)
            elif isinstance(st, ast.AugAssign) and isinstance(st.op, ast.Add) and isinstance(st.target, ast.Name) and st.target.id in env:
                env[st.target.id] = bitprov.BitEval(env).ev(ast.BinOp(left=st.target, op=ast.Add(), right=st.value))
        except (bitprov.Top, bitprov.SymbolicShift, ValueError) as e:
            raise AnalysisError(f"C07.wire: XMCDHeader.parse `{norm(st)[:60]}` left the bit-provenance fragment: {e}")
    probs = []
    for var, w in (("tag", 4), ("version", 4), ("interface", 4), ("instance", 4), ("block_type", 4), ("block_size", 12)):
        got = env.get(var)
        if got is None:
            probs.append(f"{var} not decoded")
            continue
        fm = bitprov.field_of(got, var)
        foreign = sorted({b[0] for b in got if isinstance(b, tuple) and b[0] != var})
        if fm != {i: (i, False) for i in range(w)} or foreign:
            probs.append(f"{var}: decodes bits {sorted(fm.items())} of itself and bits of {foreign}")
    chk.decide(not probs, "C07.wire", f"{SEG}::XMCDHeader nibbles", "tag/version, interface/instance, type/size are decoded from exactly the nibbles export composes", "; ".join(probs), "", A.loc(SEG, pa.node))
    ctor = A.returns_in(pa.node)[-1].value
    kws = {k.arg: norm(k.value) for k in ctor.keywords}
    chk.decide(kws == {"interface": "interface", "instance": "instance", "block_type": "block_type", "block_size": "block_size"}, "C07.wire", pa.qual + " routing", "decoded fields reach the same-named constructor fields", f"{kws}", "", A.loc(SEG, pa.node))


# --------------------------------------------------------------------------- segment sizes
def rule_sizes(ctx) -> None:
    """Every HAB segment wrapper reports the size of what it exports (a size inherited as constant 0 removes the segment from the signed blocks)."""
    chk, prog = ctx.chk, ctx.prog
    base = ctx.cls(SEG, "BaseSegment")
    for wn in WRAPPERS:
        cls = ctx.cls(HS, wn)
        sz, ex = ctx.own(HS, wn, "size"), ctx.own(HS, wn, "export")
        r = norm(A.returns_in(sz.node)[-1].value)
        e = norm(A.returns_in(ex.node)[-1].value)
        if r == "self.segment.size":
            init = ctx.own(HS, wn, "__init__")
            ann = [a.annotation for a in init.node.args.args if a.arg == "segment"]
            inner = prog.resolve_expr_class(cls.module, ann[0]) if ann and ann[0] is not None else None
            if inner is None:
                raise AnalysisError(f"C07.segment-size: type of {wn}.segment not resolved")
            m = prog.find_method(inner, "size")
            own = m is not None and m.cls is not base
            chk.decide(own and e == "self.segment.export()", "C07.segment-size", f"{HS}::{wn}", f"size delegates to {inner.name}.size, which {inner.name} (or a non-base ancestor) defines; export delegates to {inner.name}.export()",
                       f"{inner.name} does not define `size` (inherits BaseSegment.size == 0) while its export() is non-empty" if not own else f"export is `{e}`", f"a `size` property on {inner.name}", A.loc(HS, sz.node))
            if inner.name == "SegXMCD" and own:
                t = norm(A.returns_in(m.node)[-1].value)
                ee = norm(A.returns_in(prog.find_method(inner, "export").node)[-1].value)
                chk.decide(t == "self.header.SIZE + len(self.config_data)" and ee == "self.header.export() + self.config_data", "C07.segment-size", f"{SEG}::SegXMCD.size", "size = header size + configuration data = length of export()", f"size `{t}`, export `{ee}`", "", A.loc(SEG, m.node))
        elif wn == "AppHabSegment":
            chk.decide(r == "len(self.binary)" and e == "self.binary", "C07.segment-size", f"{HS}::{wn}", "size = len(binary), export = binary", f"size `{r}`, export `{e}`", "", A.loc(HS, sz.node))
        elif wn == "CsfHabSegment":
            chk.decide(r == "self.CSF_SIZE" and e == "align_block(self.segment.export(), self.CSF_SIZE)", "C07.segment-size", f"{HS}::{wn}", "CSF is exported padded to CSF_SIZE, which is its size", f"size `{r}`, export `{e}`", "", A.loc(HS, sz.node))
        elif wn == "BdtHabSegment":
            chk.decide(r == "BootImgRT.BDT_SIZE" and e == "self.segment.export()", "C07.segment-size", f"{HS}::{wn}", "the boot data slot is BDT_SIZE bytes", f"size `{r}`, export `{e}`", "", A.loc(HS, sz.node))
        else:
            chk.bad("C07.segment-size", f"{HS}::{wn}", f"unrecognised size expression `{r}`", "", A.loc(HS, sz.node))
    chk.floor("C07.segment-size", 6)


# --------------------------------------------------------------------------- signed / encrypted coverage
def rule_coverage(ctx) -> None:
    chk, prog = ctx.chk, ctx.prog
    enum = ctx.cls(HS, "HabSegment")
    members = [n for n in enum.consts if n.isupper()]
    sb = ctx.own(HC, "HabContainer", "_get_signed_blocks")
    lit = A.single_def(sb.node, "segment_blocks")
    if not isinstance(lit, ast.List):
        raise AnalysisError("C07.signed-coverage: segment_blocks literal not found")
    groups = [[norm(x).split(".")[-1] for x in g.elts] for g in lit.elts]
    named = [m for g in groups for m in g]
    # block constructions: either through the local closure add_block(offset, size) or directly ImageBlock(base_address=.., start=.., size=..)
    def blocks_in(fn_node: ast.AST, stmts) -> List[Tuple[str, str, str, str]]:
        out = []
        closure = [n for n in ast.walk(fn_node) if isinstance(n, ast.FunctionDef) and n.name == "add_block"]
        for st in stmts:
            for c in ast.walk(st):
                if not isinstance(c, ast.Call):
                    continue
                if A.call_name(c) == "ImageBlock" and not any(c is x for cl in closure for x in ast.walk(cl)):
                    kw = {k.arg: norm(A.inline_locals(fn_node, k.value, keep=("segment", "block_size"))) for k in c.keywords}
                    out.append(("direct", kw.get("base_address", ""), kw.get("start", ""), kw.get("size", "")))
                elif isinstance(c.func, ast.Name) and c.func.id == "add_block" and closure and len(c.args) == 2:
                    ib = [x for x in ast.walk(closure[0]) if isinstance(x, ast.Call) and A.call_name(x) == "ImageBlock"]
                    if len(ib) == 1:
                        ps = [a.arg for a in closure[0].args.args]
                        m = {ps[0]: c.args[0], ps[1]: c.args[1]}
                        kw = {k.arg: norm(A.subst(k.value, m)) for k in ib[0].keywords}
                        out.append(("closure", kw.get("base_address", ""), kw.get("start", ""), kw.get("size", "")))
        return out

    def good(b, off: str, size: str) -> bool:
        return b[1] == f"self.start_address + self.ivt_offset + {off}" and b[2] == f"self.ivt_offset + {off}" and b[3] == size
    app_if = [s for s in A.body_of(sb.node) if isinstance(s, ast.If) and norm(s.test) == "not self.is_encrypted"]
    app_blocks = blocks_in(sb.node, app_if[0].body) if len(app_if) == 1 else []
    app_ok = len(app_if) == 1 and not app_if[0].orelse and len(app_blocks) == 1 and good(app_blocks[0], "self.app_segment.offset", "self.app_segment.size")
    missing = [m for m in members if m not in named and m not in ("CSF", "APP")]
    chk.decide(not missing and app_ok and groups[0] == ["IVT", "BDT"] and len(set(named)) == len(named), "C07.signed-coverage", sb.qual,
               f"signed blocks name every segment kind except the CSF itself: {groups} + APP when the image is not encrypted", f"not covered: {missing}; APP rule ok: {app_ok} ({app_blocks}); groups {groups}", "", A.loc(HC, sb.node))
    loop = [s for s in A.body_of(sb.node) if isinstance(s, ast.For)]
    lb = blocks_in(sb.node, loop[0].body) if loop else []
    chk.decide(len(lb) == 1 and good(lb[0], "segment.offset", "block_size"), "C07.signed-coverage", sb.qual + " block",
               "block address = start address + IVT offset + segment offset; index into the padded image = IVT offset + segment offset", f"{lb}", "", A.loc(HC, sb.node))
    t = norm(loop[0]) if loop else ""
    ok = "block_size = sum([self.get_segment(seg_name).size for seg_name in segments_names if self.segments.contains(seg_name)])" in t and "segment = self.get_segment(segments_names[0])" in t \
        and "all_defined = all([self.get_segment(seg_name) for seg_name in segments_names])" in t
    chk.decide(ok, "C07.signed-coverage", sb.qual + " group", "a group is one block: from the first segment's offset, as long as the sum of the segments' sizes, only when all are present", t[:300], "", A.loc(HC, sb.node))
    eb = ctx.own(HC, "HabContainer", "_get_encrypted_blocks")
    ebl = blocks_in(eb.node, A.body_of(eb.node))
    chk.decide(len(ebl) == 1 and good(ebl[0], "self.app_segment.offset", "self.app_segment.size"), "C07.signed-coverage", eb.qual,
               "the encrypted block is the whole application segment", f"{ebl}", "", A.loc(HC, eb.node))
    # padded export puts each segment at ivt_offset + offset: the index the blocks use
    ii = ctx.own(HC, "HabContainer", "image_info")
    off = [s.value for s in ast.walk(ii.node) if isinstance(s, ast.Assign) and norm(s.targets[0]) == "offset"]
    chk.decide(len(off) == 1 and norm(off[0]) == "segment.offset + self.ivt_offset if padding else segment.offset", "C07.signed-coverage", ii.qual, "the padded image places every segment at ivt_offset + segment.offset (the blocks' index)", norm(off[0]) if off else "", "", A.loc(HC, ii.node))
    # the command slices the image by address - base address
    us = ctx.own(CMD, "CmdAuthData", "update_signature")
    t = norm(us.node)
    ok = "start = blk[0] - base_data_addr" in t and "end = blk[0] + blk[1] - base_data_addr" in t and "sign_data += data[start:end]" in t and "if start < 0:" in t and "if end > len(data):" in t
    chk.decide(ok, "C07.signed-coverage", us.qual, "signed bytes = concatenation of data[address - base : address + size - base] for every listed block, bounds checked", t[:200], "", A.loc(CMD, us.node))
    cs = [c for c in A.calls_in(us.node, "cms_sign")]
    kws = {k.arg: norm(k.value) for k in cs[0].keywords} if cs else {}
    chk.decide(kws.get("data") == "sign_data" and kws.get("certificate") == "self.certificate" and kws.get("signature_provider") == "self.signature_provider" and kws.get("signing_key") == "self.private_key", "C07.signed-coverage", us.qual + " cms",
               "the CMS signature is made over exactly those bytes with the command's certificate and key", f"{kws}", "", A.loc(CMD, us.node))
    ap = ctx.own(CMD, "CmdAuthData", "append")
    chk.decide("self._blocks.append((start_address, size))" in norm(ap.node) and "self._header.length += 8" in norm(ap.node), "C07.signed-coverage", ap.qual, "each listed block is stored as (address, size) and grows the command by 8 bytes", norm(ap.node)[:160], "", A.loc(CMD, ap.node))


# --------------------------------------------------------------------------- order in update_csf
def rule_order(ctx) -> None:
    chk = ctx.chk
    uc = ctx.own(HC, "HabContainer", "update_csf")
    body = A.body_of(uc.node)
    t = norm(uc.node)
    ifs = [s for s in body if isinstance(s, ast.If)]
    ok_first = len(ifs) == 2 and norm(ifs[0].test) == "self.is_encrypted" and "self.bdt_segment.segment.app_length += CsfHabSegment.KEYBLOB_SIZE" in norm(ifs[0])
    inner = ifs[1].body if len(ifs) == 2 else []
    seq = [norm(s) for s in inner]
    ok = ok_first and norm(ifs[1].test) == "self.csf_segment" and seq[:2] == ["image = self.export_padding()", "image = image[:self.ivt_offset + self.csf_segment.offset]"] and len(inner) == 4 and \
        isinstance(inner[2], ast.If) and norm(inner[2].test) == "self.is_encrypted" and isinstance(inner[3], ast.If) and norm(inner[3].test) == "self.is_authenticated"
    chk.decide(ok, "C07.order", uc.qual, "boot data length is final before the image is exported; the image is cut at the CSF; encryption precedes signing", "; ".join(seq)[:300], "", A.loc(HC, uc.node))
    if ok:
        e = [norm(s) for s in inner[2].body]
        s = [norm(x) for x in inner[3].body]
        chk.decide(e == ["blocks = self._get_encrypted_blocks()", "encrypted_app = self.csf_segment.encrypt(image, blocks)", "self.app_segment.binary = encrypted_app"], "C07.order", uc.qual + " encrypt",
                   "the application segment is replaced by the ciphertext of the encrypted blocks", "; ".join(e), "", A.loc(HC, inner[2]))
        chk.decide(s == ["blocks = self._get_signed_blocks()", "self.csf_segment.update_signature(image, blocks, base_data_address=self.start_address)"], "C07.order", uc.qual + " sign",
                   "signature over the signed blocks of the padded image, addresses relative to the start address", "; ".join(s), "", A.loc(HC, inner[3]))
    lc = ctx.own(HC, "HabContainer", "load_from_config")
    b = [norm(s) for s in A.body_of(lc.node)]
    chk.decide(b[-2:] == ["hab.update_csf()", "return hab"], "C07.order", lc.qual, "the CSF is updated (encrypted, signed) before the container is handed out", "; ".join(b[-3:]), "", A.loc(HC, lc.node))
    # CsfHabSegment.update_signature: data signature first, then the CSF signature over the CSF header+commands
    us = ctx.own(HS, "CsfHabSegment", "update_signature")
    t = norm(us.node)
    i1, i2 = t.find("auth_data.update_signature("), t.find("auth_csf.update_signature(")
    ok = 0 < i1 < i2 and "for block in blocks: auth_data.append(block.base_address, block.size)" in t.replace("\n", " ").replace("    ", "") and \
        "auth_data.update_signature(zulu=self.signature_timestamp, data=image_data, base_data_addr=base_data_address)" in t and \
        "auth_csf.update_signature(zulu=self.signature_timestamp, data=self.segment._export_base())" in t
    chk.decide(ok, "C07.order", us.qual, "blocks are listed, the image data is signed, and only then the CSF (header and commands, which now contain the block list) is signed", t[:200], "", A.loc(HS, us.node))
    gcs = {n: norm(A.returns_in(ctx.own(HS, "CsfHabSegment", n).node)[-1].value) for n in ("get_authenticate_csf_cmd", "get_authenticate_data_cmd", "get_decrypt_data_cmd")}
    ok = gcs == {"get_authenticate_csf_cmd": "commands[0] if len(commands) >= 1 else None", "get_authenticate_data_cmd": "commands[1] if len(commands) >= 2 else None", "get_decrypt_data_cmd": "commands[2] if len(commands) >= 3 else None"}
    chk.decide(ok, "C07.order", f"{HS}::CsfHabSegment command roles", "authenticate-CSF, authenticate-data and decrypt-data are the 1st, 2nd and 3rd CmdAuthData commands", f"{gcs}", "", A.loc(HS, us.node))


# --------------------------------------------------------------------------- pointers
def _stmts(fn: FuncInfo, names: List[str]) -> List[str]:
    out = []
    for st in ast.walk(fn.node):
        if isinstance(st, ast.Assign) and norm(st.targets[0]) in names:
            out.append(norm(st))
        elif isinstance(st, ast.AugAssign) and norm(st.target) in names:
            out.append(norm(st))
    return out


def rule_pointers(ctx) -> None:
    chk, prog = ctx.chk, ctx.prog
    ivt = ctx.own(HS, "IvtHabSegment", "load_from_config")
    csf = ctx.own(HS, "CsfHabSegment", "load_from_config")
    # twin computation compared as final symbolic values in the inputs (temporaries, statement splitting and hoisted calls do not
    # matter): the CSF pointer the IVT stores and the offset the CSF segment places itself at
    def final_values(fn, var):
        vals = set()
        for q in A.spaths(fn.node):
            v = q.env.get(var)
            if v is not None and not (isinstance(v, ast.Name) and v.id == var):
                vals.add(norm(v).replace("cls.align_offset", "CsfHabSegment.align_offset"))
        return vals
    a, b = final_values(ivt, "csf_offset"), final_values(csf, "offset")
    want_v = {"CsfHabSegment.align_offset(config.options.get_initial_load_size() + len(config.app_image)) - config.options.get_ivt_offset()"}
    chk.decide(a == b == want_v, "C07.pointers", f"{ivt.qual} csf pointer vs {csf.qual} offset", "the IVT's CSF pointer and the CSF segment's offset are the same function of the configuration: align_offset(initial load size + image length) - IVT offset",
               f"IVT: {sorted(a)}; CSF: {sorted(b)}", f"{sorted(want_v)}", A.loc(HS, ivt.node))
    # the pointer words stored on every path, in the inputs (attribute stores along the symbolic paths)
    CSFO = next(iter(want_v))
    probs = []
    n_paths = 0
    for q in A.spaths(ivt.node):
        if q.end != "return":
            continue
        n_paths += 1
        st_ = {}
        for s2 in q.sstmts:
            if isinstance(s2, ast.Assign) and norm(s2.targets[0]).startswith("segment."):
                st_[norm(s2.targets[0])[len("segment."):]] = norm(s2.value).replace("cls.align_offset", "CsfHabSegment.align_offset")
        auth = q.assumes("bool(config.options.flags >> 3)", True)
        exp = {"ivt_address": "config.options.start_address + config.options.get_ivt_offset()", "bdt_address": "segment.ivt_address + segment.size",
               "csf_address": f"segment.ivt_address + ({CSFO})" if auth else "0"}
        if q.assumes("config.options.dcd_file_path", True):
            exp["dcd_address"] = "segment.ivt_address + SegIVT2.SIZE + BootImgRT.BDT_SIZE"
        for k, v in exp.items():
            if st_.get(k) != v:
                probs.append(f"{'authenticated' if auth else 'plain'} image: {k} = {st_.get(k)} (expected {v})")
    chk.decide(not probs and n_paths >= 2, "C07.pointers", ivt.qual, "self = start + IVT offset; boot data right behind the IVT; DCD behind IVT + boot data slot; CSF = self + CSF offset (0 when not authenticated)", "; ".join(sorted(set(probs))[:3]), "", A.loc(HS, ivt.node))
    # wrapper offsets agree with those pointers
    bd = ctx.own(HS, "BdtHabSegment", "load_from_config")
    chk.decide("offset = IvtHabSegment.OFFSET + SegIVT2.SIZE" in norm(bd.node), "C07.pointers", bd.qual + " offset", "boot data segment sits at IVT offset + IVT size", "", "", A.loc(HS, bd.node))
    dc = ctx.own(HS, "DcdHabSegment", "load_from_config")
    chk.decide("offset = SegIVT2.SIZE + BootImgRT.BDT_SIZE" in norm(dc.node), "C07.pointers", dc.qual + " offset", "DCD segment sits where the IVT's DCD pointer says", "", "", A.loc(HS, dc.node))
    xo = prog.fold(ctx.cls(HS, "XmcdHabSegment").consts.get("OFFSET"), ctx.m(HS))
    ivs = prog.fold(ast.parse("SegIVT2.SIZE").body[0].value, ctx.m(HS))
    bds = prog.fold(ast.parse("BootImgRT.BDT_SIZE").body[0].value, ctx.m(HS))
    io = prog.fold(ctx.cls(HS, "IvtHabSegment").consts.get("OFFSET"), ctx.m(HS))
    chk.decide(isinstance(xo, int) and xo == ivs + bds and io == 0, "C07.pointers", f"{HS}::XmcdHabSegment.OFFSET", f"XMCD slot {xo:#x} = IVT size {ivs:#x} + boot data slot {bds:#x}; IVT at 0", f"XMCD {xo}, IVT size {ivs}, BDT slot {bds}, IVT offset {io}", "", A.loc(HS, ctx.cls(HS, "XmcdHabSegment").node))
    # parse side: offsets are pointer - self
    for wn, ptr in (("BdtHabSegment", "bdt_address"), ("DcdHabSegment", "dcd_address"), ("CsfHabSegment", "csf_address")):
        f = ctx.own(HS, wn, "parse")
        chk.decide(f"offset = ivt.segment.{ptr} - ivt.segment.ivt_address" in norm(f.node), "C07.pointers", f.qual, f"parsed offset = {ptr} - ivt_address", "", "", A.loc(HS, f.node))
    hp = ctx.own(HC, "HabContainer", "parse")
    t = norm(hp.node)
    chk.decide("start_address = bdt.segment.app_start" in t and "ivt_offset = ivt.segment.ivt_address - bdt.segment.app_start" in t, "C07.pointers", hp.qual, "start address and IVT offset are recovered from boot data start and the IVT self pointer", "", "", A.loc(HC, hp.node))
    # boot data length
    t = norm(bd.node)
    ok = "segment = SegBDT(app_start=config.options.start_address)" in t and "end_segments = {0: AppHabSegment, 1: CsfHabSegment}" in t and \
        "end_seg_class = end_segments[(config.options.flags & 15) >> 3]" in t and "segment.app_length = config.options.get_ivt_offset() + end_seg.offset + end_seg.size" in t
    chk.decide(ok, "C07.pointers", bd.qual + " length", "boot data length = IVT offset + offset + size of the last segment (CSF when authenticated, else the application)", t[:300], "", A.loc(HS, bd.node))
    ap = ctx.own(HS, "AppHabSegment", "load_from_config")
    t = norm(ap.node)
    ok = "offset = config.options.get_initial_load_size() - config.options.get_ivt_offset()" in t and "if (config.options.flags & 15) >> 3: app_bin = align_block(app_bin, 16)" in t.replace("\n", " ").replace("    ", "")
    chk.decide(ok, "C07.pointers", ap.qual, "application at initial load size - IVT offset, padded to 16 bytes when authenticated", t[:200], "", A.loc(HS, ap.node))
    # align_offset on a grid: 4 KiB aligned and behind the 16-byte padded application
    ao = ctx.own(HS, "CsfHabSegment", "align_offset")
    probs = []
    pts = [0, 1, 15, 16, 17, 0xFEF, 0xFF0, 0xFF1, 0xFFF, 0x1000, 0x1001, 0x1FF0, 0x2000, 0x12345]
    for n in pts:
        out = Evaluator({"image_len": n}).run(A.body_of(ao.node))
        v = out.value if out.kind == "return" else None
        if not isinstance(v, int) or v % 0x1000 or v < ((n + 15) // 16) * 16 or v - n > 0x1000 + 16:
            probs.append(f"image_len={n:#x}: {v if v is None else hex(v)}")
    chk.decide(not probs, "C07.pointers", ao.qual, f"CSF offset is 4 KiB aligned, not before the 16-byte padded end of the application and at most one page + 16 behind it ({len(pts)} critical lengths)", "; ".join(probs), "", A.loc(HS, ao.node))
    # flag predicates agree on all 16 flag values
    preds = {"HabContainer.is_authenticated": A.returns_in(ctx.own(HC, "HabContainer", "is_authenticated").node)[-1].value,
             "HabContainer.is_encrypted": A.returns_in(ctx.own(HC, "HabContainer", "is_encrypted").node)[-1].value}
    iv_if = [s for s in A.body_of(ivt.node) if isinstance(s, ast.If) and "flags" in norm(s.test)]
    ap_if = [s for s in A.body_of(ap.node) if isinstance(s, ast.If) and "flags" in norm(s.test)]
    bd_ix = [n.slice for n in ast.walk(bd.node) if isinstance(n, ast.Subscript) and norm(n.value) == "end_segments"]
    probs = []
    for fl in range(16):
        env = {"self.flags": fl, "config.options.flags": fl}
        au = bool(Evaluator(env).ev(preds["HabContainer.is_authenticated"]))
        en = bool(Evaluator(env).ev(preds["HabContainer.is_encrypted"]))
        others = {"IvtHabSegment": bool(Evaluator(env).ev(iv_if[0].test)), "AppHabSegment": bool(Evaluator(env).ev(ap_if[0].test)), "BdtHabSegment": bool(Evaluator(env).ev(bd_ix[0]))}
        if au != bool(fl & 8) or en != bool(fl & 4) or any(v != au for v in others.values()):
            probs.append(f"flags={fl:#x}: authenticated={au} encrypted={en} siblings={others}")
    chk.decide(not probs, "C07.pointers", "HAB flag predicates", "bit 3 = authenticated, bit 2 = encrypted; the four sites that test 'authenticated' agree for all 16 flag values", "; ".join(probs[:3]), "", A.loc(HC, hp.node))
    gf = ctx.own(HC, "HabContainer", "_get_flags")
    t = norm(gf.node)
    chk.decide("return 12 if decrypt else 8" in t and "if not segments.contains(HabSegment.CSF): return 0" in t.replace("\n", " ").replace("    ", ""), "C07.pointers", gf.qual, "parsed flags: none without CSF, 0x8 with CSF, 0xC with a decrypt command", t[:200], "", A.loc(HC, gf.node))


# --------------------------------------------------------------------------- encryption binding
def rule_encrypt(ctx) -> None:
    chk = ctx.chk
    en = ctx.own(HS, "CsfHabSegment", "encrypt")
    t = norm(en.node)
    cc = [c for c in A.calls_in(en.node, "aes_ccm_encrypt")]
    kws = {k.arg: norm(k.value) for k in cc[0].keywords} if len(cc) == 1 else {}
    chk.decide(kws == {"key": "self.dek", "plain_data": "data_to_encrypt", "nonce": "self.nonce", "associated_data": "bytes()", "tag_len": "self.mac_len"}, "C07.encryption", en.qual + " ccm",
               "AES-CCM over the listed bytes with the segment's DEK, nonce and MAC length, no associated data", f"{kws}", "", A.loc(HS, en.node))
    ok = "data_to_encrypt += image_data[block.start:block.start + block.size]" in t and "command.append(block.base_address, block.size)" in t
    chk.decide(ok, "C07.encryption", en.qual + " blocks", "the bytes encrypted are image[start : start+size] of every block, and the same blocks are listed in the decrypt command", t[:200], "", A.loc(HS, en.node))
    ok = "mac = encr[-self.mac_len:]" in t and "enc_data = encr[:-self.mac_len]" in t and "if len(encr) != len(data_to_encrypt) + self.mac_len:" in t and norm(A.returns_in(en.node)[-1].value) == "enc_data"
    chk.decide(ok, "C07.encryption", en.qual + " split", "ciphertext and MAC are split at len - mac_len; only the ciphertext replaces the application", "", "", A.loc(HS, en.node))
    mc = [c for c in A.calls_in(en.node, "MAC")]
    kws = {k.arg: norm(k.value) for k in mc[0].keywords} if mc else {}
    chk.decide(kws == {"version": "self.segment.version", "nonce_len": "len(self.nonce)", "mac_len": "self.mac_len", "data": "self.nonce + mac"}, "C07.encryption", en.qual + " MAC record",
               "the CSF MAC record carries nonce || MAC with their lengths", f"{kws}", "", A.loc(HS, en.node))
    chk.decide("if self.nonce is None: self.nonce = self.generate_nonce(image_data)" in t.replace("\n", " ").replace("    ", ""), "C07.encryption", en.qual + " nonce", "a missing nonce is generated for this image", "", "", A.loc(HS, en.node))
    gn = ctx.own(HS, "CsfHabSegment", "generate_nonce")
    chk.decide("nonce_len = BootImgRT.aead_nonce_len(len(encryption_data))" in norm(gn.node), "C07.encryption", gn.qual, "nonce length follows the AEAD rule for the data length (C13 decides aead_nonce_len)", "", "", A.loc(HS, gn.node))
    # mac_len setter: 4..16 even
    ms = ctx.own(HS, "CsfHabSegment", "mac_len", "setter")
    probs = []
    for v in range(0, 20):
        out = Evaluator({"value": v, "self": 0}).run(A.body_of(ms.node))
        ok_v = 4 <= v <= 16 and v % 2 == 0
        if (out.kind == "raise") == ok_v:
            probs.append(f"{v}: {'rejected' if out.kind == 'raise' else 'accepted'}")
    chk.decide(not probs, "C07.encryption", ms.qual + " setter", "MAC lengths 4, 6, ..., 16 are accepted and nothing else (0..19 evaluated)", "; ".join(probs), "", A.loc(HS, ms.node))
    gd = ctx.own(HS, "CsfHabSegment", "get_dek_from_config")
    chk.decide("if length not in [128, 192, 256]:" in norm(gd.node) and "key_length = length // 8" in norm(gd.node), "C07.encryption", gd.qual, "DEK length 128/192/256 bits", "", "", A.loc(HS, gd.node))
    # MAC record parse twin: nonce and mac recovered at the stored lengths
    mp = ctx.own(HS, "CsfHabSegment", "parse")
    t = norm(mp.node)
    chk.decide("nonce = mac_obj.nonce if mac_obj else None" in t and "mac_len = mac_obj.mac_len if mac_obj else 16" in t, "C07.encryption", mp.qual, "a parsed CSF recovers nonce and MAC length from the MAC record", "", "", A.loc(HS, mp.node))


# --------------------------------------------------------------------------- signature provider / registries
def rule_sigprovider(ctx) -> None:
    chk, prog = ctx.chk, ctx.prog
    m = ctx.m(HCMD)
    wrapper = ctx.func(HCMD, "get_hab_signature_provider")
    t = norm(wrapper.node)
    chk.decide("signature_provider = get_signature_provider(sp_cfg, local_file_key, **kwargs)" in t and "signature_provider.hash_alg = EnumHashAlgorithm.SHA256" in t, "C07.signature-provider", wrapper.qual,
               "HAB providers are the generic provider with the ECC hash pinned to SHA-256 (the digest the CMS container declares)", t[:240], "", A.loc(HCMD, wrapper.node))
    direct, via = [], 0
    for f in CG.all_functions(prog):
        if not f.module.relpath.startswith("spsdk/image/hab/"):
            continue
        for c in [x for x in ast.walk(f.node) if isinstance(x, ast.Call)]:
            n = A.call_name(c)
            if n == "get_signature_provider" and f is not wrapper:
                direct.append((f.qual, A.loc(f.module.relpath, c)))
            if n == "get_hab_signature_provider":
                via += 1
    for q, where in direct:
        chk.bad("C07.signature-provider", q, "calls get_signature_provider directly", "every HAB signing site obtains its provider through get_hab_signature_provider", where)
    chk.decide(via >= 4, "C07.signature-provider", "spsdk/image/hab/** call sites", f"{via} provider sites, all through get_hab_signature_provider; none calls the generic factory directly", f"only {via} sites found", "", A.loc(HCMD, wrapper.node))
    # cms_sign digest
    cm = ctx.func("spsdk/crypto/cms.py", "cms_sign")
    t = norm(cm.node)
    chk.decide("'sha256'" in t, "C07.signature-provider", cm.qual, "the CMS container declares SHA-256", "", "", A.loc("spsdk/crypto/cms.py", cm.node))
    # authenticate data: certificate and provider are attached to the command that signs
    for cn in ("SecCsfAuthenticateCsf", "SecCsfAuthenticateData"):
        f = ctx.own(HCMD, cn, "load_from_config")
        t = norm(f.node)
        ok = ("cmd.signature_provider = signature_provider" in t or "signature_provider=signature_provider" in t) and ("CmdAuthData(certificate=certificate)" in t or "cmd.certificate = certificate" in t) and "cmd.signature = Signature(version=version)" in t
        chk.decide(ok, "C07.signature-provider", f.qual, "the command receives the certificate, the provider and an empty signature record of the CSF version", "", "", A.loc(HCMD, f.node))


def rule_registry(ctx) -> None:
    chk, prog = ctx.chk, ctx.prog
    m = ctx.m(HS)
    enum = ctx.cls(HS, "HabSegment")
    members = [n for n in enum.consts if n.isupper()]
    sm = prog.module_consts(m).get("SEGMENTS_MAPPING")
    if not isinstance(sm, ast.Dict):
        raise AnalysisError("C07.registry: SEGMENTS_MAPPING not found")
    keys = [norm(k).split(".")[-1] for k in sm.keys]
    vals = [norm(v) for v in sm.values]
    chk.decide(sorted(keys) == sorted(members) and len(set(vals)) == len(vals) and set(vals) == set(WRAPPERS), "C07.registry", f"{HS}::SEGMENTS_MAPPING", f"one wrapper class per segment kind ({len(keys)})", f"keys {keys}, values {vals}", "", A.loc(HS, sm))
    # IVT and BDT come before the segments that need them (dict order = build order)
    chk.decide(keys[:2] == ["IVT", "BDT"], "C07.registry", f"{HS}::SEGMENTS_MAPPING order", "IVT and boot data are built/parsed first", f"{keys}", "", A.loc(HS, sm))
    cm = prog.module_consts(ctx.m(HCMD)).get("COMMANDS_MAPPING")
    if isinstance(cm, ast.Dict):
        ckeys = [norm(k).split(".")[-1] for k in cm.keys]
        se = None
        for mod in (ctx.m("spsdk/image/hab/commands/commands_enum.py"),):
            se = mod
        sc = prog.cls("spsdk/image/hab/commands/commands_enum.py", "SecCommand")
        smem = [n for n in sc.consts if n.isupper()]
        miss = [x for x in smem if x not in ckeys and x not in ("HEADER", "INSTALL_NOCAK")]
        chk.decide(not miss and len(set(ckeys)) == len(ckeys), "C07.registry", f"{HCMD}::COMMANDS_MAPPING", f"a builder class for each of the {len(ckeys)} CSF commands (header and NOCAK are handled by the segment builder)", f"no builder for {miss}", "", A.loc(HCMD, cm))
    else:
        raise AnalysisError("C07.registry: COMMANDS_MAPPING not found")
    # database: the application never starts inside the header area
    db = DevDB(ctx.repo)
    n = 0
    probs = []
    hdr_end = prog.fold(ast.parse("SegIVT2.SIZE + BootImgRT.BDT_SIZE").body[0].value, m)
    for dev, rev, hab in db.iter_features("hab"):
        mt = hab.get("mem_types") or {}
        bi = (db.revisions(dev).get(rev) or {}).get("bootable_image") or {}
        for mem, d in mt.items():
            ils = d.get("initial_load_size") if isinstance(d, dict) else None
            seg = (((bi.get("mem_types") or {}).get(mem) or {}).get("segments") or {}) if isinstance(bi, dict) else {}
            ivo = seg.get("hab_container")
            if ils is None or ivo is None:
                continue
            n += 1
            if not (isinstance(ils, int) and isinstance(ivo, int)) or ils - ivo < hdr_end:
                probs.append(f"{dev}/{rev}/{mem}: initial_load_size {ils} - hab_container offset {ivo} < {hdr_end}")
    chk.decide(not probs and n > 0, "C07.registry", "database hab/bootable_image", f"{n} (device, revision, memory) entries: the application offset (initial load size - IVT offset) lies behind IVT + boot data", "; ".join(probs[:3]) or "no entries found", "", "spsdk/data/devices")


def rule_srk(ctx) -> None:
    chk = ctx.chk
    # ECC SRK item: writer and reader use the same coordinate width for every supported curve
    init, pa = ctx.own(SEC, "SrkItemEcc", "__init__"), ctx.own(SEC, "SrkItemEcc", "parse")
    wdef = [s.value for s in A.walk_no_nested(init.node) if isinstance(s, ast.Assign) and norm(s.targets[0]) == "self.coordinate_size"]
    rdef = A.single_def(pa.node, "coordinate_size")
    if len(wdef) != 1 or rdef is None:
        raise AnalysisError("C07.srk: coordinate size definitions of SrkItemEcc not found")
    probs = []
    for bits in (256, 384, 521):
        try:
            w = Evaluator({"key_size": bits}).ev(wdef[0])
            r = Evaluator({"key_size": bits}).ev(rdef)
        except Unsupported as u:
            raise AnalysisError(f"C07.srk: coordinate size expression left the fragment: {u}")
        if w != r or w != -(-bits // 8):
            probs.append(f"P-{bits}: written at {w} B, read at {r} B (coordinate is {-(-bits // 8)} B)")
    chk.decide(not probs, "C07.srk", f"{SEC}::SrkItemEcc coordinate width", "export and parse use ceil(bits/8) bytes per coordinate for P-256/384/521", "; ".join(probs), "", A.loc(SEC, pa.node))
    ex = ctx.own(SEC, "SrkItemEcc", "export")
    tb = [norm(A.arg_of(c, 0, "length")) for c in A.calls_in(ex.node, "to_bytes")]
    t = norm(pa.node)
    ok = tb == ["self.coordinate_size", "self.coordinate_size"] and "x_coordinate = data[offset:offset + coordinate_size]" in t and "y_coordinate = data[offset:offset + coordinate_size]" in t and "offset += coordinate_size" in t
    chk.decide(ok, "C07.srk", f"{SEC}::SrkItemEcc x/y windows", "x then y, each one coordinate wide, on both sides", f"export widths {tb}", "", A.loc(SEC, ex.node))
    from ..engines import bytelayout
    ef = ctx.own(SEC, "SrkTable", "export_fuses")
    fold = lambda e: ctx.prog.fold(e, ef.module, ef.cls)  # noqa: E731
    rets = A.returns_in(ef.node)
    hashed = None
    if len(rets) == 1 and isinstance(rets[0].value, ast.Call) and norm(rets[0].value.func).endswith(".digest") and isinstance(rets[0].value.func.value, ast.Call) \
            and norm(rets[0].value.func.value.func) == "sha256" and len(rets[0].value.func.value.args) == 1:
        hashed = bytelayout.normal_form(fold, ef.node, rets[0].value.func.value.args[0])
    chk.decide(hashed == [(None, "repeat", "_.sha256() for _ in self._keys")], "C07.srk", ef.qual, "fuse value = SHA-256 over the concatenated SHA-256 digests of every SRK item in table order (however the bytes are assembled)",
               f"hashed bytes layout {hashed}", "sha256(concatenation of srk.sha256() for srk in self._keys).digest()", A.loc(SEC, ef.node))
    for cn in ("SrkItemRSA", "SrkItemEcc"):
        f = ctx.own(SEC, cn, "sha256")
        r = A.returns_in(f.node)
        arg = r[0].value.func.value.args[0] if (len(r) == 1 and isinstance(r[0].value, ast.Call) and isinstance(r[0].value.func, ast.Attribute) and isinstance(r[0].value.func.value, ast.Call) and r[0].value.func.value.args) else None
        src = norm(A.inline_locals(f.node, arg)) if arg is not None else None
        chk.decide(src == "self.export()" and norm(r[0].value.func.value.func) == "sha256", "C07.srk", f.qual, "item digest = SHA-256 of the exported item", f"{src}", "", A.loc(SEC, f.node))
    ex = ctx.own(SEC, "SrkTable", "export")
    lay = bytelayout.normal_form(lambda e: ctx.prog.fold(e, ex.module, ex.cls), ex.node)
    t = norm(ex.node)
    chk.decide("self._header.length = self.size" in t and lay == [(None, "bytes", "self._header.export()"), (None, "repeat", "_.export() for _ in self._keys")], "C07.srk", ex.qual,
               "table = header (length = total size) followed by every item", f"layout {lay}", "", A.loc(SEC, ex.node))
    pa = ctx.own(SEC, "SrkTable", "parse")
    t = norm(pa.node)
    chk.decide("length = header.length - Header.SIZE" in t and "offset += srk.size" in t and "length -= srk.size" in t and "while length > 0:" in t, "C07.srk", pa.qual, "items are parsed back to back until the header's length is consumed", "", "", A.loc(SEC, pa.node))
    gfu = ctx.own(SEC, "SrkTable", "get_fuse")
    chk.decide("int_data = self.export_fuses()[index * 4:(1 + index) * 4]" in norm(gfu.node) and "unpack('<I', int_data)[0]" in norm(gfu.node), "C07.srk", gfu.qual, "fuse word i = little-endian bytes 4i..4i+3 of the table hash", "", "", A.loc(SEC, gfu.node))


def rule_xmcd_window(ctx) -> None:
    """C07.xmcd-window: the XMCD segment of a HAB container parses back to the XMCD that was put in: XmcdHabSegment.parse, interpreted on
    a model container (zeros up to the XMCD offset, an exported SegXMCD, then foreign bytes), returns exactly the configured payload -
    not a byte more (the header's block size counts the header itself)."""
    from ..engines import roundtrip
    ex = {"SegXMCD": ctx.cls(SEG, "SegXMCD"), "XMCDHeader": ctx.cls(SEG, "XMCDHeader"), "Header": ctx.cls(HDR, "Header")}
    rt = roundtrip.RoundTrip(ctx, HS, "XmcdHabSegment", None, None, ex)
    probs = []
    for n_ in (4, 9, 256):
        cfg = bytes((3 * i + 1) & 0xFF for i in range(n_))
        seg = rt.ev("SegXMCD(header=XMCDHeader(interface=1, instance=0, block_type=0, block_size=4 + n), config_data=cfg)", {"cfg": cfg, "n": n_})
        raw = rt.ev("seg.export()", {"seg": seg})
        off = rt.ev("XmcdHabSegment.OFFSET", {})
        if not isinstance(raw, (bytes, bytearray)) or not isinstance(off, int):
            raise AnalysisError("C07.xmcd-window: SegXMCD.export / XmcdHabSegment.OFFSET did not evaluate")
        try:
            parsed = rt.ev("XmcdHabSegment.parse(data)", {"data": bytes(off) + bytes(raw) + b"\xEE" * 16})
            got = roundtrip.fields_of(parsed)
            got_cfg = got.get("segment", {}).get("config_data") if isinstance(got, dict) else None
            got_size = got.get("segment", {}).get("header", {}).get("block_size") if isinstance(got, dict) else None
        except ordereval.ModelRaise as mr:
            got_cfg, got_size = f"raise {mr}", None
        if got_cfg != cfg or got_size != 4 + n_:
            probs.append(f"{n_}-byte XMCD payload: parsed payload of {len(got_cfg) if isinstance(got_cfg, bytes) else got_cfg} bytes, header block size {got_size}")
    ctx.chk.exhaustive_rules.add("C07.xmcd-window")
    ctx.chk.decide(not probs, "C07.xmcd-window", f"{HS}::XmcdHabSegment.parse", "the parsed XMCD segment is the exported one (3 payload sizes, foreign bytes behind it)", "; ".join(probs[:2]), "payload = block size - header size",
                   A.loc(HS, rt.cls.node))


def rule_cms_by_length(ctx) -> None:
    """C07.cms-by-length: a signature provider does not expose its key type, so cms.py tells RSA from ECDSA by the signature length.
    Every such comparison must put all raw ECDSA lengths SPSDK supports (2 x coordinate size of P-256/384/521 = 64, 96, 132) on one
    side and all RSA lengths (2048/3072/4096 bit = 256, 384, 512) on the other - otherwise a P-521 signature is labelled and encoded
    as RSA (or a short RSA one as ECDSA) and the CMS does not verify under the installed key."""
    CMS = "spsdk/crypto/cms.py"
    m = ctx.m(CMS)
    ecc, rsa = (64, 96, 132), (256, 384, 512)
    n = 0
    for q, f in sorted(ctx.prog.functions.items()):
        if f.module is not m:
            continue
        for c in ast.walk(f.node):
            if not (isinstance(c, ast.Compare) and len(c.ops) == 1 and norm(c.left).endswith(".signature_length")):
                continue
            t = ctx.prog.fold(c.comparators[0], m, f.cls)
            if not isinstance(t, int) or isinstance(t, bool):
                raise AnalysisError(f"C07.cms-by-length: threshold of `{norm(c)}` in {q} does not fold")
            ctx.chk.analysed(q)
            try:
                on = {L: bool(ordereval.Evaluator({"L": L, "T": t}).ev(ast.Compare(left=ast.Name(id="L", ctx=ast.Load()), ops=c.ops, comparators=[ast.Name(id="T", ctx=ast.Load())]))) for L in ecc + rsa}
            except ordereval.Unsupported as ex:
                raise AnalysisError(f"C07.cms-by-length: `{norm(c)}` left the fragment: {ex}")
            ok = len({on[L] for L in ecc}) == 1 and len({on[L] for L in rsa}) == 1 and on[ecc[0]] != on[rsa[0]]
            n += 1
            ctx.chk.decide(ok, "C07.cms-by-length", f"{q} `{norm(c)[:60]}`", f"threshold {t} separates raw ECDSA lengths {ecc} from RSA lengths {rsa}",
                           f"`{norm(c)}` (threshold {t}) is {on}: the lengths are not separated by key type", "a threshold in 133..256", A.loc(CMS, c))
    ctx.chk.floor("C07.cms-by-length", 2)


def rule_roundtrip(ctx) -> None:
    """C07.cmd-roundtrip / C07.secret-roundtrip: the HAB command and secret classes interpreted on model objects (E19): what export()
    writes, parse() reads back into an object with the same fields that exports to the same bytes - constructor, export and parse of the
    class (and of its bases, headers and enums) are evaluated from the source."""
    from ..engines import roundtrip
    hx = {"Header": ctx.cls(HDR, "Header"), "CmdHeader": ctx.cls(HDR, "CmdHeader")}
    E = lambda rel, n: ctx.enum_model(ctx.cls(rel, n))  # noqa: E731
    eng, alg = E(CMD, "EnumEngine"), E(SEC, "EnumAlgorithm")
    D = bytes(range(1, 21))
    cmds = [
        ("CmdNop", [{"param": 0}]),
        ("CmdSet", [{"itm": E(CMD, "EnumItm").ENG, "hash_alg": alg.SHA256, "engine": eng.CAAM, "engine_cfg": 3}, {"itm": E(CMD, "EnumItm").MID, "hash_alg": alg.ANY, "engine": eng.ANY, "engine_cfg": 0}]),
        ("CmdInitialize", [{"engine": eng.SNVS, "data": (1, 2, 3)}, {"engine": eng.ANY, "data": None}]),
        ("CmdUnlock", [{"engine": eng.OCOTP, "features": 5, "uid": 0x1122334455667788}, {"engine": eng.CAAM, "features": 1, "uid": 0}],
         {"sweep": False}),  # the UID is carried only when the selected features need it (by design): no boundary sweep over features
        ("CmdUnlockSNVS", [{"features": 3}]),
        ("CmdInstallKey", [{"flags": E(CMD, "EnumInsKey").ABS, "cert_fmt": E(CMD, "EnumCertFormat").X509, "hash_alg": alg.SHA256, "src_index": 2, "tgt_index": 3, "location": 0x1000}]),
        ("CmdWriteData", [{"numbytes": 4, "ops": E(CMD, "EnumWriteOps").SET_BITMASK, "data": ((0x1000, 5), (0x2000, 7))}, {"numbytes": 2, "ops": E(CMD, "EnumWriteOps").WRITE_VALUE, "data": ((0x30, 0xFFFF),)}]),
        ("CmdAuthData", [{"flags": E(CMD, "EnumAuthDat").CLR, "key_index": 2, "sig_format": E(CMD, "EnumCertFormat").CMS, "engine": eng.CAAM, "engine_cfg": 1, "location": 0x800,
                          "__setup1": "obj.append(0x1000, 0x200); obj.append(0x3000, 0x40)"},
                         {"flags": E(CMD, "EnumAuthDat").ABS, "key_index": 0, "sig_format": E(CMD, "EnumCertFormat").CMS, "engine": eng.ANY, "engine_cfg": 0, "location": 0x20,
                          "__setup1": "obj.append(0x877FF400, 0x10)"},
                         {"flags": E(CMD, "EnumAuthDat").CLR, "key_index": 1, "sig_format": E(CMD, "EnumCertFormat").CMS, "engine": eng.ANY, "engine_cfg": 0, "location": 0x40}]),
        ("CmdCheckData", [{"numbytes": 2, "ops": E(CMD, "EnumCheckOps").ANY_CLEAR, "address": 0x11223344, "mask": 0xFF00, "count": None},
                          {"numbytes": 4, "ops": E(CMD, "EnumCheckOps").ALL_SET, "address": 0x40, "mask": 1, "count": 5},
                          {"numbytes": 1, "ops": E(CMD, "EnumCheckOps").ALL_CLEAR, "address": 0x44, "mask": 0x80, "count": 0}]),  # a count of 0 is a count
    ]
    roundtrip.check_classes(ctx, "C07.cmd-roundtrip", CMD, cmds, hx, floor=9)

    def leaves(c: ast.Call, ev):
        if norm(c.func) == "get_ecc_curve" and len(c.args) == 1:
            n_ = ev.ev(c.args[0])  # (spsdk.crypto.keys.get_ecc_curve: byte length of a coordinate -> curve)
            return "EccCurve.SECP256R1" if n_ <= 32 else "EccCurve.SECP384R1" if n_ <= 48 else "EccCurve.SECP521R1"
        return ordereval.NOT_MODELLED
    curves = {f"EccCurve.{n}": f"EccCurve.{n}" for n in ("SECP256R1", "SECP384R1", "SECP521R1")}
    secrets = [
        ("SrkItemRSA", [{"modulus": bytes(range(1, 33)), "exponent": b"\x01\x00\x01", "flag": 0x80}, {"modulus": bytes(range(7, 71)), "exponent": b"\x03", "flag": 0}]),
        ("SrkItemEcc", [{"key_size": 256, "x_coordinate": 0x1122334455, "y_coordinate": 0xAABB, "flag": 0x80}, {"key_size": 521, "x_coordinate": (1 << 520) + 5, "y_coordinate": 7, "flag": 0}]),
        ("MAC", [{"version": 0x42, "nonce_len": 13, "mac_len": 16, "data": bytes(range(29))}]),
        ("Signature", [{"version": 0x42, "data": D}]),
        ("CertificateImg", [{"version": 0x42, "data": D}]),
    ]
    roundtrip.check_classes(ctx, "C07.secret-roundtrip", SEC, secrets, hx, leaves, curves, floor=5)
    roundtrip.check_classes(ctx, "C07.secret-roundtrip", SEG, [("SegBDT", [{"app_start": 0x1000, "app_length": 0x2000, "plugin": 1}, {"app_start": 0, "app_length": 4, "plugin": 0}])], hx, floor=6)


def run(ctx) -> None:
    ctx.chk.explain("C07: E1 wire symmetry of IVT/boot data/XMCD header/CSF commands/secret records (SRK items by byte position, XMCD nibbles by bit provenance), "
                    "segment-size rule (no wrapper may report a size inherited as 0), signed/encrypted block coverage of every segment kind with one address formula, "
                    "order in update_csf (length final -> export -> cut -> encrypt -> sign data -> sign CSF), sibling pointer formulas (IVT pointers vs segment offsets, "
                    "build vs parse), CSF offset alignment on critical lengths, flag predicates on all 16 values, AES-CCM parameter binding, who-may-call rule for signature providers.")
    ctx.rule(rule_wire)
    ctx.rule(rule_sizes)
    ctx.rule(rule_coverage)
    ctx.rule(rule_order)
    ctx.rule(rule_pointers)
    ctx.rule(rule_encrypt)
    ctx.rule(rule_sigprovider)
    ctx.rule(rule_registry)
    ctx.rule(rule_srk)
    ctx.rule(rule_roundtrip)
    ctx.rule(rule_cms_by_length)
    ctx.rule(rule_xmcd_window)
    ctx.chk.assumptions = ["CMS / X.509 / AES-CCM primitives are correct (C08, C09)", "struct semantics",
                           "not decided: an independent CMS verification of a built image, decryption of a built image, pointer arithmetic for every size beyond the sibling-formula agreement, "
                           "application offset detection heuristics of AppHabSegment.parse"]


MANIFEST = {
    "level": "Static structural decision of the clauses visible in the code shape: writer/reader layout symmetry of every HAB record; every segment kind except the CSF is named in the "
             "signed blocks and each wrapper reports a real size; the block address formula equals the position the padded export gives the segment; encryption precedes signing and both "
             "use the image cut at the CSF; IVT pointers and segment offsets are computed by the same formulas on the build and parse side; AES-CCM parameters and the MAC record are bound "
             "to the segment's DEK/nonce/MAC length; all HAB signing goes through the SHA-256 pinned provider. Signature validity and decryption are not executed.",
    "note": "Trusted: CMS/X.509/AES-CCM primitives, struct. Frozen tables: 14 wire pairs, 6 segment wrappers.",
    "technique": "static analysis: AST pack/unpack symmetry, byte-position and bit-provenance comparison, sibling-formula comparison, who-may-call over the resolved functions, abstract evaluation of guards on finite grids, twin computations compared as final symbolic values on the paths, attribute stores along symbolic paths, export/parse round trip of the HAB command and secret classes interpreted on model objects (E19), XMCD segment window by interpretation, key-type classification thresholds evaluated on the supported signature lengths",
}
