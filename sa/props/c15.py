"""C15 Debug authentication: credentials and responses are bound and verifiable.

Field-sequence model: every credential writer (`export`), its signed view (`_get_data_to_sign`), its format
builder (`get_data_format`) and its reader (`parse`) are reduced to ordered sequences of canonical field
tokens; the rules are sequence comparisons.  The response builders are reduced to concatenation sequences
resolved through the MRO for each protocol version in the dispatch table.
"""
from __future__ import annotations

import ast
import math
import re
from typing import Any, Dict, List, Optional, Tuple

from ..core import astutil as A
from ..core.loader import AnalysisError
from ..core.report import norm
from ..core.symtab import UNKNOWN, ClassInfo, FuncInfo
from . import c03

DC = "spsdk/dat/debug_credential.py"
DAR = "spsdk/dat/dar_packet.py"
DAC = "spsdk/dat/dac_packet.py"
HASH = "spsdk/crypto/hash.py"

CRED_CLASSES = ("DebugCredentialCertificateRsa", "DebugCredentialCertificateEcc", "DebugCredentialEdgeLockEnclave")
# the fields the property requires the credential signature to cover
SIGNED_FIELDS = ["version.major", "version.minor", "socc", "uuid", "rot_meta", "dck_pub", "cc_socu", "cc_vu", "cc_beacon"]
INT_CODES = {"version.major": "H", "version.minor": "H", "socc": "L", "cc_socu": "L", "cc_vu": "L", "cc_beacon": "L"}


# --------------------------------------------------------------------------- helpers
def canon(e: ast.expr) -> str:
    """Canonical field token of a writer argument: self.rot_meta.export() -> rot_meta, self.export_dck_pub() -> dck_pub."""
    t = norm(e)
    m = re.fullmatch(r"self\.export_(\w+)\(\)", t)
    if m:
        return m.group(1)
    m = re.fullmatch(r"self\.([\w.]+?)\.export\(\)", t)
    if m:
        return m.group(1)
    m = re.fullmatch(r"self\.([\w.]+)", t)
    if m:
        return m.group(1)
    m = re.fullmatch(r"self\.(\w+\(\))", t)
    if m:
        return m.group(1)
    return t


def sym_format(e: ast.expr) -> Optional[str]:
    """'+'-chain of str constants / f-strings -> format text with `{expr}` placeholders."""
    if isinstance(e, ast.Constant) and isinstance(e.value, str):
        return e.value
    if isinstance(e, ast.JoinedStr):
        out = ""
        for v in e.values:
            if isinstance(v, ast.Constant):
                out += str(v.value)
            elif isinstance(v, ast.FormattedValue) and v.format_spec is None:
                out += "{" + norm(v.value) + "}"
            else:
                return None
        return out
    if isinstance(e, ast.BinOp) and isinstance(e.op, ast.Add):
        l, r = sym_format(e.left), sym_format(e.right)
        return None if l is None or r is None else l + r
    return None


ITEM = re.compile(r"(\{[^}]*\}|\d+)?([a-zA-Z?])")


def items_of(fmt: str) -> List[Tuple[str, str]]:
    """[(code, size-text)] for value-producing items of a (symbolic) struct format; ints are expanded by their count."""
    body = fmt[1:] if fmt[:1] in "<>=!@" else fmt
    out: List[Tuple[str, str]] = []
    pos = 0
    while pos < len(body):
        m = ITEM.match(body, pos)
        if not m:
            raise AnalysisError(f"C15: cannot tokenise struct format {fmt!r} at {pos}")
        cnt, code = m.group(1), m.group(2)
        pos = m.end()
        if code in "sp":
            out.append((code, cnt or "1"))
        elif code == "x":
            continue
        else:
            if cnt and not cnt.isdigit():
                raise AnalysisError(f"C15: symbolic repeat count on a numeric item in {fmt!r}")
            out += [(code, "")] * (int(cnt) if cnt else 1)
    return out


def the_pack(fn: FuncInfo) -> ast.Call:
    packs = [c for c in A.calls_in(fn.node, "pack")]
    if len(packs) != 1:
        raise AnalysisError(f"C15: expected exactly one pack() in {fn.qual}, found {len(packs)}")
    return packs[0]


def builder_items(fn: FuncInfo) -> Tuple[List[Tuple[str, str]], List[Tuple[str, str]], str]:
    """(base items, signature items, byte order) of a get_data_format builder."""
    base = None
    sig: List[Tuple[str, str]] = []
    var = None
    for st in A.body_of(fn.node):
        if isinstance(st, ast.Assign) and len(st.targets) == 1 and isinstance(st.targets[0], ast.Name):
            f = sym_format(A.inline_locals(fn.node, st.value, keep=("key_size", "signature_size")))
            if f is not None and f[:1] in "<>":
                base, var = f, st.targets[0].id
        elif isinstance(st, ast.If) and var is not None:
            if norm(st.test) != "include_signature":
                raise AnalysisError(f"C15: unexpected condition `{norm(st.test)}` in {fn.qual}")
            for s in ast.walk(ast.Module(body=st.body, type_ignores=[])):
                if isinstance(s, ast.AugAssign) and isinstance(s.op, ast.Add) and norm(s.target) == var:
                    f = sym_format(s.value)
                    if f is None:
                        raise AnalysisError(f"C15: signature part of {fn.qual} is not a format string")
                    sig += items_of(f)
            if st.orelse:
                raise AnalysisError(f"C15: include_signature has an else branch in {fn.qual}")
    if base is None:
        raise AnalysisError(f"C15: no format string built in {fn.qual}")
    rets = A.returns_in(fn.node)
    if not rets or any(norm(r.value) != var for r in rets):
        raise AnalysisError(f"C15: {fn.qual} does not return the built format")
    return items_of(base), sig, base[0]


def subst_fold(ctx, e: ast.expr, mapping: Dict[str, Any], m, c=None) -> Any:
    """Fold `e` after replacing sub-expressions (by normalised text) with constants."""
    def rec(n: ast.AST) -> ast.AST:
        if isinstance(n, ast.expr):
            t = norm(n)
            if t in mapping:
                return ast.Constant(value=mapping[t])
        n2 = A.clone(n) if not list(ast.iter_child_nodes(n)) else None
        if n2 is not None:
            return n2
        new = type(n)()
        for f, v in ast.iter_fields(n):
            if isinstance(v, list):
                setattr(new, f, [rec(x) if isinstance(x, ast.AST) else x for x in v])
            elif isinstance(v, ast.AST):
                setattr(new, f, rec(v))
            else:
                setattr(new, f, v)
        return new
    e2 = rec(e)
    # math.ceil(x / 8) -> folded by hand
    class T(ast.NodeTransformer):
        def visit_Call(self, n: ast.Call):  # noqa: N802
            self.generic_visit(n)
            if norm(n.func) in ("math.ceil", "ceil") and len(n.args) == 1:
                v = ctx.prog.fold(n.args[0], m, c)
                if isinstance(v, (int, float)):
                    return ast.Constant(value=math.ceil(v))
            return n
    e2 = ast.fix_missing_locations(T().visit(e2))
    return ctx.prog.fold(e2, m, c)


def key_tables(ctx) -> Tuple[Dict[int, int], Dict[int, int]]:
    """{bits: minor} tables of ProtocolVersion.from_public_key for RSA and ECC."""
    fn = ctx.own(DC, "ProtocolVersion", "from_public_key")
    out: Dict[str, Dict[int, int]] = {}
    gp = A.gpaths(fn.node)
    for kind, cname in (("rsa", "PublicKeyRsa"), ("ecc", "PublicKeyEcc")):
        # the returning paths on which the key is of this kind, whatever the branch layout
        ps = [q for q in gp if q.end == "return" and q.assumes(f"isinstance(public_key, {cname})", True)]
        if not ps:
            continue
        body = ps[0].stmts
        for s in body:
            if isinstance(s, ast.Assign) and isinstance(s.value, ast.Subscript) and norm(s.value.slice) == "public_key.key_size":
                d = ctx.prog.fold(s.value.value, fn.module)
                if isinstance(d, dict):
                    out[kind] = d
        majors = [norm(A.arg_of(c, 0, "major")) for c in A.calls_in(ast.Module(body=body, type_ignores=[]), "from_version")]
        if majors != [{"rsa": "1", "ecc": "2"}[kind]]:
            raise AnalysisError(f"C15: from_public_key {kind} branch does not build major {majors}")
    if set(out) != {"rsa", "ecc"}:
        raise AnalysisError("C15: ProtocolVersion.from_public_key key-size tables not found")
    return out["rsa"], out["ecc"]


def hash_labels(ctx) -> Dict[str, int]:
    """label -> digest bytes for the SHA members of EnumHashAlgorithm."""
    k = ctx.cls(HASH, "EnumHashAlgorithm")
    labels = {}
    for name, e in k.consts.items():
        v = ctx.prog.fold(e, k.module, k)
        if isinstance(v, tuple) and len(v) >= 2 and isinstance(v[1], str):
            m = re.fullmatch(r"sha(\d+)", v[1])
            labels[v[1]] = int(m.group(1)) // 8 if m and int(m.group(1)) > 1 else 20 if v[1] == "sha1" else 0
    if "sha256" not in labels:
        raise AnalysisError("C15: EnumHashAlgorithm labels not found")
    return labels


# --------------------------------------------------------------------------- rules
def rule_signed_prefix(ctx) -> None:
    """C15.signed-prefix: the signed bytes are exactly the exported bytes without the trailing signature."""
    chk, prog = ctx.chk, ctx.prog
    for cn in CRED_CLASSES:
        cls = ctx.cls(DC, cn)
        ex, sg, bl = ctx.own(DC, cn, "export"), ctx.own(DC, cn, "_get_data_to_sign"), ctx.own(DC, cn, "get_data_format")
        chk.analysed(ex.qual, sg.qual, bl.qual)
        pe, ps = the_pack(ex), the_pack(sg)
        E, S = [canon(a) for a in pe.args[1:]], [canon(a) for a in ps.args[1:]]
        construct = f"{DC}::{cn}"
        if any(isinstance(a, ast.Starred) for a in pe.args + ps.args) or pe.keywords or ps.keywords:
            raise AnalysisError(f"C15.signed-prefix: starred/keyword pack arguments in {cn}")
        chk.decide(E[-1:] == ["signature"] and S == E[:-1], "C15.signed-prefix", construct + " export vs _get_data_to_sign",
                   f"signed fields == exported fields minus the trailing signature ({len(S)} fields: {', '.join(S)})",
                   f"exported {E} but signed {S}", "_get_data_to_sign packs the same arguments as export() without self.signature", A.loc(DC, ps))
        missing = [f for f in SIGNED_FIELDS if f not in S]
        chk.decide(not missing and len(set(S)) == len(S), "C15.signed-prefix", construct + " coverage",
                   "version, SoC class, UUID, RoT metadata, debug key, constraints and beacon are all in the signed data, each once",
                   f"not covered by the signature: {missing}; duplicates: {sorted(x for x in set(S) if S.count(x) > 1)}", "", A.loc(DC, ps))
        # format selection
        fe, fs = pe.args[0], ps.args[0]
        ok_e = isinstance(fe, ast.Call) and norm(fe.func) == "self.get_data_format" and A.arg_of(fe, 99, "include_signature") is None and \
            len(fe.args) <= (1 if cn.endswith("Rsa") else 0)
        inc = A.arg_of(fs, 1 if cn.endswith("Rsa") else 0, "include_signature") if isinstance(fs, ast.Call) else None
        ok_s = isinstance(fs, ast.Call) and norm(fs.func) == "self.get_data_format" and isinstance(inc, ast.Constant) and inc.value is False
        chk.decide(ok_e and ok_s, "C15.signed-prefix", construct + " format selection", "export uses the full format, the signed view the same builder with include_signature=False",
                   f"export format `{norm(fe)}`, signed format `{norm(fs)}`", "", A.loc(DC, ps))
        # default of include_signature is True
        a = bl.node.args
        dflt = dict(zip([x.arg for x in a.args[len(a.args) - len(a.defaults):]], a.defaults))
        d = dflt.get("include_signature")
        chk.decide(isinstance(d, ast.Constant) and d.value is True, "C15.signed-prefix", bl.qual + " default", "include_signature defaults to True", norm(d) if d else "no default", "", A.loc(DC, bl.node))
        base, sig, order = builder_items(bl)
        chk.decide(len(base) == len(S) and len(sig) == 1 and sig[0][0] == "s" and order == "<", "C15.signed-prefix", bl.qual + " arity",
                   f"{len(base)} items for the signed view + 1 signature item, little endian", f"{len(base)} base items for {len(S)} signed fields; signature items {sig}; byte order {order}", "", A.loc(DC, bl.node))
        # item-by-item agreement of builder and arguments
        probs = []
        for (code, size), tok in zip(base + sig, E):
            if tok in INT_CODES:
                if code != INT_CODES[tok]:
                    probs.append(f"{tok} packed as `{code}` (expected `{INT_CODES[tok]}`)")
            elif tok == "uuid":
                if (code, size) != ("s", "16"):
                    probs.append(f"uuid packed as `{size}{code}` (expected 16s)")
            else:
                root = {"rot_meta": ("rot_meta", "128"), "dck_pub": ("dck_pub", "key_size"), "rot_pub": ("rot_pub", "key_size"), "signature": ("signature", "signature_size")}.get(tok)
                if root is None:
                    probs.append(f"unknown field {tok}")
                elif code != "s" or not (root[0] in size or size.strip("{}") == root[1]):
                    probs.append(f"{tok} packed with size `{size}` which is not derived from {root[0]}")
        chk.decide(not probs, "C15.format-agree", construct + " builder vs arguments", f"each of {len(E)} format items has the code/size of the field packed at that position",
                   "; ".join(probs), "", A.loc(DC, bl.node))
    chk.floor("C15.signed-prefix", 15)
    # sign(): the signature is computed over _get_data_to_sign() and stored; the signer is checked against the named RoT key
    sn = ctx.own(DC, "DebugCredentialCertificate", "sign")
    t = norm(sn.node)
    gs = [c for c in A.calls_in(sn.node, "get_signature")]
    ok = len(gs) == 1 and [norm(a) for a in gs[0].args] == ["self._get_data_to_sign()"] and norm(gs[0].func) == "self.signature_provider.get_signature"
    var = None
    st = A.enclosing_stmt(gs[0]) if gs else None
    if isinstance(st, ast.Assign):
        var = norm(st.targets[0])
    stores = [s for s in A.walk_no_nested(sn.node) if isinstance(s, ast.Assign) and norm(s.targets[0]) == "self.signature"]
    ok = ok and len(stores) == 1 and norm(stores[0].value) == var
    chk.decide(ok, "C15.sign", sn.qual, "self.signature = signature_provider.get_signature(self._get_data_to_sign())", t[:200], "", A.loc(DC, sn.node))
    vk = [c for c in A.calls_in(sn.node, "try_to_verify_public_key")]
    chk.decide(len(vk) == 1 and [norm(a) for a in vk[0].args] == ["self.rot_pub"] and vk[0].lineno < (gs[0].lineno if gs else 0), "C15.sign", sn.qual + " signer",
               "the signature provider's key is checked against the RoT public key the credential names, before signing", "try_to_verify_public_key(self.rot_pub) missing or after signing", "", A.loc(DC, sn.node))
    # ELE v2 delegates to the AHAB certificate
    for mn, want in (("export", "self.certificate.export()"), ("sign", "self.certificate.update_fields()")):
        f = ctx.own(DC, "DebugCredentialEdgeLockEnclaveV2", mn)
        chk.decide(want in norm(f.node), "C15.sign", f.qual, f"delegates to the AHAB certificate ({want}; decided under C06)", norm(f.node)[:160], "", A.loc(DC, f.node))


def rule_size_tables(ctx) -> None:
    """C15.size-tables: fixed field sizes agree with what the key types export (struct `Ns` silently truncates/pads)."""
    chk, prog = ctx.chk, ctx.prog
    rsa, ecc = key_tables(ctx)
    bl = ctx.own(DC, "DebugCredentialCertificateRsa", "get_data_format")
    tabs: Dict[str, Dict[int, int]] = {}
    for s in ast.walk(bl.node):
        if isinstance(s, ast.Assign) and isinstance(s.value, ast.Subscript) and norm(s.value.slice) == "version.minor":
            d = prog.fold(s.value.value, bl.module)
            if isinstance(d, dict):
                tabs[norm(s.targets[0])] = d
    if set(tabs) != {"key_size", "signature_size"}:
        raise AnalysisError("C15.size-tables: RSA key_size/signature_size tables not found")
    exp_len = set()
    for mn in ("export_rot_pub", "export_dck_pub"):
        f = ctx.own(DC, "DebugCredentialCertificateRsa", mn)
        for c in A.calls_in(f.node, "export"):
            v = A.arg_of(c, 0, "exp_length")
            exp_len.add(prog.fold(v, f.module) if v is not None else None)
    if len(exp_len) != 1 or not isinstance(next(iter(exp_len)), int):
        chk.bad("C15.size-tables", "DebugCredentialCertificateRsa.export_*_pub", f"exponent lengths {exp_len}", "both RSA keys are exported with one fixed exponent length", A.loc(DC, bl.node))
        return
    el = next(iter(exp_len))
    probs = []
    for bits, minor in sorted(rsa.items()):
        if tabs["key_size"].get(minor) != bits // 8 + el:
            probs.append(f"1.{minor}: key field {tabs['key_size'].get(minor)} B but RSA-{bits} exports {bits // 8}+{el} B")
        if tabs["signature_size"].get(minor) != bits // 8:
            probs.append(f"1.{minor}: signature field {tabs['signature_size'].get(minor)} B but RSA-{bits} signs {bits // 8} B")
    if set(tabs["key_size"]) != set(rsa.values()) or set(tabs["signature_size"]) != set(rsa.values()):
        probs.append(f"minor versions differ: {sorted(tabs['key_size'])} / {sorted(tabs['signature_size'])} vs {sorted(rsa.values())}")
    chk.decide(not probs, "C15.size-tables", bl.qual, f"RSA field sizes equal modulus+{el}-byte exponent / modulus size for {sorted(rsa)}", "; ".join(probs), "", A.loc(DC, bl.node))
    # RotMetaRSA: 4 slots of one SHA-256 digest, same stride in export and parse
    ex, pa = ctx.own(DC, "RotMetaRSA", "export"), ctx.own(DC, "RotMetaRSA", "parse")
    total = [prog.fold(c.args[0], ex.module) for c in A.calls_in(ex.node, "bytearray") if c.args]

    def strides(fn: FuncInfo) -> List[str]:
        out = []
        for sub in ast.walk(fn.node):
            if isinstance(sub, ast.Subscript) and isinstance(sub.slice, ast.Slice) and sub.slice.lower is not None and sub.slice.upper is not None:
                out.append(f"{norm(sub.slice.lower)}:{norm(sub.slice.upper)}")
        return out
    se, sp = strides(ex), strides(pa)
    rng = [norm(c) for c in A.calls_in(pa.node, "range")]
    ok = total == [128] and se == ["index * 32:(index + 1) * 32"] and sp == se and rng == ["range(0, 4)"] and "128s" in "".join(f"{s}{c}" for c, s in builder_items(bl)[0])
    chk.decide(ok, "C15.size-tables", f"{DC}::RotMetaRSA export/parse", "4 slots x 32 bytes = 128 in export, parse and the credential format", f"total {total}, export slices {se}, parse slices {sp}, parse range {rng}", "", A.loc(DC, ex.node))
    # ECC: coordinate sizes
    k = ctx.cls(DC, "DebugCredentialCertificateEcc")
    cs = prog.fold(k.consts.get("COORDINATE_SIZE"), k.module, k)
    rk = ctx.cls(DC, "RotMetaEcc")
    hs = prog.fold(rk.consts.get("HASH_SIZES"), rk.module, rk)
    if not isinstance(cs, dict) or not isinstance(hs, dict):
        raise AnalysisError("C15.size-tables: COORDINATE_SIZE / HASH_SIZES not foldable")
    probs = [f"2.{minor}: COORDINATE_SIZE {cs.get(minor)} but P-{bits} coordinates are {math.ceil(bits / 8)} B" for bits, minor in sorted(ecc.items()) if cs.get(minor) != math.ceil(bits / 8)]
    if set(cs) != set(ecc.values()):
        probs.append(f"minor versions {sorted(cs)} vs {sorted(ecc.values())}")
    if set(hs) != set(cs.values()):
        probs.append(f"RotMetaEcc.HASH_SIZES keys {sorted(hs)} vs coordinate sizes {sorted(cs.values())}")
    labels = hash_labels(ctx)
    for h, bits in hs.items():
        if f"sha{bits}" not in labels:
            probs.append(f"HASH_SIZES[{h}] = {bits}: no hash algorithm `sha{bits}`")
    chk.decide(not probs, "C15.size-tables", f"{DC}::COORDINATE_SIZE/HASH_SIZES", f"coordinate sizes {cs} = ceil(bits/8) of {sorted(ecc)}; HASH_SIZES {hs} name existing algorithms", "; ".join(probs), "", A.loc(DC, k.node))
    # ECC parse tail: rot_pub, dck_pub at 2 coordinates, signature at 2 coordinates
    pe = ctx.own(DC, "DebugCredentialCertificateEcc", "parse")
    tail = A.single_def(pe.node, "format_tail")
    f = sym_format(tail) if tail is not None else None
    ok = f is not None and [s for _c, s in items_of(f)] == ["{rot_meta.HASH_SIZE * 2}"] * 3
    chk.decide(ok, "C15.size-tables", pe.qual + " tail", "RoT key, debug key and signature are read at two coordinates each", f"tail format {f}", "", A.loc(DC, pe.node))
    # _build_subclasses binds HASH_SIZE to the coordinate size key
    bs = ctx.own(DC, "RotMetaEcc", "_build_subclasses")
    t = norm(bs.node)
    chk.decide("for hash_size, hash_algo in cls.HASH_SIZES.items()" in t and "{'HASH_SIZE': hash_size}" in t, "C15.size-tables", bs.qual, "one RotMetaEcc subclass per HASH_SIZES key with HASH_SIZE = key", t[:200], "", A.loc(DC, bs.node))


def _unpack_targets(fn: FuncInfo) -> List[Tuple[List[str], ast.Call]]:
    out = []
    for st in A.walk_no_nested(fn.node):
        if isinstance(st, ast.Assign) and isinstance(st.value, ast.Call) and A.call_name(st.value) in ("unpack_from", "unpack"):
            t = st.targets[0]
            names = [norm(x) for x in t.elts] if isinstance(t, ast.Tuple) else [norm(t)]
            out.append((names, st.value))
    return out


def _ctor_map(fn: FuncInfo) -> Dict[str, str]:
    """local variable -> constructor field, through `cls(field=expr mentioning var)` and one level of local definitions."""
    ctor = [c for r in A.returns_in(fn.node) if isinstance(r.value, ast.Call) and norm(r.value.func) == "cls" for c in [r.value]]
    if len(ctor) != 1 or ctor[0].args:
        raise AnalysisError(f"C15: {fn.qual} does not end in a single keyword-only cls(...) call")
    m: Dict[str, str] = {}
    for kw in ctor[0].keywords:
        if isinstance(kw.value, ast.Call) and A.call_name(kw.value) == "from_version" and all(isinstance(a, ast.Name) for a in kw.value.args[:2]):
            for i, a in enumerate(kw.value.args[:2]):
                m[a.id] = f"{kw.arg}.{('major', 'minor')[i]}"
            continue
        names = set(A.names_in(kw.value))
        for n in names:
            if n in m and m[n] != kw.arg:
                m[n] = "<ambiguous>"
            else:
                m[n] = kw.arg
    # one level of indirection: version = ProtocolVersion.from_version(version_major, version_minor)
    for st in A.walk_no_nested(fn.node):
        if isinstance(st, ast.Assign) and isinstance(st.targets[0], ast.Name) and st.targets[0].id in m and isinstance(st.value, ast.Call) and A.call_name(st.value) == "from_version":
            fld = m[st.targets[0].id]
            for i, a in enumerate(st.value.args[:2]):
                if isinstance(a, ast.Name):
                    m[a.id] = f"{fld}.{('major', 'minor')[i]}"
    return m


def rule_parse_order(ctx) -> None:
    """C15.parse-order: parse reads every field from the position export wrote it to, and hands it to the same constructor field."""
    chk = ctx.chk
    for cn in CRED_CLASSES:
        ex, pa = ctx.own(DC, cn, "export"), ctx.own(DC, cn, "parse")
        chk.analysed(pa.qual)
        E = [canon(a) for a in the_pack(ex).args[1:]]
        cm = _ctor_map(pa)
        ups = _unpack_targets(pa)
        construct = f"{DC}::{cn} export<->parse"
        if cn.endswith("Rsa"):
            main = [u for u in ups if len(u[0]) > 2]
            if len(main) != 1:
                raise AnalysisError(f"C15.parse-order: main unpack of {cn}.parse not found")
            names, call = main[0]
            R = [cm.get(n, "_" if n == "_" else f"?{n}") for n in names]
            ver = A.single_def(pa.node, "version")
            ok_ver = ver is not None and norm(ver) == "ProtocolVersion.from_version(*unpack_from('<2H', data))" and cm.get("version") == "version"
            cmpR = [("version.major", "version.minor")[i] if (r == "_" and i < 2) else r for i, r in enumerate(R)]
            fmt_ok = norm(call.args[0]) == "cls.get_data_format(version)" and norm(call.args[1]) == "data" and len(call.args) == 2
            chk.decide(cmpR == E and ok_ver and fmt_ok, "C15.parse-order", construct, f"{len(E)} fields read in export order with the full format at offset 0; version from the leading <2H",
                       f"export order {E}; parse order {cmpR}; version from `{norm(ver) if ver is not None else None}`; format `{norm(call.args[0])}`", "", A.loc(DC, pa.node))
            # RoT meta / keys are decoded by the matching parsers
            ctor = [r.value for r in A.returns_in(pa.node)][0]
            kws = {k.arg: norm(k.value) for k in ctor.keywords}
            want = {"rot_meta": "RotMetaRSA.parse(rot_meta)", "dck_pub": "PublicKey.parse(dck_pub)", "rot_pub": "PublicKey.parse(rot_pub)", "signature": "signature", "uuid": "uuid", "socc": "socc",
                    "cc_socu": "cc_socu", "cc_vu": "cc_vu", "cc_beacon": "cc_beacon", "version": "version"}
            chk.decide(kws == want, "C15.parse-order", construct + " constructor", "every constructor field receives the value unpacked for it", f"{ {k: v for k, v in kws.items() if want.get(k) != v} }", "", A.loc(DC, ctor))
            continue
        head = [u for u in ups if norm(u[1].args[0]) == "format_head"]
        tail = [u for u in ups if norm(u[1].args[0]) == "format_tail"]
        if len(head) != 1 or len(tail) != 1:
            raise AnalysisError(f"C15.parse-order: head/tail unpack of {cn}.parse not found")
        hf = sym_format(A.single_def(pa.node, "format_head"))
        bl_items = builder_items(ctx.own(DC, cn, "get_data_format"))[0]
        h_items = items_of(hf) if hf else []
        Rh = [cm.get(n, f"?{n}") for n in head[0][0]]
        Rt = [cm.get(n, f"?{n}") for n in tail[0][0]]
        # rot_meta position: parsed from the bytes right after the head
        rm = A.single_def(pa.node, "rot_meta")
        rm_ok = rm is not None and isinstance(rm, ast.Call) and A.call_name(rm) == "parse" and [norm(a) for a in rm.args] == ["data[calcsize(format_head):]"] and cm.get("rot_meta") == "rot_meta"
        R = Rh + ["rot_meta"] + Rt
        if cn == "DebugCredentialEdgeLockEnclave":
            # the RoT public key is not stored separately: it is taken from the SRK table by the used index
            rp = A.single_def(pa.node, "rot_pub")
            rp_ok = rp is not None and norm(rp) == "rot_meta.srk_table.get_source_keys()[rot_meta.flags.used_root_cert]"
            chk.decide(rp_ok, "C15.parse-order", construct + " rot_pub", "the RoT key is the SRK table record selected by the used-key index", norm(rp) if rp is not None else "missing", "", A.loc(DC, pa.node))
            R = [r for r in R if r != "rot_pub"]
        off_ok = len(tail[0][1].args) == 3 and norm(tail[0][1].args[2]) == "calcsize(format_head) + len(rot_meta)" and norm(tail[0][1].args[1]) == "data" and \
            [norm(a) for a in head[0][1].args] == ["format_head", "data"]
        chk.decide(R == E and rm_ok and off_ok and h_items == bl_items[:len(h_items)], "C15.parse-order", construct,
                   f"{len(E)} fields read in export order: head {len(Rh)} items (format equal to the builder's first {len(h_items)} items), RoT meta right after the head, tail at head+len(rot_meta)",
                   f"export order {E}; parse order {R}; rot_meta from `{norm(rm) if rm is not None else None}`; tail offset `{norm(tail[0][1].args[2]) if len(tail[0][1].args) > 2 else None}`; head items {h_items} vs builder {bl_items[:len(h_items)]}",
                   "", A.loc(DC, pa.node))
        ctor = [r.value for r in A.returns_in(pa.node)][0]
        kws = {k.arg: norm(k.value) for k in ctor.keywords}
        want = {"rot_meta": "rot_meta", "dck_pub": "PublicKey.parse(dck_pub)", "rot_pub": "PublicKey.parse(rot_pub)" if cn.endswith("Ecc") else "rot_pub", "signature": "signature", "uuid": "uuid", "socc": "socc",
                "cc_socu": "cc_socu", "cc_vu": "cc_vu", "cc_beacon": "beacon", "version": "version"}
        chk.decide(kws == want, "C15.parse-order", construct + " constructor", "every constructor field receives the value unpacked for it", f"{ {k: v for k, v in kws.items() if want.get(k) != v} }", "", A.loc(DC, ctor))
    # constructor stores are the identity
    init = ctx.own(DC, "DebugCredentialCertificate", "__init__")
    stores = {norm(s.targets[0]): norm(s.value) for s in A.body_of(init.node) if isinstance(s, ast.Assign)}
    params = [p for p in init.params() if p != "self"]
    bad = [p for p in params if stores.get(f"self.{p}") != p]
    chk.decide(not bad, "C15.parse-order", init.qual, f"{len(params)} constructor parameters stored under their own names", f"not stored as given: {bad}", "", A.loc(DC, init.node))
    # __eq__ compares all fields (via _vars) for the three classes
    for cn in CRED_CLASSES:
        f = ctx.own(DC, cn, "__eq__")
        chk.decide(norm(A.returns_in(f.node)[0].value) == f"isinstance(other, {cn}) and self._vars() == other._vars()", "C15.parse-order", f.qual, "equality compares every public attribute", norm(f.node)[:160], "", A.loc(DC, f.node))
    # the top-level parse picks the class from the leading version/SOCC of the data
    tp = ctx.own(DC, "DebugCredentialCertificate", "parse")
    t = norm(tp.node)
    ok = "ver = unpack_from('<2H', data)" in t and "socc = unpack_from('<L', data, 4)" in t and "version=ProtocolVersion.from_version(ver[0], ver[1])" in t and "family=cls.get_family_ambassador(socc[0])" in t
    chk.decide(ok, "C15.parse-order", tp.qual, "class chosen from version (<2H at 0) and SOCC (<L at 4) - the first two exported fields", t[:300], "", A.loc(DC, tp.node))


def rule_flags(ctx) -> None:
    """C15.flags: RotMetaFlags export and parse agree on bit positions; validate bounds fit the fields."""
    chk = ctx.chk
    ex, pa, va = ctx.own(DC, "RotMetaFlags", "export"), ctx.own(DC, "RotMetaFlags", "parse"), ctx.own(DC, "RotMetaFlags", "validate")
    # The class evaluated on models: export(u, c) is the little-endian word  1<<31 | u<<8 | c<<4 ;  parse of that word gives (u, c)
    # back, rejects a word without the marker and any other length; validate rejects exactly count > 4 or used index >= count.
    import struct as _struct
    from ..engines import ordereval as _oe
    Obj = _oe.Obj
    kcls = ctx.cls(DC, "RotMetaFlags")

    def cv(c: ast.Call, ev):
        f = norm(c.func)
        if f in ("pack", "struct.pack") and c.args:
            try:
                return _struct.pack(ev.ev(c.args[0]), *[ev.ev(a) for a in c.args[1:]])
            except _struct.error:
                raise _oe.ModelRaise(_oe.Outcome("raise", "struct.error", c))
        if f in ("unpack", "struct.unpack") and len(c.args) == 2:
            return tuple(_struct.unpack(ev.ev(c.args[0]), bytes(ev.ev(c.args[1]))))
        if f in ("cls", "RotMetaFlags"):
            kw = {k.arg: ev.ev(k.value) for k in c.keywords}
            pos = [ev.ev(a) for a in c.args]
            return ("FLAGS", pos[0] if pos else kw.get("used_root_cert"), pos[1] if len(pos) > 1 else kw.get("cnt_root_cert"))
        return _oe.NOT_MODELLED
    calls = ctx.model_calls(cv)

    def run_m(fn, env):
        try:
            return _oe.Evaluator(env, ctx.fold_sym(fn), opaque_return=False, call_value=calls).run(A.body_of(fn.node))
        except _oe.Unsupported as e:
            raise AnalysisError(f"C15.flags: {fn.qual} left the fragment: {e}")
    probs = []
    for u in range(0, 4):
        for c in range(1, 5):
            out = run_m(ex, {"self": Obj(_cls=kcls, used_root_cert=u, cnt_root_cert=c)})
            want_b = _struct.pack("<L", (1 << 31) | (u << 8) | (c << 4))
            if not (out.kind == "return" and bytes(out.value) == want_b):
                probs.append(f"export(used {u}, count {c}) = {bytes(out.value).hex() if isinstance(out.value, (bytes, bytearray)) else out.kind}, expected {want_b.hex()}")
                continue
            back = run_m(pa, {"cls": Obj(_cls=kcls), "data": want_b})
            if not (back.kind == "return" and back.value == ("FLAGS", u, c)):
                probs.append(f"parse(export(used {u}, count {c})) = {back.value!r} ({back.kind})")
    for bad_w, why in ((_struct.pack("<L", (2 << 8) | (3 << 4)), "a word without the bit-31 marker"), (bytes(3), "3 bytes"), (bytes(5), "5 bytes"), (b"", "no data")):
        out = run_m(pa, {"cls": Obj(_cls=kcls), "data": bad_w})
        if out.kind != "raise":
            probs.append(f"parse accepts {why}")
    chk.decide(not probs, "C15.flags", f"{DC}::RotMetaFlags export<->parse", "bit 31 marker, used index at bits 8-11, key count at bits 4-7, little-endian 32-bit word on both sides (16 field combinations + 4 malformed words)", "; ".join(probs[:2]), "", A.loc(DC, ex.node))
    probs = []
    for u in range(0, 6):
        for c in range(0, 7):
            out = run_m(va, {"self": Obj(_cls=kcls, used_root_cert=u, cnt_root_cert=c)})
            want_k = "raise" if (c > 4 or u + 1 > c) else "fall"
            if out.kind != want_k:
                probs.append(f"validate(used {u}, count {c}): {out.kind}, expected {want_k}")
    init_validates = "self.validate()" in norm(ctx.own(DC, "RotMetaFlags", "__init__").node)
    chk.decide(not probs and init_validates, "C15.flags", va.qual, "count <= 4 and used index < count are enforced on construction (both fit their 4-bit fields)", "; ".join(probs[:2]) or "constructor does not validate", "", A.loc(DC, va.node))


def rule_rot_hash(ctx) -> None:
    """C15.rot-hash: the credential's RoT hash is the construction the image tools use (C03) for every supported key size."""
    chk, prog = ctx.chk, ctx.prog
    rsa, ecc = key_tables(ctx)
    labels = hash_labels(ctx)
    rk = ctx.cls(DC, "RotMetaEcc")
    hs = prog.fold(rk.consts.get("HASH_SIZES"), rk.module, rk)
    # reference label: what RKHT._get_hash_algorithm gives for the key (C03), where defined
    ga = ctx.own("spsdk/utils/crypto/rkht.py", "RKHT", "_get_hash_algorithm")
    ref_expr = None
    for c in A.calls_in(ga.node, "from_label"):
        ref_expr = c.args[0]
    if ref_expr is None:
        raise AnalysisError("C15.rot-hash: RKHT._get_hash_algorithm label expression not found")

    def env_for(bits: int, prefix: str) -> Dict[str, Any]:
        return {f"{prefix}.key_size": bits, f"{prefix}.coordinate_size": math.ceil(bits / 8)}

    def want_label(bits: int) -> Optional[str]:
        ref = subst_fold(ctx, ref_expr, env_for(bits, "key"), ga.module)
        if isinstance(ref, str) and ref in labels:
            return ref
        # the image tools have no algorithm for this size: the sibling (key table) construction is the reference
        return f"sha{hs[math.ceil(bits / 8)]}"
    # (1) single key fallback in DebugCredentialCertificateEcc.calculate_hash
    ch = ctx.own(DC, "DebugCredentialCertificateEcc", "calculate_hash")
    tries = [n for n in A.body_of(ch.node) if isinstance(n, ast.Try)]
    if len(tries) != 1 or len(tries[0].handlers) != 1:
        raise AnalysisError("C15.rot-hash: try/except shape of DebugCredentialCertificateEcc.calculate_hash changed")
    body_ok = [norm(s) for s in tries[0].body] == ["return self.rot_meta.calculate_hash()"]
    hcalls = [c for c in A.calls_in(ast.Module(body=tries[0].handlers[0].body, type_ignores=[]), "get_hash")]
    if len(hcalls) != 1:
        raise AnalysisError("C15.rot-hash: fallback get_hash call not found")
    data = A.arg_of(hcalls[0], 0, "data")
    alg = A.arg_of(hcalls[0], 1, "algorithm")
    lab = alg.args[0] if isinstance(alg, ast.Call) and A.call_name(alg) == "from_label" and alg.args else None
    probs = []
    if lab is None:
        probs.append(f"algorithm `{norm(alg) if alg is not None else None}` is not EnumHashAlgorithm.from_label(...)")
    else:
        for bits in sorted(ecc):
            v = subst_fold(ctx, lab, env_for(bits, "self.rot_pub"), ch.module, ch.cls)
            if v is UNKNOWN or not isinstance(v, str):
                probs.append(f"P-{bits}: label `{norm(lab)}` is not a function of the RoT key's size alone")
            elif v not in labels:
                probs.append(f"P-{bits}: label {v!r} is not a hash algorithm")
            elif v != want_label(bits):
                probs.append(f"P-{bits}: {v} but the image tools / key table use {want_label(bits)}")
    chk.decide(body_ok and not probs and norm(data) == "self.export_rot_pub()", "C15.rot-hash", ch.qual + " single-key fallback",
               f"hash(x||y of the RoT key) with the algorithm of the key's curve for P-{sorted(ecc)}; RoT meta hash preferred when a key table exists",
               "; ".join(probs) or f"data `{norm(data)}`, try body {[norm(s) for s in tries[0].body]}", "", A.loc(DC, ch.node))
    erp = ctx.own(DC, "DebugCredentialCertificateEcc", "export_rot_pub")
    chk.decide(norm(A.returns_in(erp.node)[-1].value) == "self.rot_pub.export()", "C15.rot-hash", erp.qual, "RoT key bytes are PublicKeyEcc.export() (x||y at coordinate size)", norm(erp.node)[:120], "", A.loc(DC, erp.node))
    pk = ctx.own("spsdk/crypto/keys.py", "PublicKeyEcc", "export")
    t = norm(pk.node)
    ok = "x_bytes = self.x.to_bytes(self.coordinate_size, Endianness.BIG.value)" in t and "y_bytes = self.y.to_bytes(self.coordinate_size, Endianness.BIG.value)" in t and "x_bytes + y_bytes" in t
    chk.decide(ok, "C15.rot-hash", pk.qual, "x||y big-endian at the curve's coordinate size (same bytes RKHT hashes)", t[:240], "", A.loc("spsdk/crypto/keys.py", pk.node))
    # (2) key table items
    lc = ctx.own(DC, "RotMetaEcc", "load_from_config")
    hc = [c for c in A.calls_in(lc.node, "get_hash")]
    probs = []
    if len(hc) != 1:
        raise AnalysisError("C15.rot-hash: RotMetaEcc.load_from_config get_hash call not found")
    d = norm(A.inline_locals(lc.node, A.arg_of(hc[0], 0, "data")))
    alg = A.arg_of(hc[0], 1, "algorithm")
    lab = alg.args[0] if isinstance(alg, ast.Call) and A.call_name(alg) == "from_label" and alg.args else None
    for bits in sorted(ecc):
        v = subst_fold(ctx, lab, {"hash_size": math.ceil(bits / 8)}, lc.module, lc.cls) if lab is not None else UNKNOWN
        if v != want_label(bits):
            probs.append(f"P-{bits}: table items hashed with {v}, expected {want_label(bits)}")
    guard = [n for n in A.body_of(lc.node) if isinstance(n, ast.If) and norm(n.test) == "len(rot_pub_keys) > 1"]
    fl = [c for c in A.calls_in(lc.node, "RotMetaFlags")]
    fl_ok = len(fl) == 1 and [norm(a) for a in fl[0].args] == ["value_to_int(config['rot_id'])", "len(rot_pub_keys)"]
    chk.decide(not probs and d == "pub_key.export()" and len(guard) == 1 and fl_ok, "C15.rot-hash", lc.qual,
               "one digest of x||y per RoT key, with the curve's algorithm, only when there is more than one key; flags carry the used index and the key count",
               "; ".join(probs) or f"data `{d}`, guard {len(guard)}, flags {[norm(a) for a in fl[0].args] if fl else None}", "", A.loc(DC, lc.node))
    # (3) table hash: algorithm from the item size; stride of parse equals the digest size
    ks = ctx.own(DC, "RotMetaEcc", "key_size")
    kexpr = A.returns_in(ks.node)[-1].value
    ch2 = ctx.own(DC, "RotMetaEcc", "calculate_hash")
    hc2 = [c for c in A.calls_in(ch2.node, "get_hash")]
    alg2 = A.arg_of(hc2[0], 1, "algorithm") if hc2 else None
    lab2 = alg2.args[0] if isinstance(alg2, ast.Call) and alg2.args else None
    probs = []
    n_cases = 0
    for bits in sorted(ecc):
        h = math.ceil(bits / 8)
        dg = labels[want_label(bits)]
        for n in (2, 3, 4):
            n_cases += 1
            v = subst_fold(ctx, kexpr, {"len(self)": 4 + n * dg, "len(self.flags)": 4, "self.flags.cnt_root_cert": n, "self.HASH_SIZE": h}, ks.module, ks.cls)
            l2 = subst_fold(ctx, lab2, {"self.key_size": v}, ch2.module, ch2.cls) if lab2 is not None and v is not UNKNOWN else UNKNOWN
            if l2 != want_label(bits):
                probs.append(f"P-{bits}, {n} keys ({dg}-byte items): table hashed with {l2 if l2 is not UNKNOWN else 'an undefined algorithm'} (key_size -> {v if v is not UNKNOWN else 'error'}), expected {want_label(bits)}")
    d2 = norm(A.inline_locals(ch2.node, A.arg_of(hc2[0], 0, "data"))) if hc2 else None
    chk.decide(not probs and d2 == "self.export_crtk_table()", "C15.rot-hash", ch2.qual, f"hash of the concatenated key digests with the curve's algorithm for {n_cases} (curve, key count) cases", "; ".join(probs[:3]) or f"data `{d2}`", "", A.loc(DC, ch2.node))
    pa = ctx.own(DC, "RotMetaEcc", "parse")
    sl = [s for s in ast.walk(pa.node) if isinstance(s, ast.Subscript) and isinstance(s.slice, ast.Slice) and s.slice.lower is not None and s.slice.upper is not None and norm(s.value) == "crt_table"]
    if len(sl) != 1:
        raise AnalysisError("C15.rot-hash: table slice in RotMetaEcc.parse not found")
    lo, hi = A.inline_locals(pa.node, sl[0].slice.lower), A.inline_locals(pa.node, sl[0].slice.upper)
    # the index variable: the loop / comprehension target the slice sits in
    ivar = None
    for anc in A.ancestors(sl[0]):
        if isinstance(anc, ast.For) and isinstance(anc.target, ast.Name):
            ivar = anc.target.id
            break
        if isinstance(anc, (ast.ListComp, ast.GeneratorExp)) and len(anc.generators) == 1 and isinstance(anc.generators[0].target, ast.Name):
            ivar = anc.generators[0].target.id
            break
    if ivar is None:
        raise AnalysisError("C15.rot-hash: index variable of the table slice in RotMetaEcc.parse not found")
    probs = []
    for bits in sorted(ecc):
        h = math.ceil(bits / 8)
        dg = labels[want_label(bits)]
        for idx in (0, 1, 3):
            a = subst_fold(ctx, lo, {ivar: idx, "cls.HASH_SIZE": h}, pa.module, pa.cls)
            b = subst_fold(ctx, hi, {ivar: idx, "cls.HASH_SIZE": h}, pa.module, pa.cls)
            if (a, b) != (idx * dg, (idx + 1) * dg):
                probs.append(f"P-{bits}: item {idx} read from [{a}:{b}] but export writes {dg}-byte digests at [{idx * dg}:{(idx + 1) * dg}]")
                break
    ex = ctx.own(DC, "RotMetaEcc", "export_crtk_table")
    tx = norm(ex.node)
    concat = "ctrk_table += rot_item" in tx or "b''.join(self.rot_items)" in tx or "join(rot_item for rot_item in self.rot_items)" in tx
    # the table is written only for more than one key, and read back under the same condition (whatever the branch layout)
    ex_ok = concat and A.always_under(ex.node, lambda t, s: "rot_item" in t and ("+=" in t or "join" in t), "len(self.rot_items) > 1")
    rd_ok = A.always_under(pa.node, lambda t, s: "crt_table[" in t, "flags.cnt_root_cert > 1")
    chk.decide(not probs and ex_ok and rd_ok and "flags = RotMetaFlags.parse(data[:4])" in norm(pa.node) and "crt_table = data[4:]" in norm(pa.node),
               "C15.rot-hash", pa.qual, "table items are read at the digest size they were written with (after the 4-byte flags), only when the count is > 1", "; ".join(probs), "", A.loc(DC, pa.node))
    e2 = ctx.own(DC, "RotMetaEcc", "export")
    chk.decide(norm(A.returns_in(e2.node)[-1].value) == "self.flags.export() + self.export_crtk_table()", "C15.rot-hash", e2.qual, "flags then table", norm(e2.node)[:120], "", A.loc(DC, e2.node))
    # (4) RSA: RotMetaRSA items = SHA-256(n||e) and the RoT hash = SHA-256(128-byte table) as RKHTv1
    lr = ctx.own(DC, "RotMetaRSA", "load_from_config")
    t = norm(lr.node)
    ok = "data = rot.export(exp_length=3)" in t and "rot_item = get_hash(data)" in t and "rot_items.append(rot_item)" in t and "if len(rot_pub_keys) > 4:" in t
    chk.decide(ok, "C15.rot-hash", lr.qual, "per key SHA-256 over modulus||3-byte exponent (equals RKHT's minimal n||e for the exponent 65537)", t[:200], "", A.loc(DC, lr.node))
    cr = ctx.own(DC, "RotMetaRSA", "calculate_hash")
    chk.decide(norm(A.returns_in(cr.node)[-1].value) == "get_hash(data=self.export())", "C15.rot-hash", cr.qual, "SHA-256 over the four 32-byte slots (zero-filled), as RKHTv1.rkth()", norm(cr.node)[:120], "", A.loc(DC, cr.node))
    gh = ctx.func(HASH, "get_hash")
    a = gh.node.args
    dflt = dict(zip([x.arg for x in a.args[len(a.args) - len(a.defaults):]], a.defaults))
    chk.decide(norm(dflt.get("algorithm")) == "EnumHashAlgorithm.SHA256", "C15.rot-hash", gh.qual, "get_hash defaults to SHA-256", norm(dflt.get("algorithm")), "", A.loc(HASH, gh.node))
    rc = ctx.own(DC, "DebugCredentialCertificateRsa", "calculate_hash")
    chk.decide(norm(A.returns_in(rc.node)[-1].value) == "self.rot_meta.calculate_hash()", "C15.rot-hash", rc.qual, "RSA credential hash is the RoT meta hash", norm(rc.node)[:100], "", A.loc(DC, rc.node))
    # (5) EdgeLock enclave: SRK table hash (decided under C06)
    ce = ctx.own(DC, "RotMetaEdgeLockEnclave", "calculate_hash")
    rets = [norm(r.value) for r in A.returns_in(ce.node)]
    chk.decide(rets == ["self.srk_table.compute_srk_hash()"], "C15.rot-hash", ce.qual, "ELE credentials use the AHAB SRK table hash on every path - the value the image tools fuse (C06)", f"returns {rets}", "return self.srk_table.compute_srk_hash()", A.loc(DC, ce.node))
    for cn2 in ("DebugCredentialEdgeLockEnclave", "DebugCredentialCertificateRsa"):
        f2 = ctx.own(DC, cn2, "calculate_hash")
        r2 = [norm(r.value) for r in A.returns_in(f2.node)]
        chk.decide(r2 == ["self.rot_meta.calculate_hash()"], "C15.rot-hash", f2.qual, "the credential's hash is its RoT meta hash on every path", f"returns {r2}", "", A.loc(DC, f2.node))
    ee = ctx.own(DC, "RotMetaEdgeLockEnclave", "export")
    pe = ctx.own(DC, "RotMetaEdgeLockEnclave", "parse")
    ok = norm(A.returns_in(ee.node)[-1].value) == "self.flags.export() + self.srk_table.export()" and "flags = RotMetaFlags.parse(data[:4])" in norm(pe.node) and "srk_table = SRKTable.parse(data[4:])" in norm(pe.node)
    chk.decide(ok, "C15.rot-hash", ee.qual + " <-> parse", "flags (4 bytes) then the SRK table on both sides", norm(pe.node)[:160], "", A.loc(DC, ee.node))
    # the RoT meta class is chosen consistently with the credential class
    gm = ctx.own(DC, "DebugCredentialCertificate", "_get_rot_meta_class")
    t = norm(gm.node)
    ok = all(x in t for x in ("DebugCredentialCertificateEcc: RotMetaEcc", "DebugCredentialCertificateRsa: RotMetaRSA", "DebugCredentialEdgeLockEnclave: RotMetaEdgeLockEnclave"))
    chk.decide(ok, "C15.rot-hash", gm.qual, "RoT meta class paired with the credential class", t[:240], "", A.loc(DC, gm.node))
    # create_from_yaml_config: rot_pub is the rot_meta entry selected by rot_id
    cf = ctx.own(DC, "DebugCredentialCertificate", "create_from_yaml_config")
    rp = A.single_def(cf.node, "rot_pub")
    ok = rp is not None and norm(A.arg_of(rp, 0, "file_path")) == "config['rot_meta'][value_to_int(config['rot_id'])]"
    chk.decide(ok, "C15.rot-hash", cf.qual + " rot_pub", "the named RoT key is rot_meta[rot_id] - the same list RoT meta hashes", norm(rp) if rp is not None else "missing", "", A.loc(DC, cf.node))
    ctor = [c for c in A.calls_in(cf.node, "klass")]
    kws = {k.arg: norm(k.value) for k in ctor[0].keywords} if ctor else {}
    want = {"version": "version", "socc": "socc", "uuid": "bytes.fromhex(config['uuid'])", "rot_meta": "rot_meta_class.load_from_config(config, search_paths)", "dck_pub": "extract_public_key(config['dck'], search_paths=search_paths)",
            "cc_socu": "value_to_int(config['cc_socu'])", "cc_vu": "value_to_int(config['cc_vu'])", "cc_beacon": "value_to_int(config['cc_beacon'])", "rot_pub": "rot_pub", "signature_provider": "signature_provider"}
    chk.decide(kws == want, "C15.config-routing", cf.qual, "every configuration key reaches the constructor field of the same name", f"{ {k: v for k, v in kws.items() if want.get(k) != v} }", "", A.loc(DC, cf.node))


def concat_seq(ctx, cls: ClassInfo, mname: str, depth: int = 0, owner_after: Optional[ClassInfo] = None) -> List[str]:
    """Ordered pieces of a bytes-building method (`data = X; data += Y; return data`), expanding _get_common_data through the MRO."""
    prog = ctx.prog
    if depth > 4:
        raise AnalysisError("C15: concatenation recursion too deep")
    chain = prog.mro(cls)
    if owner_after is not None:
        chain = chain[chain.index(owner_after) + 1:]
    fn = None
    for k in chain:
        fn = k.method(mname)
        if fn is not None:
            owner = k
            break
    if fn is None:
        raise AnalysisError(f"C15: {cls.name}.{mname} not found")
    from ..engines import bytelayout
    lay = bytelayout.Layout(lambda e: ctx.prog.fold(e, fn.module, fn.cls), fn.node)
    res = lay.run([s for s in A.body_of(fn.node)])
    if res is None:
        raise AnalysisError(f"C15: {fn.qual} does not return a bytes concatenation the layout engine understands")
    out: List[str] = []
    for f in res:
        if f.kind == "bytes" and f.src == "self._get_common_data()":
            out += concat_seq(ctx, cls, "_get_common_data", depth + 1)
        elif f.kind == "bytes" and f.src == f"super().{mname}()":
            out += concat_seq(ctx, cls, mname, depth + 1, owner_after=owner)
        elif f.kind == "int":
            code = {1: "B", 2: "H", 4: "L", 8: "Q"}.get(f.size, "?")
            out.append(f"{'<' if f.order == 'little' else '>'}{code}:{_strip_self(f.src)}")
        elif f.kind == "bytes" and f.size is not None and f.code in ("s", "p"):
            out.append(f"<{f.size}{f.code}:{_strip_self(f.src)}")
        elif f.kind == "bytes":
            t = f.src
            out.append(_strip_self(t[:-len('.export()')]) + ".export()" if t.endswith(".export()") else _strip_self(t))
        elif f.kind in ("const", "zeros") and not f.size:
            continue
        else:
            out.append(repr(f.desc()))
    return out


def _strip_self(t: str) -> str:
    m = re.fullmatch(r"self\.(\w+\(\))", t)
    if m:
        return m.group(1)
    return t[5:] if t.startswith("self.") else t


def rule_response(ctx) -> None:
    """C15.response-binding: the response embeds credential and beacon and is signed over credential, beacon, (ECC) device UUID, challenge."""
    chk, prog = ctx.chk, ctx.prog
    m = ctx.m(DAR)
    vm = prog.module_consts(m).get("_version_mapping")
    if not isinstance(vm, ast.Dict):
        raise AnalysisError("C15.response-binding: _version_mapping not found")
    mapping = {prog.fold(k, m): norm(v) for k, v in zip(vm.keys, vm.values)}
    pv = ctx.cls(DC, "ProtocolVersion")
    versions = prog.fold(pv.consts.get("VERSIONS"), pv.module, pv)
    chk.decide(sorted(mapping) == sorted(versions), "C15.response-binding", f"{DAR}::_version_mapping", f"a response class for each of the {len(versions)} protocol versions", f"mapping {sorted(mapping)} vs versions {versions}", "", A.loc(DAR, vm))
    _rsa, ecc = key_tables(ctx)
    base = ctx.cls(DAR, "DebugAuthenticateResponse")
    for ver, cn in sorted(mapping.items()):
        cls = ctx.cls(DAR, cn)
        signed = concat_seq(ctx, cls, "_get_data_for_signature")
        exported = concat_seq(ctx, cls, "export")
        is_ecc = ver.startswith("2.")
        want_common = ["debug_credential.export()", "<L:auth_beacon"] + (["<16s:dac.uuid"] if is_ecc else [])
        chk.decide(signed == want_common + ["dac.challenge"], "C15.response-binding", f"{DAR}::{cn} (v{ver}) signed data",
                   f"signature over {' || '.join(want_common + ['dac.challenge'])}", f"signed sequence is {signed}", "credential || beacon || (ECC: the challenge's device UUID) || challenge vector", A.loc(DAR, cls.node))
        chk.decide(exported == want_common + ["_get_signature()"], "C15.response-binding", f"{DAR}::{cn} (v{ver}) exported data",
                   f"response = {' || '.join(want_common)} || signature", f"exported sequence is {exported}", "", A.loc(DAR, cls.node))
        if is_ecc:
            # curve of the response class agrees with the protocol minor
            kl = prog.fold(prog.find_const(cls, "KEY_LENGTH")[1], m, cls) if prog.find_const(cls, "KEY_LENGTH") else None
            bits = [b for b, mi in ecc.items() if f"2.{mi}" == ver]
            chk.decide(bool(bits) and kl == math.ceil(bits[0] / 8), "C15.response-binding", f"{DAR}::{cn} KEY_LENGTH", f"key length {kl} = coordinate size of P-{bits[0] if bits else '?'}", f"KEY_LENGTH {kl} for version {ver}", "", A.loc(DAR, cls.node))
        for mn in ("_get_signature", "export", "_get_data_for_signature"):
            f = prog.find_method(cls, mn)
            if f is None or f.cls is not base:
                chk.bad("C15.response-binding", f"{DAR}::{cn}.{mn}", f"overridden in {f.cls.name if f and f.cls else None}", "signing/export are the base-class definitions analysed here", A.loc(DAR, cls.node))
    gs = ctx.own(DAR, "DebugAuthenticateResponse", "_get_signature")
    sg = [c for c in A.calls_in(gs.node, "sign")]
    ok = len(sg) == 1 and norm(sg[0].func) == "self.sign_provider.sign" and [norm(a) for a in sg[0].args] == ["self._get_data_for_signature()"] and \
        norm(A.returns_in(gs.node)[-1].value) == norm(A.enclosing_stmt(sg[0]).targets[0])
    chk.decide(ok, "C15.response-binding", gs.qual, "returns sign_provider.sign(self._get_data_for_signature())", norm(gs.node)[:200], "", A.loc(DAR, gs.node))
    init = ctx.own(DAR, "DebugAuthenticateResponse", "__init__")
    stores = {norm(s.targets[0]): norm(s.value) for s in A.body_of(init.node) if isinstance(s, ast.Assign)}
    bad = [p for p in ("debug_credential", "auth_beacon", "dac", "sign_provider") if stores.get(f"self.{p}") != p]
    chk.decide(not bad, "C15.response-binding", init.qual, "credential, beacon, challenge and signer are stored as given", f"not stored as given: {bad}", "", A.loc(DAR, init.node))
    for mn, want in (("_load_from_config", {"debug_credential": "dc", "auth_beacon": "auth_beacon", "dac": "dac", "sign_provider": "dck"}),
                     ("create", {"debug_credential": "dc", "auth_beacon": "auth_beacon", "dac": "dac", "sign_provider": "dck_sign_provider"})):
        f = ctx.own(DAR, "DebugAuthenticateResponse", mn)
        ctor = [c for c in A.calls_in(f.node) if norm(c.func) in ("cls", "klass") and c.keywords]
        kws = {k.arg: norm(k.value) for k in ctor[0].keywords} if ctor else {}
        chk.decide(all(kws.get(k) == v for k, v in want.items()), "C15.response-binding", f.qual, "the given credential, beacon and challenge reach the response unchanged", f"{kws}", "", A.loc(DAR, f.node))
        sp = [c for c in A.calls_in(f.node, "get_signature_provider")]
        chk.decide(len(sp) == 1, "C15.response-binding", f.qual + " signer", "one signature provider built from the DCK configuration", f"{len(sp)} providers", "", A.loc(DAR, f.node))
    lf = ctx.own(DAR, "DebugAuthenticateResponse", "_load_from_config")
    chk.decide(norm(A.single_def(lf.node, "auth_beacon")) == "config.get('beacon', 0)", "C15.response-binding", lf.qual + " beacon", "beacon from configuration", "", "", A.loc(DAR, lf.node))
    # ELE v2: challenge and beacon are placed in the signed message
    l2 = ctx.own(DAR, "DebugAuthenticateResponseEdgelockEnclaveV2", "_load_from_config")
    t = norm(l2.node)
    ok = "'challenge_vector': dac.challenge.hex()" in t and "'authentication_beacon': auth_beacon" in t and "config['message'] = message" in t and "SignedMessage.load_from_config(config, search_paths)" in t
    chk.decide(ok, "C15.response-binding", l2.qual, "ELE v2: the challenge vector and beacon of this challenge go into the signed message (message signing decided under C06)", t[:200], "", A.loc(DAR, l2.node))
    chk.floor("C15.response-binding", 20)


def rule_dac(ctx) -> None:
    """C15.dac-wire: the challenge parser reads the documented fields in order; the RoT hash width follows the protocol version."""
    chk, prog = ctx.chk, ctx.prog
    cls = ctx.cls(DAC, "DebugAuthenticationChallenge")
    ex, pa = ctx.own(DAC, "DebugAuthenticationChallenge", "export"), ctx.own(DAC, "DebugAuthenticationChallenge", "parse")
    # export sequence from the byte layout (independent of how the bytes are assembled)
    from ..engines import bytelayout
    nf = bytelayout.Layout(lambda e: prog.fold(e, ex.module, ex.cls), ex.node).run(A.body_of(ex.node))
    if nf is None:
        raise AnalysisError("C15.dac-wire: export layout not understood")
    W: List[str] = []
    for f in nf:
        if f.kind == "int":
            W.append(f"{ {1: 'B', 2: 'H', 4: 'L', 8: 'Q'}.get(f.size, '?')}:{_strip_self(f.src)}")
        elif f.kind == "bytes":
            W.append("s:" + _strip_self(f.src))
        elif f.kind in ("const", "zeros") and not f.size:
            continue
        else:
            W.append(repr(f.desc()))
    ups = _unpack_targets(pa)
    if len(ups) != 2:
        raise AnalysisError("C15.dac-wire: head/tail unpack of DebugAuthenticationChallenge.parse not found")
    cm = _ctor_map(pa)
    hf = sym_format(A.single_def(pa.node, "format_head"))
    tf = sym_format(A.single_def(pa.node, "format_tail"))
    its = items_of(hf) + items_of(tf)
    names = ups[0][0] + ups[1][0]
    R = [f"{c}:{cm.get(n, '?' + n)}" for (c, _s), n in zip(its, names)]
    sizes = {cm.get(n): s for (c, s), n in zip(its, names) if c == "s"}
    off_ok = [norm(a) for a in ups[0][1].args] == ["format_head", "data"] and [norm(a) for a in ups[1][1].args] == ["format_tail", "data", "calcsize(format_head)"]
    chk.decide(R == W and len(its) == len(names) and off_ok and sizes == {"uuid": "16", "rotid_rkth_hash": "{hash_length}", "challenge": "32"}, "C15.dac-wire", f"{DAC}::DebugAuthenticationChallenge export<->parse",
               f"{len(W)} fields in the same order and width on both sides; UUID 16 B, RoT hash at the protocol's width, challenge 32 B; tail right after the head",
               f"export {W}; parse {R}; byte-string sizes {sizes}; offsets ok {off_ok}", "", A.loc(DAC, pa.node))
    hl = A.single_def(pa.node, "hash_length")
    chk.decide(hl is not None and norm(hl) == "cls.get_rot_hash_length(family_ambassador, version_major, version_minor)" and pa.node.body and
               _stmt_index(pa, "hash_length") < _swap_index(pa), "C15.dac-wire", pa.qual + " hash length", "RoT hash width from the received (major, minor) before any version swap", norm(hl) if hl is not None else "missing", "", A.loc(DAC, pa.node))
    # get_rot_hash_length agrees with the digest sizes the credential side uses
    gl = ctx.own(DAC, "DebugAuthenticationChallenge", "get_rot_hash_length")
    _rsa, ecc = key_tables(ctx)
    labels = hash_labels(ctx)
    rk = ctx.cls(DC, "RotMetaEcc")
    hs = prog.fold(rk.consts.get("HASH_SIZES"), rk.module, rk)
    from ..engines.ordereval import Evaluator, Unsupported
    probs = []
    n = 0
    for based_on_ele in (False, True):
        for always256 in (False, True):
            for major, minor in [(1, 0), (1, 1)] + [(2, mi) for mi in sorted(ecc.values())]:
                n += 1
                def hook(c: ast.Call, ev, _e=based_on_ele, _a=always256):
                    return None
                def sym(e: ast.expr, _e=based_on_ele, _a=always256):
                    t = norm(e)
                    if t == "DebugCredentialCertificate.dat_based_on_ele(family)":
                        return _e
                    if t.startswith("db.get_bool(DatabaseManager.DAT, 'dat_is_using_sha256_always'"):
                        return _a
                    if t == "get_db(family)":
                        return 0
                    return None
                ev = Evaluator({"family": "f", "major_ver": major, "minor_ver": minor}, sym=sym)
                try:
                    out = ev.run(A.body_of(gl.node))
                except Unsupported as u:
                    raise AnalysisError(f"C15.dac-wire: get_rot_hash_length left the evaluable fragment: {u}")
                got = out.value if out.kind == "return" else None
                if based_on_ele or always256 or major == 1:
                    want = 32
                else:
                    bits = [b for b, mi in ecc.items() if mi == minor][0]
                    want = labels[f"sha{hs[math.ceil(bits / 8)]}"]
                if got != want:
                    probs.append(f"v{major}.{minor} (ele={based_on_ele}, sha256_always={always256}): {got} B, the credential's RoT hash is {want} B")
    chk.decide(not probs, "C15.dac-wire", gl.qual, f"RoT hash width in the challenge equals the credential's RoT digest size in {n} (version, family flag) cases", "; ".join(probs[:3]), "", A.loc(DAC, gl.node))
    # validate_against_dc compares socc, uuid (or wildcard) and the RoT hash
    va = ctx.own(DAC, "DebugAuthenticationChallenge", "validate_against_dc")
    t = norm(va.node)
    ok = "if self.socc != dc.socc:" in t and "if self.uuid != dc.uuid and dc.uuid != bytes(len(dc.uuid)):" in t and "dc_rotkh = dc.calculate_hash()" in t and \
        "self.rotid_rkth_hash[x] == dc_rotkh[x] for x in range(len(self.rotid_rkth_hash))" in t
    chk.decide(ok, "C15.dac-wire", va.qual, "SOCC, UUID (unless the credential is a wildcard) and RoT hash of challenge and credential are compared", t[:200], "", A.loc(DAC, va.node))
    init = ctx.own(DAC, "DebugAuthenticationChallenge", "__init__")
    stores = {norm(s.targets[0]): norm(s.value) for s in A.body_of(init.node) if isinstance(s, ast.Assign)}
    bad = [p for p in init.params() if p != "self" and stores.get(f"self.{p}") != p]
    chk.decide(not bad, "C15.dac-wire", init.qual, "challenge fields stored under their own names", f"{bad}", "", A.loc(DAC, init.node))


def _stmt_index(fn: FuncInfo, name: str) -> int:
    for i, st in enumerate(A.body_of(fn.node)):
        if isinstance(st, ast.Assign) and norm(st.targets[0]) == name:
            return i
    return 10 ** 6


def _swap_index(fn: FuncInfo) -> int:
    for i, st in enumerate(A.body_of(fn.node)):
        if isinstance(st, ast.If) and "swapped" in norm(st.test):
            return i
    return 10 ** 6


def rule_dispatch(ctx) -> None:
    """C15.dispatch: version <-> class selection is consistent (RSA for major 1, ECC otherwise; version derived from the RoT key)."""
    chk = ctx.chk
    gc = ctx.own(DC, "DebugCredentialCertificate", "_get_class")
    t = norm(gc.node)
    ok = "if version.is_rsa(): return DebugCredentialCertificateRsa" in t.replace("\n", " ").replace("    ", "") or ("if version.is_rsa():" in t and "return DebugCredentialCertificateRsa" in t and t.rstrip().endswith("return DebugCredentialCertificateEcc"))
    chk.decide(ok, "C15.dispatch", gc.qual, "RSA class for protocol major 1, ECC class otherwise", t[-200:], "", A.loc(DC, gc.node))
    ir = ctx.own(DC, "ProtocolVersion", "is_rsa")
    chk.decide(norm(A.returns_in(ir.node)[-1].value) == "self.major == 1", "C15.dispatch", ir.qual, "is_rsa <=> major == 1", norm(ir.node)[:80], "", A.loc(DC, ir.node))
    for mn, idx in (("major", 0), ("minor", 1)):
        f = ctx.own(DC, "ProtocolVersion", mn)
        chk.decide(norm(A.returns_in(f.node)[-1].value) == f"int(self.version.split('.', 2)[{idx}])", "C15.dispatch", f.qual, f"{mn} = component {idx} of the version string", norm(f.node)[:100], "", A.loc(DC, f.node))
    fv = ctx.own(DC, "ProtocolVersion", "from_version")
    chk.decide("cls(f'{major}.{minor}')" in norm(fv.node), "C15.dispatch", fv.qual, "from_version(major, minor) builds 'major.minor'", norm(fv.node)[:120], "", A.loc(DC, fv.node))
    cf = ctx.own(DC, "DebugCredentialCertificate", "create_from_yaml_config")
    t = norm(cf.node)
    chk.decide("if version is None:" in t and "version = ProtocolVersion.from_public_key(public_key=rot_pub)" in t, "C15.dispatch", cf.qual + " version", "protocol version defaults to the one implied by the RoT key", "", "", A.loc(DC, cf.node))


def rule_response_fresh_signature(ctx) -> None:
    """C15.response-fresh-signature: the signature of an authentication response is made over the data of THIS export: on every returning
    path of DebugAuthenticateResponse._get_signature (and of its overrides) the returned value is the result of the signature provider
    called on `_get_data_for_signature()` in that same invocation - never a value kept from an earlier export, which would answer a new
    challenge (or carry a new beacon) with the signature of the old one."""
    base = ctx.cls(DAR, "DebugAuthenticateResponse")
    n = 0
    for k in [base] + list(ctx.prog.subclasses(base)):
        for f in k.methods.get("_get_signature", []):
            n += 1
            ctx.chk.analysed(f.qual)
            bad = None
            for q in A.spaths(f.node):
                if q.end != "return":
                    continue
                v = q.value
                ok = isinstance(v, ast.Call) and isinstance(v.func, ast.Attribute) and v.func.attr == "sign" and "sign_provider" in norm(v.func.value) \
                    and any(isinstance(c, ast.Call) and A.call_name(c) == "_get_data_for_signature" for a_ in v.args for c in ast.walk(a_))
                if not ok:
                    bad = q.vtext
                    break
            ctx.chk.decide(bad is None, "C15.response-fresh-signature", f.qual, "every returned signature is sign_provider.sign(_get_data_for_signature()) of this call",
                           f"a path returns `{(bad or '')[:100]}`: not a signature made over the current response data", "return self.sign_provider.sign(self._get_data_for_signature())", A.loc(DAR, f.node))
    ctx.chk.floor("C15.response-fresh-signature", 1)


def rule_rot_meta_roundtrip(ctx) -> None:
    """C15.rotmeta-roundtrip: the RoT meta records of a debug credential interpreted on model objects (E19): parse(export(x)) has the
    fields of x and exports to the same bytes (RSA table of hashes, the flags word)."""
    from ..engines import roundtrip

    def h(n: int) -> bytes:
        return bytes(range(n, n + 32))
    roundtrip.check_classes(ctx, "C15.rotmeta-roundtrip", DC, [
        ("RotMetaRSA", [{"rot_items": (h(1), h(2), h(3), h(4))}, {"rot_items": (h(1),)}]),
        ("RotMetaFlags", [{"used_root_cert": 2, "cnt_root_cert": 3}, {"used_root_cert": 0, "cnt_root_cert": 1}]),
    ], floor=2)


def run(ctx) -> None:
    ctx.chk.explain("C15: field-sequence model of the debug credential writers/readers/format builders (signed prefix, coverage of the required fields, "
                    "format/argument agreement, parse order and offsets, constructor routing), size-table agreement with the key types, RoT hash construction "
                    "evaluated for every supported key size and key count against the image tools' construction (C03), and concatenation-sequence model of the "
                    "authentication response per protocol version (credential || beacon || [challenge UUID] || challenge).")
    ctx.rule(rule_signed_prefix)
    ctx.rule(rule_size_tables)
    ctx.rule(rule_parse_order)
    ctx.rule(rule_flags)
    ctx.rule(rule_rot_hash)
    ctx.rule(c03.rule_key_hash, "C15")
    ctx.rule(rule_response)
    ctx.rule(rule_dac)
    ctx.rule(rule_dispatch)
    ctx.rule(rule_rot_meta_roundtrip)
    ctx.rule(rule_response_fresh_signature)
    ctx.chk.assumptions = ["the signature primitives sign/verify correctly (C08 decides the provider plumbing)",
                           "RSA RoT keys use the public exponent 65537 (RotMetaRSA hashes a fixed 3-byte exponent, RKHT the minimal encoding)",
                           "AHAB certificate / SRK table / signed message internals of the EdgeLock-enclave variants are decided under C06",
                           "not decided: that a verifier on the device accepts the signature; the numeric contents of keys"]


MANIFEST = {
    "level": "Static structural decision of the clauses visible in the code shape: (a) signed data == exported data minus the trailing signature and covers every field the property "
             "lists, for the RSA, ECC and EdgeLock-enclave credential classes; (b) parse reads each field from the position/width export wrote and routes it to the same constructor "
             "field; (c) fixed field widths agree with what the supported key sizes export; (d) the RoT hash construction is evaluated for every supported curve and key count and "
             "compared with the image tools' construction; (e) for every protocol version the response signs credential || beacon || [device UUID from the challenge] || challenge and "
             "exports the same prefix plus that signature. Round-trip equality of values and cryptographic validity are not executed.",
    "note": "Trusted: struct semantics, signature providers (C08), AHAB/SRK internals for the ELE variants (C06). Frozen tokens: canonical field names of the credential constructor.",
    "technique": "static analysis: AST field-sequence and concatenation-sequence extraction with MRO resolution, symbolic struct-format itemisation, constant folding of size/hash tables over the finite key-size domain, finite-model evaluation of RotMetaFlags, guarded paths",
}
