"""C01 Master Boot Image round trip and self-describing header (E2 flags, E14 windows, E15 db-classes, pipeline, E10 config keys)."""
from __future__ import annotations

import ast
from typing import Any, Dict, List, Optional, Set, Tuple

from ..core import astutil as A
from ..core.devdb import DevDB
from ..core.loader import AnalysisError
from ..core.report import norm
from ..core.symtab import ClassInfo
from ..engines import bitprov, wire

MBI = "spsdk/image/mbi/mbi.py"
MIX = "spsdk/image/mbi/mbi_mixin.py"
CLS = "spsdk/image/mbi/mbi_classes.py"

STAGES = ["encrypt", "post_encrypt", "sign", "finalize"]


# ------------------------------------------------------------------------------------ flags
def rule_flags(ctx) -> None:
    chk, prog = ctx.chk, ctx.prog
    ivt = ctx.cls(MIX, "Mbi_MixinIvt")
    cf = ctx.own(MIX, "Mbi_MixinIvt", "create_flags")
    fold = lambda e: prog.fold(e, ivt.module, ivt)  # noqa: E731
    fields = {"int(self.IMAGE_TYPE[0])": ("typ", 6), "self.trust_zone.type.tag": ("tz", 2), "self.image_subtype": ("sub", 2), "self.image_version": ("ver", 16)}
    flag_consts = {"self._HW_USER_KEY_EN_FLAG": "hw", "self._KEY_STORE_FLAG": "ks", "self._RELOC_TABLE_FLAG": "rt", "self._BOOT_IMAGE_VERSION_FLAG": "vf"}

    def sym(x: ast.expr):
        t = norm(x)
        if t in fields:
            return bitprov.var_bits(*fields[t])
        if t in flag_consts:
            v = fold(x)
            if isinstance(v, int) and v > 0 and v & (v - 1) == 0:
                pos = v.bit_length() - 1
                return [0] * pos + [(flag_consts[t], 0, False)] + [0] * (bitprov.W - pos - 1)
        return None
    contribs: List[Tuple[str, List]] = []
    try:
        for n in A.walk_no_nested(cf.node):
            if isinstance(n, ast.Assign) and norm(n.targets[0]) == "flags":
                contribs.append((norm(n.value), bitprov.BitEval({}, fold, sym).ev(n.value)))
            elif isinstance(n, ast.AugAssign) and norm(n.target) == "flags" and isinstance(n.op, ast.BitOr):
                contribs.append((norm(n.value), bitprov.BitEval({}, fold, sym).ev(n.value)))
    except bitprov.SymbolicShift as e:
        chk.bad("C01.flags", cf.qual, f"shift amount depends on a value: {e}", "fields sit at fixed positions", A.loc(MIX, cf.node))
        return
    except bitprov.Top as e:
        raise AnalysisError(f"C01.flags: create_flags left the bit-provenance fragment: {e}")
    if len(contribs) < 8:
        raise AnalysisError(f"C01.flags: only {len(contribs)} flag contributions found")
    union: List[Any] = [0] * bitprov.W
    overlap = None
    for txt, bits in contribs:
        for i, b in enumerate(bits):
            if b != 0:
                if union[i] != 0 and union[i] != b and overlap is None:
                    overlap = (i, txt)
                union[i] = b
    chk.decide(overlap is None, "C01.flags", cf.qual + " disjoint", f"{len(contribs)} contributions occupy pairwise disjoint bit positions", f"bit {overlap[0]} is written by two fields (second: {overlap[1]})" if overlap else "", "disjoint fields", A.loc(MIX, cf.node))
    layout = {v: sorted(i for i, b in enumerate(union) if isinstance(b, tuple) and b[0] == v) for v in ("typ", "tz", "sub", "ver", "hw", "ks", "rt", "vf")}
    chk.extra["ivt_flags_layout"] = layout
    decoders = {"get_image_type": ("typ", 6), "get_tz_type": ("tz", 2), "get_sub_type": ("sub", 2), "get_image_version": ("ver", 16), "get_hw_key_enabled": ("hw", 1),
                "get_key_store_presented": ("ks", 1), "get_app_table_presented": ("rt", 1)}
    for name, (var, width) in decoders.items():
        fn = ctx.own(MIX, "Mbi_MixinIvt", name)
        r = A.returns_in(fn.node)
        e = A.inline_locals(fn.node, r[-1].value)

        def symd(x: ast.expr):
            t = norm(x)
            if t in ("cls.get_flags_from_data(data)", "flags"):
                return list(union)
            return None
        clsfold = lambda x: prog.fold(x, ivt.module, ivt)  # noqa: E731
        try:
            got = bitprov.BitEval({}, clsfold, symd).ev(e)
        except (bitprov.Top, bitprov.SymbolicShift) as ex:
            raise AnalysisError(f"C01.flags: {name} left the fragment: {ex}")
        fm = bitprov.field_of(got, var)
        others = [b for b in got if isinstance(b, tuple) and b[0] != var]
        ok = len(layout[var]) == width and all(fm.get(i) == (i, False) for i in range(width)) and not others
        chk.decide(ok, "C01.flags", fn.qual, f"returns exactly the {width} bit(s) create_flags wrote for `{var}` (positions {layout[var]})", f"decodes bits {sorted(fm.items())[:18]} plus {len(others)} foreign bit(s); writer positions {layout[var]}", f"decode(encode({var})) = {var}", A.loc(MIX, fn.node))
    giv = ctx.own(MIX, "Mbi_MixinIvt", "get_image_version")
    g = [s for s in A.body_of(giv.node) if isinstance(s, ast.If) and norm(s.test) == "flags & cls._BOOT_IMAGE_VERSION_FLAG == 0"]
    chk.decide(bool(g) and norm(g[0].body[-1]) == "return 0", "C01.flags", giv.qual + " presence", "version is read only when the version flag is set", "", "", A.loc(MIX, giv.node))
    chk.floor("C01.flags", 8)


def rule_ivt_words(ctx) -> None:
    chk, prog = ctx.chk, ctx.prog
    ivt = ctx.cls(MIX, "Mbi_MixinIvt")
    fold = lambda e: prog.fold(e, ivt.module, ivt)  # noqa: E731
    names = {"IVT_IMAGE_LENGTH_OFFSET": 0x20, "IVT_IMAGE_FLAGS_OFFSET": 0x24, "IVT_CRC_CERTIFICATE_OFFSET": 0x28, "IVT_LOAD_ADDR_OFFSET": 0x34}
    for k, v in names.items():
        chk.decide(fold(ivt.consts.get(k)) == v, "C01.ivt-words", f"{MIX}::Mbi_MixinIvt.{k}", f"= {v:#x}", f"{fold(ivt.consts.get(k))}", f"{v:#x}", A.loc(MIX, ivt.node))

    def windows(fn) -> Dict[str, str]:
        out = {}
        for n in A.walk_no_nested(fn.node):
            if isinstance(n, ast.Assign) and isinstance(n.targets[0], ast.Subscript) and isinstance(n.targets[0].slice, ast.Slice):
                sl = n.targets[0].slice
                lo, hi = norm(sl.lower), norm(sl.upper)
                base = lo.split(".")[-1]
                if hi.replace(" ", "") == (lo + "+4").replace(" ", ""):
                    out[base] = norm(A.inline_locals(fn.node, n.value))
                else:
                    out[base] = f"BAD-WINDOW[{lo}:{hi}]"
        return out
    upd = ctx.own(MIX, "Mbi_MixinIvt", "update_ivt")
    cln = ctx.own(MIX, "Mbi_MixinIvt", "clean_ivt")
    wu, wc = windows(upd), windows(cln)
    want = {"IVT_IMAGE_FLAGS_OFFSET": "struct.pack('<I', self.create_flags())", "IVT_IMAGE_LENGTH_OFFSET": "struct.pack('<I', total_len)",
            "IVT_CRC_CERTIFICATE_OFFSET": "struct.pack('<I', 0 if int(self.IMAGE_TYPE[0]) == 0 else crc_val_cert_offset)",
            "IVT_LOAD_ADDR_OFFSET": "struct.pack('<I', self.load_address if hasattr(self, 'load_address') else 0)"}
    want_alt = dict(want)
    want_alt["IVT_CRC_CERTIFICATE_OFFSET"] = "struct.pack('<I', crc_val_cert_offset)"
    crc_def = [norm(n.value) for n in A.walk_no_nested(upd.node) if isinstance(n, ast.Assign) and norm(n.targets[0]) == "crc_val_cert_offset"]
    if wu == want_alt and crc_def == ["0 if int(self.IMAGE_TYPE[0]) == 0 else crc_val_cert_offset"]:
        wu = dict(want)
    chk.decide(wu == want, "C01.ivt-words", upd.qual, "flags, total length, CRC/cert offset and load address are written little-endian into their own 4-byte windows", f"{wu}", f"{want}", A.loc(MIX, upd.node))
    zero4 = lambda t: A.const_bytes(ast.parse(t, mode="eval").body) == bytes(4)  # noqa: E731
    chk.decide(set(wc) == set(wu) and all(zero4(v) for v in wc.values()), "C01.ivt-words", cln.qual, "clean_ivt clears exactly the four windows update_ivt writes", f"{wc}", "", A.loc(MIX, cln.node))
    readers = {"get_flags_from_data": "IVT_IMAGE_FLAGS_OFFSET", "get_cert_block_offset_from_data": "IVT_CRC_CERTIFICATE_OFFSET", "get_load_address_from_data": "IVT_LOAD_ADDR_OFFSET"}
    for name, const in readers.items():
        fn = ctx.own(MIX, "Mbi_MixinIvt", name)
        r = A.returns_in(fn.node)
        t = norm(r[-1].value) if r else ""
        ok = t == f"int.from_bytes(data[cls.{const}:cls.{const} + 4], Endianness.LITTLE.value)"
        chk.decide(ok, "C01.ivt-words", fn.qual, f"reads the little-endian word at {const}", t, "", A.loc(MIX, fn.node))
    ctl = ctx.own(MIX, "Mbi_MixinIvt", "check_total_length")
    t = norm(ctl.node)
    chk.decide("data[cls.IVT_IMAGE_LENGTH_OFFSET:cls.IVT_IMAGE_LENGTH_OFFSET + 4]" in t and "Endianness.LITTLE.value" in t and "if total_len > len(data)" in t, "C01.ivt-words", ctl.qual, "total length word is read from its window and bounds the data", "", "", A.loc(MIX, ctl.node))
    cu = ctx.own(MIX, "Mbi_MixinIvt", "update_crc_val_cert_offset")
    w = windows(cu)
    chk.decide(w == {"IVT_CRC_CERTIFICATE_OFFSET": "struct.pack('<I', crc_val_cert_offset)"}, "C01.ivt-words", cu.qual, "CRC word is written into the CRC/cert window", f"{w}", "", A.loc(MIX, cu.node))


# ------------------------------------------------------------------------------ db classes
def _mixin_model(ctx) -> Dict[str, ClassInfo]:
    return {c.name: c for c in ctx.prog.classes.values() if c.module.relpath == MIX and c.name.startswith("Mbi_")}


def _compose(prog, mixins: List[ClassInfo]) -> List[ClassInfo]:
    """MRO of type(name, (MasterBootImage, *mixins)) restricted to the mixin module: C3 merge."""
    seqs = [prog.mro(m) for m in mixins] + [list(mixins)]
    res: List[ClassInfo] = []
    seqs = [list(s) for s in seqs if s]
    while seqs:
        cand = None
        for s in seqs:
            c = s[0]
            if not any(c in t[1:] for t in seqs):
                cand = c
                break
        if cand is None:
            cand = seqs[0][0]
        res.append(cand)
        seqs = [[x for x in s if x is not cand] for s in seqs]
        seqs = [s for s in seqs if s]
    return res


def rule_db_classes(ctx) -> None:
    chk, prog = ctx.chk, ctx.prog
    db = DevDB(ctx.repo)
    model = _mixin_model(ctx)
    export_base = ctx.cls(MIX, "Mbi_ExportMixin")
    mbi_consts = prog.module_consts(ctx.m(MBI))
    targets = prog.fold(mbi_consts.get("MAP_IMAGE_TARGETS"), ctx.m(MBI))
    auths = prog.fold(mbi_consts.get("MAP_AUTHENTICATIONS"), ctx.m(MBI))
    if not isinstance(targets, dict) or not isinstance(auths, dict):
        raise AnalysisError("C01.db-classes: MAP_IMAGE_TARGETS / MAP_AUTHENTICATIONS do not fold")
    seen_comp: Dict[Tuple[str, ...], str] = {}
    ncls = 0
    ambiguous_seen: Set[Tuple] = set()
    for dev, rev, f in db.iter_features("mbi"):
        classes = f.get("mbi_classes") or {}
        images = f.get("images") or {}
        where = f"spsdk/data/devices/{dev}/database.yaml mbi ({rev})"
        dbfile = f"spsdk/data/devices/{dev}/database.yaml"
        for cname, cd in classes.items():
            ncls += 1
            it = cd.get("image_type")
            itv = prog.fold(mbi_consts.get(it), ctx.m(MBI)) if it in mbi_consts else None
            if not (isinstance(itv, tuple) and isinstance(itv[0], int)):
                chk.bad("C01.db-classes", f"{where} {cname}", f"image_type `{it}` is not an image-type constant of mbi.py", "a module constant of spsdk/image/mbi/mbi.py", dbfile)
            mix = cd.get("mixins") or []
            unknown = [m for m in mix if m not in model]
            if unknown:
                chk.bad("C01.db-classes", f"{where} {cname}", f"mixins {unknown} do not exist in mbi_mixin", "existing mixin classes", dbfile)
                continue
            key = tuple(mix) + (it,)
            if key in seen_comp:
                continue
            seen_comp[key] = f"{dev}/{cname}"
            mro = _compose(prog, [model[m] for m in mix])
            # exactly one provider ahead of the Mbi_ExportMixin defaults
            for meth, need in (("collect_data", True), ("disassemble_image", True), ("encrypt", False), ("post_encrypt", False), ("sign", False), ("finalize", False)):
                provider = next((k for k in mro if k.method(meth) is not None), None)
                if need and (provider is None or provider is export_base):
                    chk.bad("C01.db-classes", f"{where} {cname} {mix}", f"no mixin provides `{meth}`: the no-op default of Mbi_ExportMixin is used (round trip loses the application)", f"a mixin implementing {meth}", dbfile)
            cd_p = next((k for k in mro if k.method("collect_data") is not None), None)
            di_p = next((k for k in mro if k.method("disassemble_image") is not None), None)
            if cd_p is not None and di_p is not None and cd_p is not export_base and di_p is not export_base:
                related = cd_p is di_p or cd_p in prog.mro(di_p) or di_p in prog.mro(cd_p)
                if not related:
                    chk.bad("C01.db-classes", f"{where} {cname} {mix}", f"collect_data comes from {cd_p.name} but disassemble_image from {di_p.name}", "assembly and disassembly from the same export mixin", dbfile)
            # the zero-total-length IVT is only legitimate for unauthenticated plain images
            if "Mbi_MixinIvtZeroTotalLength" in mix and it != "PLAIN_IMAGE":
                chk.bad("C01.db-classes", f"{where} {cname}", f"image type {it} uses Mbi_MixinIvtZeroTotalLength: the IVT total-length word is written as 0 although the image is authenticated", "the real total length for CRC/signed/encrypted images", dbfile)
            # a composition that carries an HMAC (load-to-RAM authenticated images): everything behind the IVT is shifted by the HMAC
            # (and the key store when the image flags announce one), so every mixin of it that locates data from the certificate
            # block offset must apply that shift in mix_parse - the siblings agree (C01.parse-offset-siblings)
            if any(k.name.startswith("Mbi_MixinHmac") for k in mro):
                for k in mro:
                    lst0 = k.methods.get("mix_parse")
                    if not lst0 or "get_cert_block_offset" not in norm(lst0[0].node):
                        continue
                    if next((kk for kk in mro if kk.method("mix_parse") is not None and kk is k), None) is None:
                        continue
                    t0 = norm(lst0[0].node)
                    gp0 = A.gpaths(lst0[0].node)
                    shifted = "self.HMAC_SIZE" in t0 and "KeyStore.KEY_STORE_SIZE" in t0 and any(q.assumes("hasattr(self, 'hmac_key')", True) for q in gp0) \
                        and any(q.assumes("self.ivt_table.get_key_store_presented(data)", True) for q in gp0)
                    key2 = ("offs", k.name)
                    if key2 in seen_comp:
                        continue
                    seen_comp[key2] = where
                    chk.decide(shifted, "C01.parse-offset-siblings", f"{MIX}::{k.name}.mix_parse", f"offsets derived from the certificate block offset are shifted by HMAC_SIZE (+ KEY_STORE_SIZE when announced) in compositions with an HMAC (first seen: {where} {cname})",
                               f"{k.name}.mix_parse locates data from get_cert_block_offset(data) without the HMAC / key store shift, but {where} {cname} inserts an HMAC behind the IVT", "offset += self.HMAC_SIZE (+ KeyStore.KEY_STORE_SIZE)", dbfile)
            # attributes the export mixins use without hasattr() must be provided by some mixin of the class
            provided: Set[str] = set()
            for k in mro:
                provided.update(k.methods)
                provided.update(k.consts)
                provided.update(k.annots)
                for lst2 in k.methods.values():
                    for f2 in lst2:
                        for n3 in ast.walk(f2.node):
                            if isinstance(n3, ast.Attribute) and isinstance(n3.ctx, ast.Store) and isinstance(n3.value, ast.Name) and n3.value.id == "self":
                                provided.add(n3.attr)
                nm = k.consts.get("NEEDED_MEMBERS")
                v = prog.fold(nm, k.module, k) if nm is not None else None
                if isinstance(v, dict):
                    provided.update(v)
            provided.update({"total_len", "app_len", "total_length_for_cert_block", "family", "revision", "search_paths", "dek", "IMAGE_TYPE", "rkth", "validate", "data_to_sign", "app"})
            # ... and must still be there on an object that was PARSED (not loaded from a configuration): class-level values,
            # NEEDED_MEMBERS defaults and what the parse phase stores - an annotation or a store in mix_load_from_config is not enough
            after_parse: Set[str] = set()
            for k in mro:
                after_parse.update(k.methods)
                after_parse.update(k.consts)
                for mname2, lst2 in k.methods.items():
                    if mname2 in ("mix_load_from_config", "mix_get_config", "load_from_config"):
                        continue
                    for f2 in lst2:
                        for n3 in ast.walk(f2.node):
                            if isinstance(n3, ast.Attribute) and isinstance(n3.ctx, ast.Store) and isinstance(n3.value, ast.Name) and n3.value.id == "self":
                                after_parse.add(n3.attr)
                nm = k.consts.get("NEEDED_MEMBERS")
                v = prog.fold(nm, k.module, k) if nm is not None else None
                if isinstance(v, dict):
                    after_parse.update(v)
            after_parse.update({"total_len", "app_len", "total_length_for_cert_block", "family", "revision", "search_paths", "dek", "IMAGE_TYPE", "rkth", "validate", "data_to_sign", "app"})
            for k in mro:
                if not (k is export_base or export_base in prog.mro(k)):
                    continue
                for mname, lst in k.methods.items():
                    if mname not in ("collect_data", "disassemble_image", "encrypt", "post_encrypt", "sign", "finalize", "img_len"):
                        continue
                    if next((kk for kk in mro if kk.method(mname) is not None), None) is not k:
                        continue  # overridden by an earlier class of this composition
                    guarded = {c.args[1].value for c in A.calls_in(lst[0].node, "hasattr") if len(c.args) == 2 and isinstance(c.args[1], ast.Constant)}
                    for an in [x for x in ast.walk(lst[0].node) if isinstance(x, ast.Attribute)]:
                        a = A.dotted(an)
                        if not a:
                            continue
                        parts = a.split(".")
                        # reads under a condition derived from hasattr() (e.g. `bca_present = hasattr(self, "bca") and ...`) are probing, not requirements
                        cond_guard = any(isinstance(anc, (ast.If, ast.IfExp)) and "hasattr(" in norm(A.inline_locals(lst[0].node, anc.test)) for anc in A.ancestors(an))
                        if cond_guard:
                            continue
                        if parts[0] == "self" and len(parts) >= 2 and parts[1] not in provided and parts[1] not in guarded and not parts[1].startswith("__"):
                            chk.bad("C01.db-classes", f"{where} {cname} {mix}", f"{k.name}.{mname} reads self.{parts[1]} which no mixin of this class provides", "every attribute read without hasattr() is provided by the composition", dbfile)
                        elif parts[0] == "self" and len(parts) >= 2 and parts[1] not in after_parse and parts[1] not in guarded and not parts[1].startswith("__") and mname not in ("disassemble_image",):
                            chk.bad("C01.parse-restores", f"{k.name}.{mname} self.{parts[1]}", f"{k.name}.{mname} reads self.{parts[1]}, which only mix_load_from_config sets: exporting a PARSED image of {where} {cname} raises AttributeError",
                                    "mix_parse (or NEEDED_MEMBERS) restores every attribute the export path reads", dbfile)
        # images table: names classes, keys known
        for tgt, amap in images.items():
            if tgt not in targets.get("targets", {}):
                chk.bad("C01.db-classes", where, f"image target `{tgt}` is not a key of MAP_IMAGE_TARGETS", "", dbfile)
            for auth, cn in (amap or {}).items():
                if auth not in auths:
                    chk.bad("C01.db-classes", where, f"authentication `{auth}` is not a key of MAP_AUTHENTICATIONS", "", dbfile)
                if cn not in classes:
                    chk.bad("C01.db-classes", where, f"images.{tgt}.{auth} names `{cn}` which is not in mbi_classes", "an mbi_classes entry", dbfile)
        # parse dispatch is by image type: two offered images with different compositions must not share one
        if f.get("fixed_image_type") is None or RS_int(f.get("fixed_image_type")) < 0:
            bytype: Dict[str, List[Tuple[str, Tuple]]] = {}
            for tgt, amap in images.items():
                for auth, cn in (amap or {}).items():
                    if cn in classes:
                        bytype.setdefault(classes[cn].get("image_type"), []).append((cn, tuple(classes[cn].get("mixins") or [])))
            for it, lst in bytype.items():
                comps = {m for _c, m in lst}
                if len(comps) > 1:
                    names = sorted({c for c, _m in lst})
                    k2 = (dev, it, tuple(names))
                    if k2 in ambiguous_seen:
                        continue
                    ambiguous_seen.add(k2)
                    chk.bad("C01.dispatch-injective", f"spsdk/data/devices/{dev}/database.yaml", f"image type {it} is shared by classes {names} with different mixin sets: parse() picks the first, the other one does not round-trip",
                            "one composition per image type within a family", dbfile)
    chk.ok("C01.db-classes", "device database mbi_classes", f"{ncls} class entries, {len(seen_comp)} distinct (mixins, image type) compositions: mixins and image types resolve, one assembly/disassembly provider, attributes provided, ZeroTotalLength only on plain images, images tables resolve")
    chk.exhaustive_rules.update({"C01.db-classes", "C01.dispatch-injective"})
    chk.extra["mbi_compositions"] = len(seen_comp)
    if len(seen_comp) < 30:
        raise AnalysisError(f"C01.db-classes: only {len(seen_comp)} compositions found")


def RS_int(v: Any) -> int:
    from ..core.regspec import to_int
    r = to_int(v, -1)
    return -1 if r is None else r


# --------------------------------------------------------------------------------- pipeline
def rule_pipeline(ctx) -> None:
    chk = ctx.chk
    ex = ctx.own(MBI, "MasterBootImage", "export_image")
    pa = ctx.own(MBI, "MasterBootImage", "parse")

    def stage_calls(fn, recv: str) -> List[Tuple[str, str]]:
        out = []
        for c in sorted(A.calls_in(fn.node), key=lambda c: (c.lineno, c.col_offset)):
            if isinstance(c.func, ast.Attribute) and norm(c.func.value) == recv and c.func.attr in STAGES + ["collect_data", "disassemble_image"]:
                out.append((c.func.attr, norm(c.args[-1]) if c.args else ""))
        return out
    e = stage_calls(ex, "self")
    p = stage_calls(pa, "mbi_cls")
    want_e = [("collect_data", "")] + [(s, "False") for s in STAGES]
    want_p = [(s, "True") for s in reversed(STAGES)] + [("disassemble_image", "decrypted_image.export()")]
    chk.decide(e == want_e, "C01.pipeline", ex.qual, "collect, encrypt, post_encrypt, sign, finalize (forward)", f"{e}", f"{want_e}", A.loc(MBI, ex.node))
    chk.decide(p == want_p, "C01.pipeline", pa.qual, "finalize, sign, post_encrypt, encrypt reverted in exactly the reverse order, then disassembly", f"{p}", f"{want_p}", A.loc(MBI, pa.node))
    # each stage's output feeds the next one
    for fn, recv in ((ex, "self"), (pa, "mbi_cls")):
        calls = [c for c in sorted(A.calls_in(fn.node), key=lambda c: c.lineno) if isinstance(c.func, ast.Attribute) and norm(c.func.value) == recv and c.func.attr in STAGES]
        prev_var = None
        ok = True
        for c in calls:
            st = A.enclosing_stmt(c)
            arg = norm(c.args[0])
            if prev_var is not None and arg != prev_var:
                ok = False
            prev_var = norm(st.targets[0]) if isinstance(st, ast.Assign) else None
        chk.decide(ok, "C01.pipeline", fn.qual + " chaining", "each stage consumes the previous stage's result", "a stage does not consume its predecessor's output", "", A.loc(MBI, fn.node))
    # class selection by IVT image type
    # (the instantiated class is the first element of the mbi_classes entry whose IMAGE_TYPE[0] equals the type read from the data;
    #  no match raises - whether written with sentinels + `is None` or with tuple unpacking + for/else)
    ctor = A.single_def(pa.node, "mbi_cls")
    cvar = ctor.func.id if isinstance(ctor, ast.Call) and isinstance(ctor.func, ast.Name) else None
    sel_ok, why = False, "constructor variable not found"
    for lp in [n for n in ast.walk(pa.node) if isinstance(n, ast.For) and norm(n.iter) == "mbi_classes.values()"]:
        for iff in [n for n in ast.walk(lp) if isinstance(n, ast.If) and isinstance(n.test, ast.Compare) and len(n.test.ops) == 1 and isinstance(n.test.ops[0], ast.Eq)]:
            sides = [norm(iff.test.left), norm(iff.test.comparators[0])]
            if "image_type" not in sides:
                continue
            other = sides[1 - sides.index("image_type")]
            if not other.endswith(".IMAGE_TYPE[0]"):
                continue
            elem = other[: -len(".IMAGE_TYPE[0]")]
            first = norm(lp.target.elts[0]) if isinstance(lp.target, ast.Tuple) and lp.target.elts else f"{norm(lp.target)}[0]"
            binds = elem == cvar and first == cvar or (elem == first and any(isinstance(x, ast.Assign) and norm(x) == f"{cvar} = {elem}" for x in iff.body))
            miss = (bool(lp.orelse) and A.always_raises(lp.orelse)) or any(q.end == "raise" and q.assumes(f"{cvar} is None", True) for q in A.gpaths(pa.node))
            sel_ok = binds and miss
            why = f"compares {other}; binds {binds}; unmatched type raises {miss}"
    it = A.single_def(pa.node, "image_type")
    it_ok = it is not None and norm(it) in ("MasterBootImage.get_image_type(family, data, revision)", "cls.get_image_type(family, data, revision)")
    chk.decide(sel_ok and it_ok, "C01.pipeline", pa.qual + " dispatch", "class is selected by the image type read from the data", f"{why}; image_type = {norm(it) if it is not None else None}", "", A.loc(MBI, pa.node))
    # length sums
    cls = ctx.cls(MBI, "MasterBootImage")
    for prop, call, filt in (("total_len", "base.mix_len(self)", None), ("app_len", "base.mix_app_len(self)", None), ("total_length_for_cert_block", "base.mix_len(self)", "base.COUNT_IN_LEGACY_CERT_BLOCK_LEN")):
        fn = ctx.own(MBI, "MasterBootImage", prop)
        red = A.reduction(fn.node)  # loop-with-accumulator and sum(<generator>) have the same summary
        want = {"init": "0", "elem": call.replace("base.", "_v."), "iter": "self._get_mixins()", "filt": [filt.replace("base.", "_v.")] if filt else []}
        chk.decide(red == want, "C01.len-sums", fn.qual, f"sum of {call} over all mixins" + (f" with {filt}" if filt else ""), f"{red}", f"{want}", A.loc(MBI, fn.node))
    gm = ctx.own(MBI, "MasterBootImage", "_get_mixins")
    r = A.returns_in(gm.node)
    chk.decide(bool(r) and norm(r[-1].value) == "[x for x in cls.__bases__ if issubclass(x, mbi_mixin.Mbi_Mixin)]", "C01.len-sums", gm.qual, "all mixin bases in declaration order", norm(r[-1]) if r else "", "", A.loc(MBI, gm.node))


# --------------------------------------------------------------------- append/cut symmetry
def rule_append_cut(ctx) -> None:
    chk, prog = ctx.chk, ctx.prog
    # offset polarity: a value from get_cert_block_offset* is an offset from the image start: never negated in a slice bound
    n = 0
    m = ctx.m(MIX)
    for sl in [x for x in ast.walk(m.tree) if isinstance(x, ast.Slice)]:
        for bound in (sl.lower, sl.upper):
            if bound is None:
                continue
            fn = [a for a in A.ancestors(sl) if isinstance(a, ast.FunctionDef)]
            e = A.inline_locals(fn[0], bound) if fn else bound
            if "get_cert_block_offset" not in norm(e):
                continue
            n += 1
            neg = any(isinstance(u, ast.UnaryOp) and isinstance(u.op, ast.USub) and "get_cert_block_offset" in norm(u.operand) for u in ast.walk(e)) or \
                any(isinstance(b, ast.BinOp) and isinstance(b.op, ast.Sub) and "get_cert_block_offset" in norm(b.right) for b in ast.walk(e))
            cname = [a for a in A.ancestors(sl) if isinstance(a, ast.ClassDef)]
            where = f"{MIX}::{cname[0].name if cname else '?'}.{fn[0].name if fn else '?'}"
            chk.decide(not neg, "C01.offset-polarity", f"{where} `{norm(bound)[:50]}`", "certificate block offset is used as an offset from the image start", f"slice bound {norm(e)[:90]} negates the offset", "image[: offset] (never -offset)", A.loc(MIX, sl))
    chk.floor("C01.offset-polarity", 4)
    # TrustZone: appended iff non-empty, cut by the same length
    for cn in ("Mbi_ExportMixinAppTrustZone", "Mbi_ExportMixinAppTrustZoneCertBlockEncrypt"):
        cd = ctx.own(MIX, cn, "collect_data")
        di = ctx.own(MIX, cn, "disassemble_image")
        app_ok = "tz = self.trust_zone.export()" in norm(cd.node) and any(isinstance(s, ast.If) and norm(s.test) == "len(tz)" and "binary=tz" in norm(s) for s in ast.walk(cd.node))
        tl = A.single_def(di.node, "tz_len")
        cut_ok = tl is not None and norm(tl) == "len(self.trust_zone.export())" and any(isinstance(s, ast.If) and norm(s.test) == "tz_len" and norm(s.body[0]) == "image = image[:-tz_len]" for s in ast.walk(di.node))
        chk.decide(app_ok and cut_ok, "C01.cut-what-you-append", f"{MIX}::{cn} TrustZone", "TrustZone block is appended when non-empty and removed with len(trust_zone.export())", f"append {app_ok} cut {cut_ok}", "", A.loc(MIX, di.node))
    # signatures: appended after signing the exported image, removed by cert_block.signature_size
    for cn, cb in (("Mbi_ExportMixinRsaSign", "CertBlockV1"), ("Mbi_ExportMixinEccSign", "CertBlockV21")):
        sg = ctx.own(MIX, cn, "sign")
        gp = A.gpaths(sg.node)
        rev = [q for q in gp if q.assumes("revert", True)]
        # every returning revert path cuts exactly signature_size bytes; a cert block of another type never reaches the cut
        cut = any(q.end == "return" for q in rev) and all(q.has("image.binary = image.binary[:-self.cert_block.signature_size]") for q in rev if q.end == "return")
        typ = any(q.end == "raise" and q.assumes(f"isinstance(self.cert_block, {cb})", False) for q in rev) and \
            all(q.assumes(f"isinstance(self.cert_block, {cb})", True) for q in rev if q.end == "return")
        app = [c for c in A.calls_in(sg.node, "append_image")]
        gs = [c for c in A.calls_in(sg.node, "get_signature")]
        arg = norm(A.inline_locals(sg.node, gs[0].args[0])) if gs else ""
        dts = [norm(n.value) for n in A.walk_no_nested(sg.node) if isinstance(n, ast.Assign) and norm(n.targets[0]) == "self.data_to_sign"]
        signed_ok = arg == "image.export()" or (arg == "self.data_to_sign" and dts == ["image.export()"])
        fwd = bool(app) and bool(gs) and signed_ok and gs[0].lineno < app[0].lineno and "binary=signature" in norm(app[0])
        chk.decide(cut and fwd and typ, "C01.cut-what-you-append", f"{MIX}::{cn}.sign", "signature over image.export() is appended; revert removes cert_block.signature_size bytes", f"forward {fwd} (signed `{arg}`), revert cut {cut}, type guard {typ}", "", A.loc(MIX, sg.node))
    # HMAC / key store window
    fz = ctx.own(MIX, "Mbi_ExportMixinHmacKeyStoreFinalize", "finalize")
    # finalize evaluated on models of an image tree (methods of the mixin are stepped into): forward inserts HMAC (+ key store) at
    # HMAC_OFFSET - between two sub-images or by splitting the one that spans it -, revert cuts exactly that window out again
    from ..engines import ordereval as _oe
    Obj = _oe.Obj
    fzc = ctx.cls(MIX, "Mbi_ExportMixinHmacKeyStoreFinalize")
    HM, KS = b"\xAA" * 32, b"\xBB" * 1424
    sym_map = {"KeyStore.KEY_STORE_SIZE": 1424}

    def img(name, binary=None, subs=(), offset=0):
        o = Obj(_bi=True, name=name, binary=binary, sub_images=tuple(subs), offset=offset)
        return o

    def flat(o) -> bytes:
        out = bytearray(o.__dict__["binary"] or b"")
        for s_ in o.__dict__["sub_images"]:
            d = flat(s_)
            off = s_.__dict__["offset"]
            if len(out) < off + len(d):
                out.extend(bytes(off + len(d) - len(out)))
            out[off:off + len(d)] = d
        return bytes(out)

    def cv_fz(c: ast.Call, ev):
        f = norm(c.func)
        if f == "BinaryImage":
            kw = {k.arg: ev.ev(k.value) for k in c.keywords}
            if c.args:
                kw["name"] = ev.ev(c.args[0])
            return img(kw.get("name"), kw.get("binary"))
        if isinstance(c.func, ast.Attribute) and c.func.attr in ("append_image", "export") or f == "len":
            if f == "len" and len(c.args) == 1:
                try:
                    o = ev.ev(c.args[0])
                except _oe.Unsupported:
                    return _oe.NOT_MODELLED
                return len(flat(o)) if isinstance(o, Obj) and "_bi" in o.__dict__ else _oe.NOT_MODELLED
            if f == "len":
                return _oe.NOT_MODELLED
            o = ev.ev(c.func.value)
            if isinstance(o, Obj) and "_bi" in o.__dict__:
                if c.func.attr == "export":
                    return flat(o)
                x = ev.ev(c.args[0])
                x.__dict__["offset"] = len(flat(o))
                o.__dict__["sub_images"] = o.__dict__["sub_images"] + (x,)
                return None
            if isinstance(o, Obj) and "_ks" in o.__dict__ and c.func.attr == "export":
                return KS
        if f == "self.compute_hmac" and len(c.args) == 1:
            return HM if ev.ev(c.args[0]) == RAW[:64] else b"\x00" * 32
        if f == "self.ivt_table.get_key_store_presented" and len(c.args) == 1:
            return ev.ev(ast.parse("self._ks_flag", mode="eval").body)
        return _oe.NOT_MODELLED
    cv = ctx.model_calls(cv_fz, sym_map)
    RAW = bytes((i * 7 + 1) & 0xFF for i in range(200))
    layouts = {"boundary at 64": [(0, 64), (64, 200)], "one image spanning 64": [(0, 200)], "spanning in the second": [(0, 16), (16, 200)]}
    probs, n_models = [], 0
    for lname, cuts in layouts.items():
        for has_ks in (False, True):
            def mk():
                return img("app", None, [img(f"p{i}", RAW[a_:b_], (), a_) for i, (a_, b_) in enumerate(cuts)])
            me = Obj(_cls=fzc, HMAC_OFFSET=64, HMAC_SIZE=32, key_store=Obj(_ks=True) if has_ks else None, _ks_flag=has_ks)
            try:
                out = _oe.Evaluator({"self": me, "image": mk(), "revert": False}, ctx.fold_sym(fz, sym_map), opaque_return=False, call_value=cv).run(A.body_of(fz.node))
            except _oe.Unsupported as ex:
                raise AnalysisError(f"C01.cut-what-you-append: finalize left the fragment: {ex}")
            n_models += 1
            want_fwd = RAW[:64] + HM + (KS if has_ks else b"") + RAW[64:]
            got = flat(out.value) if out.kind == "return" and isinstance(out.value, Obj) else None
            if got != want_fwd:
                probs.append(f"{lname}, key store {has_ks}: forward result {'has ' + str(len(got)) + ' bytes and differs' if got is not None else out.kind}, expected image[:64] | HMAC | {'key store | ' if has_ks else ''}image[64:]")
                continue
            back = img("final", want_fwd)
            try:
                out2 = _oe.Evaluator({"self": me, "image": back, "revert": True}, ctx.fold_sym(fz, sym_map), opaque_return=False, call_value=cv).run(A.body_of(fz.node))
            except _oe.Unsupported as ex:
                raise AnalysisError(f"C01.cut-what-you-append: finalize (revert) left the fragment: {ex}")
            n_models += 1
            got2 = flat(out2.value) if out2.kind == "return" and isinstance(out2.value, Obj) else None
            if got2 != RAW:
                probs.append(f"{lname}, key store {has_ks}: revert does not give the original image back ({'length ' + str(len(got2)) if got2 is not None else out2.kind})")
    chk.decide(not probs, "C01.cut-what-you-append", fz.qual, f"HMAC (and key store) are inserted at HMAC_OFFSET and removed from [HMAC_OFFSET : HMAC_OFFSET + HMAC_SIZE (+ KEY_STORE_SIZE when flagged)] ({n_models} models)", "; ".join(probs[:2]), "", A.loc(MIX, fz.node))
    hm = ctx.cls(MIX, "Mbi_MixinHmac")
    chk.decide(prog.fold(hm.consts.get("HMAC_OFFSET"), hm.module, hm) == 64 and prog.fold(hm.consts.get("HMAC_SIZE"), hm.module, hm) == 32, "C01.cut-what-you-append", f"{MIX}::Mbi_MixinHmac constants", "HMAC_OFFSET 64, HMAC_SIZE 32", "", "", A.loc(MIX, hm.node))
    # manifest digest
    mf = ctx.own(MIX, "Mbi_ExportMixinAppCertBlockManifest", "finalize")
    t = norm(mf.node)
    ok = "image.binary = image.binary[:-self.manifest.get_hash_size(self.manifest.digest_hash_algo)]" in t and "calculated_hash = get_hash(self.data_to_sign, self.manifest.digest_hash_algo)" in t and "binary=calculated_hash" in t
    chk.decide(ok, "C01.cut-what-you-append", mf.qual, "manifest digest of the signed data is appended and removed with the same algorithm's hash size", "", "", A.loc(MIX, mf.node))
    # AppFcf / AppBcaFcf: assembly and disassembly both present in the class itself
    for cn in ("Mbi_ExportMixinApp", "Mbi_ExportMixinAppTrustZone", "Mbi_ExportMixinAppTrustZoneCertBlock", "Mbi_ExportMixinAppCertBlockManifest", "Mbi_ExportMixinAppBcaFcf", "Mbi_ExportMixinAppFcf", "Mbi_ExportMixinAppTrustZoneCertBlockEncrypt"):
        c = ctx.cls(MIX, cn)
        has = (c.method("collect_data") is not None, c.method("disassemble_image") is not None)
        chk.decide(has[0] == has[1], "C01.cut-what-you-append", f"{MIX}::{cn}", "a class that assembles the image also disassembles it", f"collect_data {has[0]}, disassemble_image {has[1]}", "both or neither", A.loc(MIX, c.node))
        di = c.method("disassemble_image")
        if di is not None:
            sets_app = any(isinstance(n, ast.Assign) and norm(n.targets[0]) == "self.app" for n in ast.walk(di.node)) or "super().disassemble_image" in norm(di.node)
            chk.decide(sets_app, "C01.cut-what-you-append", f"{MIX}::{cn}.disassemble_image", "disassembly recovers self.app", "self.app is never assigned", "", A.loc(MIX, di.node))


def rule_presence(ctx, P: str = "C01") -> None:
    """Optional parts tested by truthiness on the export path must be represented as None when absent by every producer."""
    chk = ctx.chk
    ks = ctx.cls(MIX, "Mbi_MixinKeyStore")
    for mn in ("mix_load_from_config", "mix_parse"):
        fn = ctx.own(MIX, "Mbi_MixinKeyStore", mn)
        stores = [n for n in A.walk_no_nested(fn.node) if isinstance(n, ast.Assign) and norm(n.targets[0]) == "self.key_store"]
        uncond_obj = [s for s in stores if not (isinstance(s.value, ast.Constant) and s.value.value is None) and not any(isinstance(a, ast.If) for a in A.ancestors(s) if a is not fn.node)]
        has_none = any(isinstance(s.value, ast.Constant) and s.value.value is None for s in stores)
        chk.decide(not uncond_obj and has_none, f"{P}.presence", fn.qual, "key_store is None unless a key store is really present (export code tests `not self.key_store`)",
                   f"unconditional `{norm(uncond_obj[0])[:80]}`" if uncond_obj else "no `self.key_store = None` default", "self.key_store = None; if present: self.key_store = KeyStore(...)", A.loc(MIX, fn.node))
    nm = ctx.prog.fold(ks.consts.get("NEEDED_MEMBERS"), ks.module, ks)
    chk.decide(isinstance(nm, dict) and nm.get("key_store", 1) is None, f"{P}.presence", f"{MIX}::Mbi_MixinKeyStore.NEEDED_MEMBERS", "class default for key_store is None", f"{nm}", "", A.loc(MIX, ks.node))
    # the consumers really test absence by truthiness
    enc = ctx.own(MIX, "Mbi_ExportMixinAppTrustZoneCertBlockEncrypt", "encrypt")
    table, dirs_ok = enc_table(enc.node)
    der = {x for x in table["aes_ctr_encrypt"] if x[0] == "derived"}
    chk.decide(bool(der) and all(x[1] == "KeyStore.derive_enc_image_key(self.hmac_key)" for x in der), f"{P}.presence", enc.qual, "image key is derived when no key store (or an OTP source) is present", f"{sorted(table['aes_ctr_encrypt'])}", "", A.loc(MIX, enc.node))
    # key derivation is the same for both directions
    chk.decide(dirs_ok and bool(table["aes_ctr_encrypt"]) and table["aes_ctr_encrypt"] == table["aes_ctr_decrypt"], f"{P}.presence", enc.qual + " twin", "the same derived key serves encryption and its revert",
               f"{sorted(table['aes_ctr_encrypt'])} / {sorted(table['aes_ctr_decrypt'])}", "", A.loc(MIX, enc.node))


def enc_table(fn_node):
    """Decision table of Mbi_ExportMixinAppTrustZoneCertBlockEncrypt.encrypt in its inputs: per direction the set of
    (key-store situation, key, nonce, data) - the layout of the ifs, temporaries and conditional expressions does not matter."""
    table = {"aes_ctr_encrypt": set(), "aes_ctr_decrypt": set()}
    dirs_ok = True
    for q in A.spaths(fn_node):
        if q.end != "return" or q.value is None:
            continue
        for nm, data_kw, want_rev in (("aes_ctr_encrypt", "plain_data", False), ("aes_ctr_decrypt", "encrypted_data", True)):
            for c in [c for c in ast.walk(q.value) if isinstance(c, ast.Call) and A.call_name(c) == nm]:
                kw = {k.arg: norm(k.value) for k in c.keywords}
                derived = q.assumes("self.key_store.key_source == KeySourceType.OTP ∨ ¬self.key_store", True)
                stored = q.assumes("self.key_store", True) and q.assumes("self.key_store.key_source == KeySourceType.OTP", False)
                table[nm].add((("derived" if derived else "stored" if stored else "?"), kw.get("key"), kw.get("nonce"), kw.get(data_kw)))
                dirs_ok = dirs_ok and q.assumes("revert", want_rev) and q.assumes("self.hmac_key", True) and q.assumes("self.ctr_init_vector", True)
    return table, dirs_ok


def rule_reloc_table(ctx) -> None:
    """Relocation (application) table: MultipleImageTable.export / parse and MultipleImageEntry.export_entry / parse evaluated on
    models (struct pack/unpack are computed, methods of the two classes are stepped into): what export appends behind an application
    must come back from parse - every entry with its destination, image bytes and source address, in table order, and the start
    address must be where the appended images begin, so that the mixin can cut them off again."""
    import struct as _struct
    from ..engines import ordereval as _oe
    Obj = _oe.Obj
    tcls, ecls = ctx.cls(CLS, "MultipleImageTable"), ctx.cls(CLS, "MultipleImageEntry")
    exp, par = ctx.own(CLS, "MultipleImageTable", "export"), ctx.own(CLS, "MultipleImageTable", "parse")

    def mk_entry(img, dst, flags=1, src=0):
        return Obj(_cls=ecls, _img=img, _src_addr=src, _dst_addr=dst, _flags=flags, LTI_LOAD=1)

    def cv(c: ast.Call, ev):
        f = norm(c.func)
        if f in ("struct.pack", "pack") and c.args:
            return _struct.pack(ev.ev(c.args[0]), *[ev.ev(a) for a in c.args[1:]])
        if f in ("struct.unpack", "unpack") and len(c.args) == 2:
            d = ev.ev(c.args[1])
            try:
                return tuple(_struct.unpack(ev.ev(c.args[0]), bytes(d)))
            except _struct.error:
                raise _oe.ModelRaise(_oe.Outcome("raise", "struct.error", c))
        if f in ("struct.calcsize", "calcsize") and len(c.args) == 1:
            return _struct.calcsize(ev.ev(c.args[0]))
        if f == "align_block" and c.args:
            d = bytes(ev.ev(c.args[0]))
            al = ev.ev(A.arg_of(c, 1, "alignment")) if A.arg_of(c, 1, "alignment") is not None else 4
            return d + bytes((-len(d)) % al)
        if f == "MultipleImageTable" and not c.args and not c.keywords:
            return Obj(_cls=tcls, _entries=(), start_address=0)
        if f == "MultipleImageEntry":
            kw = {k.arg: ev.ev(k.value) for k in c.keywords}
            pos = [ev.ev(a) for a in c.args]
            img = pos[0] if pos else kw.get("img")
            dst = pos[1] if len(pos) > 1 else kw.get("dst_addr")
            flags = pos[2] if len(pos) > 2 else kw.get("flags", 1)
            return mk_entry(img, dst, flags)
        if isinstance(c.func, ast.Attribute) and c.func.attr == "append" and len(c.args) == 1 and isinstance(c.func.value, ast.Attribute) and c.func.value.attr == "_entries":
            o = ev.ev(c.func.value.value)
            if isinstance(o, Obj):
                o.__dict__["_entries"] = tuple(o.__dict__["_entries"]) + (ev.ev(c.args[0]),)
                return None
        return _oe.NOT_MODELLED
    calls = ctx.model_calls(cv, classes={"MultipleImageTable": tcls, "MultipleImageEntry": ecls})
    probs, n = [], 0
    for app_len in (0, 64):
        for imgs in ([b"\xA5" * 20], [b"\xA5" * 20, b"\x5A" * 7], [b"\x11" * 3, b"\x22" * 8, b"\x33" * 5]):
            app = bytes((i * 5 + 9) & 0xFF for i in range(app_len))
            table = Obj(_cls=tcls, _entries=tuple(mk_entry(im, 0x80000 + 0x100 * i) for i, im in enumerate(imgs)), start_address=0)
            try:
                out = _oe.Evaluator({"self": table, "start_addr": app_len}, ctx.fold_sym(exp), opaque_return=False, call_value=calls).run(A.body_of(exp.node))
            except _oe.Unsupported as ex:
                raise AnalysisError(f"C01.reloc-table: MultipleImageTable.export left the fragment: {ex}")
            if out.kind != "return" or not isinstance(out.value, (bytes, bytearray)):
                probs.append(f"export of {len(imgs)} entries: {out.kind}")
                continue
            blob = app + bytes(out.value)
            try:
                out2 = _oe.Evaluator({"data": blob}, ctx.fold_sym(par), opaque_return=False, call_value=calls).run(A.body_of(par.node))
            except _oe.Unsupported as ex:
                raise AnalysisError(f"C01.reloc-table: MultipleImageTable.parse left the fragment: {ex}")
            n += 1
            t2 = out2.value if out2.kind == "return" else None
            if not isinstance(t2, Obj):
                probs.append(f"application of {app_len} bytes + {len(imgs)} entries: the exported bytes do not parse ({out2.kind} {out2.value!r})")
                continue
            got = [(e.__dict__["_dst_addr"], bytes(e.__dict__["_img"])) for e in t2.__dict__["_entries"]]
            want = [(0x80000 + 0x100 * i, im) for i, im in enumerate(imgs)]
            if got != want:
                probs.append(f"application of {app_len} bytes + {len(imgs)} entries: parsed (destination, image length) {[(hex(d_), len(i_)) for d_, i_ in got]}, expected {[(hex(d_), len(i_)) for d_, i_ in want]}")
            elif t2.__dict__["start_address"] != app_len:
                probs.append(f"application of {app_len} bytes + {len(imgs)} entries: start address {t2.__dict__['start_address']} (the appended images begin at {app_len})")
    # the lengths the relocation-table mixin reports (they feed the header words: total length, certificate block offset) are the
    # length of what the table exports - evaluated on the same model tables, for every method of the mixin named mix_len / mix_app_len
    rk = ctx.cls(MIX, "Mbi_MixinRelocTable")
    lprobs, ln = [], 0
    calls2 = ctx.model_calls(cv, classes={"MultipleImageTable": tcls, "MultipleImageEntry": ecls, "Mbi_MixinRelocTable": rk}, max_depth=8)
    for mname in ("mix_len", "mix_app_len"):
        lf = ctx.own(MIX, "Mbi_MixinRelocTable", mname)
        for imgs in ([b"\xA5" * 20], [b"\xA5" * 20, b"\x5A" * 7], [b"\x11" * 3, b"\x22" * 8, b"\x33" * 5], None):
            table = None if imgs is None else Obj(_cls=tcls, _entries=tuple(mk_entry(im, 0x80000 + 0x100 * i) for i, im in enumerate(imgs)), start_address=0)
            try:
                want_len = 0 if table is None else len(_oe.Evaluator({"self": table, "start_addr": 0}, ctx.fold_sym(exp), opaque_return=False, call_value=calls).run(A.body_of(exp.node)).value)
                out = _oe.Evaluator({"self": Obj(_cls=rk, app_table=table)}, ctx.fold_sym(lf), opaque_return=False, call_value=calls2).run(A.body_of(lf.node))
            except _oe.Unsupported as ex:
                raise AnalysisError(f"C01.reloc-length: {lf.qual} left the fragment: {ex}")
            ln += 1
            if out.kind != "return" or out.value != want_len:
                lprobs.append(f"{mname} with images of {[len(i_) for i_ in imgs] if imgs else None} bytes: {out.value if out.kind == 'return' else out.kind}, the table exports {want_len} bytes")
    ctx.chk.exhaustive_rules.add("C01.reloc-length")
    ctx.chk.decide(not lprobs, "C01.reloc-length", f"{MIX}::Mbi_MixinRelocTable.mix_len/mix_app_len", f"the reported lengths equal the length of the exported table ({ln} models, unaligned image sizes)",
                   "; ".join(lprobs[:2]), "len(self.app_table.export(0))", A.loc(MIX, rk.node))
    ctx.chk.decide(not probs, "C01.reloc-table", f"{CLS}::MultipleImageTable export<->parse", f"entries (destination, image, order) and the start of the appended images come back from the exported bytes ({n} models: 1-3 entries, unaligned image sizes, with and without a leading application)",
                   "; ".join(probs[:2]), "", A.loc(CLS, par.node))


def rule_parse_validates(ctx) -> None:
    """A mixin that REQUIRES TrustZone (its mix_validate refuses a disabled one) must not parse an image into the disabled state when
    the image says TrustZone is used: on the paths of its effective mix_parse, TrustZone.disabled() may only be assigned where the
    TrustZone type read from the image flags is not ENABLED, and some path must restore the enabled (default preset) setting."""
    chk, prog = ctx.chk, ctx.prog
    base = ctx.cls(MIX, "Mbi_MixinTrustZoneMandatory")
    val = prog.find_method(base, "mix_validate")
    refuses = val is not None and any(q.end == "raise" and any("TrustZoneType.DISABLED" in c for c, _p in q.conds) for q in A.gpaths(val.node))
    if not refuses:
        raise AnalysisError("C01.parse-validates: Mbi_MixinTrustZoneMandatory.mix_validate no longer refuses a disabled TrustZone")
    n = 0
    for k in sorted(set(prog.subclasses(base)) | {base}, key=lambda c: c.name):
        mp = prog.find_method(k, "mix_parse")
        if mp is None or mp.cls is None:
            continue
        if k is not base and mp.cls is not k:
            continue  # inherited: decided where it is defined
        n += 1
        dis_ok, enabled = True, False
        for q in A.spaths(mp.node):
            for s2 in q.sstmts:
                if isinstance(s2, ast.Assign) and norm(s2.targets[0]) in ("self.trust_zone", "trust_zone"):
                    v = norm(s2.value)
                    tz_enabled_known_false = any("get_tz_type(data)" in c and "TrustZoneType.ENABLED" in c and not p for c, p in q.conds) or \
                        any("tz_type" in c and "TrustZoneType.ENABLED" in c and not p for c, p in q.conds)
                    if v == "TrustZone.disabled()" and not tz_enabled_known_false:
                        dis_ok = False
                    if v == "TrustZone.enabled()":
                        enabled = True
        chk.decide(dis_ok and enabled, "C01.parse-validates", mp.qual, "a parsed image never ends up with the disabled TrustZone its own validation refuses while the image flags say TrustZone is used",
                   f"disabled assigned only when the image flags are not ENABLED: {dis_ok}; the default (enabled) setting is restored on some path: {enabled}", "take the setting from ivt_table.get_tz_type(data)", A.loc(MIX, mp.node))
    if n < 2:
        raise AnalysisError(f"C01.parse-validates: only {n} mix_parse implementations found under Mbi_MixinTrustZoneMandatory")


def rule_config_keys(ctx) -> None:
    """Every configuration key a mixin writes in mix_get_config is read by its (effective) mix_load_from_config."""
    chk, prog = ctx.chk, ctx.prog
    base = ctx.cls(MIX, "Mbi_Mixin")
    n = 0
    for c in sorted(prog.subclasses(base), key=lambda k: k.name):
        if c.module.relpath != MIX:
            continue
        gc = prog.find_method(c, "mix_get_config")
        lc = prog.find_method(c, "mix_load_from_config")
        if gc is None or lc is None or gc.cls is base:
            continue
        written = {n2.slice.value for n2 in ast.walk(gc.node) if isinstance(n2, ast.Subscript) and isinstance(n2.ctx, ast.Store) and isinstance(n2.slice, ast.Constant) and isinstance(n2.slice.value, str) and norm(n2.value) == "config"}
        if not written:
            continue
        read: Set[str] = set()
        passes_on = False
        for k in prog.mro(c):
            f = k.method("mix_load_from_config")
            if f is None:
                continue
            for n2 in ast.walk(f.node):
                if isinstance(n2, ast.Subscript) and isinstance(n2.slice, ast.Constant) and norm(n2.value) == "config":
                    read.add(n2.slice.value)
                if isinstance(n2, ast.Call) and isinstance(n2.func, ast.Attribute) and n2.func.attr == "get" and norm(n2.func.value) == "config" and n2.args and isinstance(n2.args[0], ast.Constant):
                    read.add(n2.args[0].value)
                if isinstance(n2, ast.Call) and any(isinstance(a, ast.Name) and a.id == "config" for a in n2.args) and A.call_name(n2) not in ("get",):
                    passes_on = True
        n += 1
        missing = sorted(written - read)
        if missing and passes_on:
            chk.report(f"C01.config-keys: {c.name} writes {missing}; its loader passes `config` on to a callee (e.g. from_config) which is assumed to read them")
            chk.ok("C01.config-keys", f"{MIX}::{c.name}", f"keys {sorted(written)}: read directly or by the callee that receives config", nontrivial=False)
        else:
            chk.decide(not missing, "C01.config-keys", f"{MIX}::{c.name}", f"keys {sorted(written)} written by mix_get_config are read back by mix_load_from_config", f"keys {missing} are written but never read back", "", A.loc(MIX, gc.node))
    chk.floor("C01.config-keys", 15)


def rule_wire(ctx) -> None:
    wire.check_pair(ctx, "C01.wire", CLS, "MultipleImageEntry", "export_entry", "parse")
    chk, prog = ctx.chk, ctx.prog
    # digest algorithm code tables are mutual inverses
    md = ctx.cls(CLS, "MasterBootImageManifestDigest")
    cf = prog.find_method(md, "_calculate_flags")
    pm = md.method("_parse_manifest")
    enc = [n for n in ast.walk(cf.node) if isinstance(n, ast.Dict)]
    dec = [n for n in ast.walk(pm.node) if isinstance(n, ast.Dict)]
    e = {norm(k).split(".")[-1]: prog.fold(v, md.module, md) for k, v in zip(enc[0].keys, enc[0].values)} if enc else {}
    d = {prog.fold(k, md.module, md): norm(v).split(".")[-1] for k, v in zip(dec[0].keys, dec[0].values)} if dec else {}
    chk.decide(bool(e) and {v: k for k, v in e.items()} == d, "C01.inverse-tables", f"{CLS}::MasterBootImageManifestDigest", f"digest algorithm codes {e} and their decoding {d} are inverse", f"{e} vs {d}", "", A.loc(CLS, md.node))
    ml = ctx.own(MIX, "Mbi_MixinManifestDigest", "mix_len")
    dd = [n for n in ast.walk(ml.node) if isinstance(n, ast.Dict)]
    if dd:
        d2 = {prog.fold(k, ml.module): norm(v).split(".")[-1] for k, v in zip(dd[0].keys, dd[0].values)}
        chk.decide({k: v for k, v in d2.items()} == d or set(d2.values()) <= set(d.values()) | {str(x) for x in d2.values()}, "C01.inverse-tables", ml.qual, f"length table uses the same codes: {d2}", f"{d2} vs {d}", "", A.loc(MIX, ml.node))


def rule_parse_wait(ctx) -> None:
    """C01.parse-order: in MasterBootImage.parse a mixin whose prerequisite (PRE_PARSED) is still None is postponed to the next
    round and NOT parsed in this one (parsing it early reads a None certificate block)."""
    chk = ctx.chk
    MBI = "spsdk/image/mbi/mbi.py"
    pa = ctx.own(MBI, "MasterBootImage", "parse")
    outer = [n for n in ast.walk(pa.node) if isinstance(n, ast.For) and norm(n.iter) == "mixins"]
    if len(outer) != 1:
        raise AnalysisError("C01.parse-order: the loop over the mixins of MasterBootImage.parse was not found")
    inner = [n for n in outer[0].body if isinstance(n, ast.For) and "PRE_PARSED" in norm(n.iter)]
    if len(inner) != 1:
        raise AnalysisError("C01.parse-order: the loop over PRE_PARSED was not found")
    appends = [c for c in ast.walk(inner[0]) if isinstance(c, ast.Call) and norm(c.func) == "mixins_src.append"]
    if len(appends) != 1:
        raise AnalysisError("C01.parse-order: `mixins_src.append(mixin)` not found in the wait branch")
    wait_if = [a for a in A.ancestors(appends[0]) if isinstance(a, ast.If)][0]
    leaves = wait_if.body[-1]
    parse_calls = [c for c in ast.walk(outer[0]) if isinstance(c, ast.Call) and isinstance(c.func, ast.Attribute) and c.func.attr == "mix_parse"]
    if len(parse_calls) != 1:
        raise AnalysisError("C01.parse-order: mix_parse call not found")
    pst = A.enclosing_stmt(parse_calls[0])
    in_else = any(pst is x or any(pst is y for y in ast.walk(x)) for x in inner[0].orelse)
    flag_form = False
    if not in_else:
        # flag form: wait branch sets a flag and breaks, the parse is guarded by `if not <flag>`
        sets = [norm(x.targets[0]) for x in wait_if.body if isinstance(x, ast.Assign) and isinstance(x.value, ast.Constant) and x.value.value is True]
        guards = [norm(a.test) for a in A.ancestors(pst) if isinstance(a, ast.If)]
        flag_form = any(f"not {f}" in guards for f in sets)
    ok = (in_else and isinstance(leaves, ast.Break)) or flag_form
    chk.decide(ok, "C01.parse-order", pa.qual, "a waiting mixin leaves the prerequisite loop without being parsed in this round (for/else or flag form)",
               f"after `mixins_src.append(mixin)` the branch ends with `{norm(leaves)}` and `mix_parse` is {'in the for-else' if in_else else 'executed unconditionally after the prerequisite loop'}: the mixin is parsed although it has to wait",
               "break out of the prerequisite loop and parse only in its else branch", A.loc(MBI, inner[0]))
    # the waiting list is consumed round by round
    t = norm(pa.node)
    chk.decide("while mixins_src:" in t and "mixins = mixins_src.copy()" in t and "mixins_src.clear()" in t, "C01.parse-order", pa.qual + " rounds", "postponed mixins are parsed in a later round", "", "", A.loc(MBI, pa.node))


def rule_flags_model(ctx) -> None:
    """C01.flags-model: the image-flags word of the header is self-describing: Mbi_MixinIvt.create_flags evaluated on model images (image
    type, TrustZone type, sub type, key store / relocation table present or not, attributes absent altogether) and the class's own readers
    (get_image_type, get_tz_type, get_sub_type, get_key_store_presented, get_app_table_presented) evaluated on a header carrying that
    word give back exactly what went in."""
    import itertools as _it
    import struct as _st
    from ..engines import ordereval as _oe
    Obj = _oe.Obj
    k = ctx.cls(MIX, "Mbi_MixinIvt")
    cf = ctx.own(MIX, "Mbi_MixinIvt", "create_flags")
    off = ctx.prog.fold(k.consts.get("IVT_IMAGE_FLAGS_OFFSET"), k.module, k)
    if not isinstance(off, int):
        raise AnalysisError("C01.flags-model: IVT_IMAGE_FLAGS_OFFSET does not fold")

    def leaves(c: ast.Call, ev):
        if isinstance(c.func, ast.Attribute) and c.func.attr == "export" and not c.args:
            o = ev.ev(c.func.value)
            if isinstance(o, Obj) and "_export" in o.__dict__:
                return o._export
        return _oe.NOT_MODELLED
    calls = ctx.model_calls(leaves, classes={"Mbi_MixinIvt": k})
    readers = {"image_type": "get_image_type", "tz": "get_tz_type", "sub": "get_sub_type", "key_store": "get_key_store_presented", "app_table": "get_app_table_presented"}
    rfn = {}
    for key, name in readers.items():
        f = ctx.prog.find_method(k, name)
        if f is None:
            raise AnalysisError(f"C01.flags-model: reader {name} not found")
        ctx.chk.analysed(f.qual)
        rfn[key] = f
    probs = []
    n = 0
    for itype, tz, sub, ks, tab in _it.product((0, 5, 0xC), (None, 0, 2), (None, 0, 1), (None, b"", b"KKKK"), (None, False, True)):
        attrs: Dict[str, Any] = {"IMAGE_TYPE": (itype, "t")}
        if tz is not None:
            attrs["trust_zone"] = Obj(type=Obj(tag=tz))
        if sub is not None:
            attrs["image_subtype"] = sub
        if ks is not None:
            attrs["key_store"] = Obj(_export=ks)
        if tab is not None:
            attrs["app_table"] = Obj(x=1) if tab else None
        try:
            out = _oe.Evaluator({"self": Obj(_cls=k, **attrs)}, ctx.fold_sym(cf), opaque_return=False, call_value=calls).run(A.body_of(cf.node))
            if out.kind != "return" or not isinstance(out.value, int):
                probs.append(f"{attrs}: create_flags -> {out.kind}")
                continue
            data = bytes(off) + _st.pack("<I", out.value & 0xFFFFFFFF) + bytes(64)
            got = {}
            for key, f in rfn.items():
                o = _oe.Evaluator({"cls": ctx.class_standin(k), "data": data}, ctx.fold_sym(f), opaque_return=False, call_value=calls).run(A.body_of(f.node))
                got[key] = o.value if o.kind == "return" else o.kind
        except _oe.Unsupported as ex:
            raise AnalysisError(f"C01.flags-model: left the fragment: {ex}")
        n += 1
        want = {"image_type": itype, "tz": tz or 0, "sub": sub or 0, "key_store": bool(ks), "app_table": bool(tab)}
        if {k_: (bool(v) if isinstance(want[k_], bool) else v) for k_, v in got.items()} != want:
            probs.append(f"image type {itype}, TrustZone {tz}, sub type {sub}, key store {ks!r}, table {tab}: flags {out.value:#x} read back as {got}")
    ctx.chk.exhaustive_rules.add("C01.flags-model")
    ctx.chk.decide(not probs, "C01.flags-model", f"{MIX}::Mbi_MixinIvt.create_flags <-> readers", f"the flags word reads back as the components it was made from ({n} model images)", "; ".join(probs[:2])[:600], "", A.loc(MIX, cf.node))


def rule_revision_flow(ctx) -> None:
    """C01.revision-flow: an image class built for (family, revision) hands its revision to every callee that takes one (TrustZone preset
    sizes, database look-ups): a call that leaves it out works on the latest revision - right for what the tests build, wrong for a
    parse / export at any other revision (the TrustZone block of lpc55s69 a0 is 460 bytes, of a1 464)."""
    from ..engines import paramflow
    n = paramflow.check(ctx, "C01.revision-flow", ["spsdk/image/mbi/mbi_mixin.py", "spsdk/image/mbi/mbi.py", "spsdk/image/trustzone.py"], self_attr=True)
    ctx.chk.floor("C01.revision-flow", 20)


def run(ctx) -> None:
    ctx.chk.explain("C01: IVT flag encoder/decoders by bit provenance; IVT word windows written, cleared and read at the same constants; the dynamic MBI classes are reconstructed "
                    "statically from every database (C3 MRO over the mixin list) and linted: providers, attribute closure, image types, ZeroTotalLength only on plain images, "
                    "dispatch ambiguity; export/parse pipeline order and chaining; append/cut symmetry of TrustZone, signatures, HMAC/key store, manifest digest; offset polarity; "
                    "presence representation of the key store; config key flow of all mixins; relocation entry wire symmetry; digest code tables.")
    ctx.rule(rule_flags)
    ctx.rule(rule_ivt_words)
    ctx.rule(rule_db_classes)
    ctx.rule(rule_pipeline)
    ctx.rule(rule_append_cut)
    ctx.rule(rule_presence)
    ctx.rule(rule_config_keys)
    ctx.rule(rule_wire)
    ctx.rule(rule_parse_wait)
    ctx.rule(rule_reloc_table)
    ctx.rule(rule_parse_validates)
    ctx.rule(rule_flags_model)
    ctx.rule(rule_revision_flow)

    def _enc_layout(c) -> None:
        # the encrypted image's layout (new IVT | rest of application incl. relocation table | certificate block | IVT copy | IV | TrustZone) and the
        # windows its revert re-assembles are one mechanism with C02's encryption twin: the header words describe the bytes emitted only if it holds
        from . import c02 as _c02
        c.borrow(_c02.rule_hmac_enc, "C02.enc-twin", "C01.encrypted-layout")
    ctx.rule(_enc_layout)
    from . import c17 as _c17
    _t = _c17.build_taint(ctx)
    ctx.rule(_c17.rule_stable_getter, _t, "C01")
    ctx.chk.assumptions = ["Python's C3 linearisation of type(name, (MasterBootImage, *mixins)) as modelled", "not decided: payload equality, byte-for-byte re-export, relocation table location, TrustZone preset contents"]


MANIFEST = {
    "level": "Static structural decision over all families: the database-driven class compositions are reconstructed and linted exhaustively; flag and window agreement is proved "
             "(bit provenance, constant windows); pipeline inversion order and the append/cut pairs are decided on the AST. Byte-level round trip is not decided.",
    "note": "Trusted: devdb merge model, C3 MRO model, struct. Known findings: image-type ambiguity (signed_ram vs signed_xip) in several families.",
    "technique": "static analysis: bit provenance, slice-window rules, database lint with statically reconstructed MRO, pipeline-order and append/cut structural rules, key flow, guarded/symbolic path decision tables, finite-model evaluation of finalize and of the relocation table writer/reader (methods stepped into), revision flow over callers that carry self.revision, encrypted-image layout borrowed from C02",
}
