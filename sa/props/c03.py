"""C03 Root-of-trust hash and certificate blocks (construction cross-checks, E2 flags, E1 wire, signed prefix, registries)."""
from __future__ import annotations

import ast
from typing import Any, Dict, List

from ..core import astutil as A
from ..core import callgraph as CG
from ..core.devdb import DevDB
from ..core.loader import AnalysisError
from ..core.report import norm
from ..engines import bitprov, ordereval, paramflow, wire
from ..engines.ordereval import Obj

RKHT = "spsdk/utils/crypto/rkht.py"
CB = "spsdk/utils/crypto/cert_blocks.py"
ROT = "spsdk/utils/crypto/rot.py"
PFR = "spsdk/pfr/pfr.py"


def rule_key_hash(ctx, P: str = "C03") -> None:
    """Per-key hash: RSA n||e (minimal big-endian), ECC x||y at the curve's fixed coordinate width, hash chosen by key type."""
    chk = ctx.chk
    fn = ctx.own(RKHT, "RKHT", "_calc_key_hash")
    # the function as a decision table in its inputs (symbolic paths: names of temporaries, order of the branches, where the
    # conversion happens do not matter): what is hashed for an RSA key, for an ECC key, and that every other key is refused
    BIG = "Endianness.BIG.value"
    ALG = "algorithm=algorithm or RKHT._get_hash_algorithm(public_key)"
    want = {"rsa": f"get_hash(public_key.n.to_bytes(math.ceil(public_key.n.bit_length() / 8), {BIG}) + public_key.e.to_bytes(math.ceil(public_key.e.bit_length() / 8), {BIG}), {ALG})",
            "ecc": f"get_hash(public_key.x.to_bytes(public_key.coordinate_size, {BIG}) + public_key.y.to_bytes(public_key.coordinate_size, {BIG}), {ALG})"}
    got = {"rsa": set(), "ecc": set(), "other": set()}
    for q in A.spaths(fn.node):
        kind = "rsa" if q.assumes("isinstance(public_key, PublicKeyRsa)", True) else "ecc" if q.assumes("isinstance(public_key, PublicKeyEcc)", True) else "other"
        got[kind].add(q.vtext.replace("byteorder=", "").replace("length=", "") if q.end == "return" else q.end)
    ecc_txt = "; ".join(sorted(got["ecc"]))
    chk.decide(got["ecc"] == {want["ecc"]}, f"{P}.key-hash", fn.qual + " ECC", "ECC: x and y both at public_key.coordinate_size bytes (fixed width, leading zeros kept)",
               ecc_txt[:300] + (": coordinate width comes from bit_length() (leading zero bytes of a coordinate are dropped)" if "bit_length" in ecc_txt else ""), want["ecc"], A.loc(RKHT, fn.node))
    chk.decide(got["rsa"] == {want["rsa"]}, f"{P}.key-hash", fn.qual + " RSA", "RSA: modulus then exponent as minimal big-endian integers", "; ".join(sorted(got["rsa"]))[:300], want["rsa"], A.loc(RKHT, fn.node))
    chk.decide(got["other"] == {"raise"}, f"{P}.key-hash", fn.qual + " other keys", "other key types raise", f"{sorted(got['other'])}", "", A.loc(RKHT, fn.node))
    chk.decide(bool(got["rsa"]) and bool(got["ecc"]) and all(ALG in v for v in got["rsa"] | got["ecc"]), f"{P}.key-hash", fn.qual + " digest", "hash(n||e) / hash(x||y) big-endian with the key type's algorithm (or the one asked for)", "", "", A.loc(RKHT, fn.node))
    ga = ctx.own(RKHT, "RKHT", "_get_hash_algorithm")
    t = norm(ga.node)
    ok = "if isinstance(key, PublicKeyEcc): return EnumHashAlgorithm.from_label(f'sha{key.key_size}')" in t.replace("\n", " ") or ("EnumHashAlgorithm.from_label(f'sha{key.key_size}')" in t and "return EnumHashAlgorithm.SHA256" in t)
    chk.decide(ok, f"{P}.key-hash", ga.qual, "SHA-256 for every RSA size, SHA-<curve bits> for ECC", "", "", A.loc(RKHT, ga.node))


def rule_tables(ctx) -> None:
    chk = ctx.chk
    v1e = ctx.own(RKHT, "RKHTv1", "export")
    cex = None
    H = lambda i: bytes([i + 1]) * 32  # noqa: E731
    for n in range(0, 5):
        me = Obj(RKHT_SIZE=4, RKH_SIZE=32, rkh_list=tuple(H(i) for i in range(n)))
        try:
            out = ordereval.Evaluator({"self": me}, opaque_return=False).run(A.body_of(v1e.node))
        except ordereval.Unsupported as e:
            raise AnalysisError(f"C03.tables: RKHTv1.export left the fragment: {e}")
        want = b"".join(H(i) for i in range(min(n, 4))) + bytes(32) * (4 - min(n, 4))
        if not (out.kind == "return" and out.value == want) and cex is None:
            cex = (n, out.kind, len(out.value) if isinstance(out.value, bytes) else out.value)
    chk.decide(cex is None, "C03.tables", v1e.qual, "4 slots x 32 bytes in key order, missing slots zero filled", f"{cex}", "", A.loc(RKHT, v1e.node))
    v1r = ctx.own(RKHT, "RKHTv1", "rkth")
    r = A.returns_in(v1r.node)
    chk.decide(bool(r) and norm(A.inline_locals(v1r.node, r[-1].value)) == "get_hash(self.export(), self.hash_algorithm)", "C03.tables", v1r.qual, "RKTH = hash of the exported table", norm(r[-1]) if r else "", "", A.loc(RKHT, v1r.node))
    ha = ctx.own(RKHT, "RKHTv1", "hash_algorithm")
    r = A.returns_in(ha.node)
    chk.decide(bool(r) and norm(r[-1].value) == "EnumHashAlgorithm.SHA256", "C03.tables", ha.qual, "v1 table hash is SHA-256", norm(r[-1]) if r else "", "", A.loc(RKHT, ha.node))
    # v2.1: one key -> its hash; several -> hash of the joined table; none -> empty
    v21 = ctx.own(RKHT, "RKHTv21", "rkth")
    v21e = ctx.own(RKHT, "RKHTv21", "export")
    cex = None
    for n in range(0, 4):
        lst = tuple(bytes([i + 7]) * 32 for i in range(n))
        holder: Dict[str, Any] = {}

        def sym(x: ast.expr, lst=lst):
            t = norm(x)
            if t == "get_hash(self.export(), self.hash_algorithm)":
                return ("HASH", b"".join(lst) if len(lst) > 1 else b"")
            if t == "bytes()":
                return b""
            return None
        out = ordereval.Evaluator({"self": Obj(rkh_list=lst)}, sym, opaque_return=False).run(A.body_of(v21.node))
        want: Any = b"" if n == 0 else lst[0] if n == 1 else ("HASH", b"".join(lst))
        if not (out.kind == "return" and out.value == want) and cex is None:
            cex = (n, out.value)
    chk.decide(cex is None, "C03.tables", v21.qual, "no key -> empty, one key -> that key's hash, several -> hash of the joined hash table", f"{cex}", "", A.loc(RKHT, v21.node))
    t = norm(v21e.node)
    chk.decide("if len(self.rkh_list) > 1:" in t and "bytearray().join(self.rkh_list)" in t, "C03.tables", v21e.qual, "the table is the hashes joined in key order (emitted only for 2+ keys)", "", "", A.loc(RKHT, v21e.node))
    fk = ctx.own(RKHT, "RKHT", "from_keys")
    t = norm(fk.node)
    chk.decide("rotk_hashes = [cls._calc_key_hash(key) for key in public_keys]" in t and "return cls(rotk_hashes)" in t and "[cls.convert_key(x, password, search_paths=search_paths) for x in keys]" in t, "C03.tables", fk.qual,
               "every supplied key (any encoding) is converted to a public key and hashed, in the given order", "", "", A.loc(RKHT, fk.node))


def rule_rotkh_value(ctx, rule: str) -> None:
    """PFR ROTKH = RKTH zero padded to the full register width on every returning path (a shorter hash must not leave stale bytes of
    a previous, longer value in the register); a hash wider than the register is rejected."""
    chk = ctx.chk
    cr = ctx.own(PFR, "BaseConfigArea", "_calc_rotkh")
    rets = [q for q in A.gpaths(cr.node) if q.end == "return"]
    vals = {norm(A.inline_locals(cr.node, q.last.value, keep=["rkht", "reg_rotkh"])) for q in rets if q.last.value is not None}
    ok = vals == {"rkht.rkth().ljust(reg_rotkh.width // 8, b'\\x00')"}
    guard = any(q.end == "raise" and q.assumes("rkht.hash_algorithm_size <= reg_rotkh.width", False) for q in A.gpaths(cr.node))
    chk.decide(ok and guard, rule, cr.qual + " value", "ROTKH = RKTH, zero padded to the register width; a hash wider than the register is rejected", f"{sorted(vals)}; width guard {guard}", "", A.loc(PFR, cr.node))


def rule_shared_paths(ctx) -> None:
    """Tool paths that share the RKHT implementation must keep reaching it."""
    chk, prog = ctx.chk, ctx.prog
    target = f"{RKHT}::RKHT.from_keys"
    def is_seed(m, c):
        return None
    # direct structural checks (resolved calls)
    sites = [(CB, "RootKeyRecord", "calculate", "RKHTv21.from_keys(keys=self.root_certs)"), (ROT, "RotCertBlockv1", "__init__", "RKHTv1.from_keys(self.keys_or_certs, self.password, self.search_paths)"),
             (ROT, "RotCertBlockv21", "__init__", "RKHTv21.from_keys(self.keys_or_certs, self.password, self.search_paths)"), (PFR, "BaseConfigArea", "_calc_rotkh", "cls.from_keys(keys=keys)")]
    for rp, cn, mn, want in sites:
        fn = ctx.own(rp, cn, mn)
        calls = [norm(c) for c in A.calls_in(fn.node, "from_keys")]
        chk.decide(want in calls, "C03.shared-paths", fn.qual, f"computes the table through {want.split('(')[0]} over ALL supplied keys", f"{calls}", want, A.loc(rp, fn.node))
    cb = ctx.own(PFR, "BaseConfigArea", "get_cert_block_class")
    d = [n for n in ast.walk(cb.node) if isinstance(n, ast.Dict)]
    m = {ctx.prog.fold(k, cb.module): norm(v) for k, v in zip(d[0].keys, d[0].values)} if d else {}
    chk.decide(m == {"cert_block_1": "RKHTv1", "cert_block_21": "RKHTv21"}, "C03.shared-paths", cb.qual, "PFR picks the same RKHT classes as the image tools", f"{m}", "", A.loc(PFR, cb.node))
    rule_rotkh_value(ctx, "C03.shared-paths")
    for cn, want in (("CertBlockV1", "self._rkht.rkth()"), ("CertBlockV21", "self.root_key_record._rkht.rkth()")):
        f = ctx.own(CB, cn, "rkth")
        r = A.returns_in(f.node)
        chk.decide(bool(r) and norm(r[-1].value) == want, "C03.shared-paths", f.qual, f"rkth is {want}", norm(r[-1]) if r else "", "", A.loc(CB, f.node))
    for cn in ("RotCertBlockv1", "RotCertBlockv21"):
        f = ctx.own(ROT, cn, "calculate_hash")
        r = A.returns_in(f.node)
        chk.decide(bool(r) and norm(r[-1].value) == "self.rkht.rkth()", "C03.shared-paths", f.qual, "nxpcrypto rot returns the table's rkth()", norm(r[-1]) if r else "", "", A.loc(ROT, f.node))
    # CertBlockV1.set_root_key_hash: independent construction, must equal sha256(public key export)
    sr = ctx.own(CB, "CertBlockV1", "set_root_key_hash")
    chk.decide("key_hash = get_hash(key_hash.get_public_key().export())" in norm(sr.node), "C03.sibling-constructions", sr.qual, "certificate -> SHA-256 of the exported public key (n||e)", "", "", A.loc(CB, sr.node))
    # signer independence: the table never reads the used-root index
    for rp, cn, mn in ((CB, "RootKeyRecord", "calculate"), (RKHT, "RKHTv21", "rkth"), (RKHT, "RKHTv1", "rkth"), (RKHT, "RKHT", "from_keys"), (RKHT, "RKHT", "_calc_key_hash")):
        f = ctx.own(rp, cn, mn)
        stmts = [s for s in A.walk_no_nested(f.node) if isinstance(s, (ast.Assign, ast.Return)) and ("_rkht" in norm(s) or "rkh" in norm(s).lower() or "hash" in norm(s).lower())]
        bad = [norm(s)[:80] for s in stmts if "used_root" in norm(s) or "rkh_index" in norm(s)]
        chk.decide(not bad, "C03.signer-independence", f.qual, "the root-of-trust value does not depend on which key signs", f"{bad}", "", A.loc(rp, f.node))


def rule_flags(ctx) -> None:
    chk, prog = ctx.chk, ctx.prog
    cf = ctx.own(CB, "RootKeyRecord", "_calculate_flags")
    pa = ctx.own(CB, "RootKeyRecord", "parse")
    fields = {"self.used_root_cert": ("used", 4), "len(self.root_certs)": ("cnt", 4)}

    def sym(x: ast.expr):
        t = norm(x)
        if t in fields:
            return bitprov.var_bits(*fields[t])
        return None
    union = [0] * bitprov.W
    try:
        for n in A.walk_no_nested(cf.node):
            if isinstance(n, ast.AugAssign) and norm(n.target) == "flags" and isinstance(n.op, ast.BitOr):
                bits = bitprov.BitEval({}, None, sym).ev(n.value)
                cond = [a for a in A.ancestors(n) if isinstance(a, ast.If)]
                label = None
                if cond and "ca_flag" in norm(cond[0].test):
                    label = "ca"
                elif cond and "P-256" in norm(cond[0].test):
                    label = "p256"
                elif cond and "P-384" in norm(cond[0].test):
                    label = "p384"
                for i, b in enumerate(bits):
                    if b != 0:
                        union[i] = (label, 0, False) if (label and b == 1) else b
    except (bitprov.Top, bitprov.SymbolicShift) as e:
        raise AnalysisError(f"C03.flags: outside the fragment: {e}")
    layout = {v: sorted(i for i, b in enumerate(union) if isinstance(b, tuple) and b[0] == v) for v in ("ca", "used", "cnt", "p256", "p384")}
    chk.decide(layout == {"ca": [31], "used": [8, 9, 10, 11], "cnt": [4, 5, 6, 7], "p256": [0], "p384": [1]}, "C03.flags", cf.qual, f"CA bit 31, used index bits 8-11, count bits 4-7, curve bits 0/1: {layout}", f"{layout}", "", A.loc(CB, cf.node))
    dec = {"used_rot_ix": "used", "number_of_hashes": "cnt"}
    for local, var in dec.items():
        d = A.single_def(pa.node, local)
        if d is None:
            raise AnalysisError(f"C03.flags: parse no longer defines {local}")
        got = bitprov.BitEval({"flags": list(union)}).ev(d)
        fm = bitprov.field_of(got, var)
        others = [b for b in got if isinstance(b, tuple) and b[0] != var]
        chk.decide(all(fm.get(i) == (i, False) for i in range(4)) and len(fm) == 4 and not others, "C03.flags", f"{pa.qual} {local}", f"decodes exactly the bits written for `{var}`", f"{norm(d)}: {sorted(fm.items())}, foreign {len(others)}", "", A.loc(CB, pa.node))
    ca = A.single_def(pa.node, "ca_flag")
    chk.decide(ca is not None and prog.fold(ca.right, pa.module) == 0x80000000 if isinstance(ca, ast.BinOp) else False, "C03.flags", pa.qual + " ca_flag", "CA flag is bit 31", norm(ca) if ca is not None else "", "", A.loc(CB, pa.node))
    noc = ctx.own(CB, "RootKeyRecord", "number_of_certificates")
    r = A.returns_in(noc.node)
    got = bitprov.BitEval({}, None, lambda x: list(union) if norm(x) == "self.flags" else None).ev(r[-1].value)
    fm = bitprov.field_of(got, "cnt")
    chk.decide(all(fm.get(i) == (i, False) for i in range(4)) and len(fm) == 4, "C03.flags", noc.qual, "reads the count field", f"{sorted(fm.items())}", "", A.loc(CB, noc.node))
    gh = ctx.own(CB, "RootKeyRecord", "get_hash_algorithm")
    d = [n for n in ast.walk(gh.node) if isinstance(n, ast.Dict)]
    m = {prog.fold(k, gh.module): norm(v).split(".")[-1] for k, v in zip(d[0].keys, d[0].values)} if d else {}
    chk.decide(m == {1: "SHA256", 2: "SHA384"} and "[flags & 15]" in norm(gh.node), "C03.flags", gh.qual, "curve nibble 1 -> SHA-256, 2 -> SHA-384", f"{m}", "", A.loc(CB, gh.node))
    # single key: the hash is over the raw x||y carried in the record, with the flags' algorithm
    # (attribute stores along the symbolic paths: temporaries, named sizes and a hoisted algorithm lookup do not matter)
    probs, n_single = [], 0
    for q in A.spaths(pa.node):
        if q.end != "return" or not q.assumes("(flags & 240) >> 4 <= 1", True):
            continue
        n_single += 1
        st_ = {}
        for s2 in q.sstmts:
            if isinstance(s2, ast.Assign) and isinstance(s2.targets[0], ast.Attribute):
                st_[norm(s2.targets[0])] = ctx.vnorm(pa, s2.value)
        size = next((v for k, v in ((0, 32), (1, 32), (2, 48)) if q.assumes(f"flags & 15 == {k}", True)), None)
        want_key = f"data[4:{4 + 2 * size}]" if size else None
        rk = next((v for k, v in st_.items() if k.endswith(".root_public_key")), None)
        rh = next((v for k, v in st_.items() if k.endswith("._rkht")), None)
        holder = next((k[: -len(".root_public_key")] for k in st_ if k.endswith(".root_public_key")), "?")
        if rk != want_key:
            probs.append(f"coordinate size {size}: root public key = {rk} (expected {want_key})")
        if rh != f"RKHTv21([get_hash({holder}.root_public_key, cls.get_hash_algorithm(flags))])":
            probs.append(f"coordinate size {size}: table = {rh}")
    chk.decide(not probs and n_single >= 2, "C03.sibling-constructions", pa.qual + " single key",
               "one key: hash of the raw x||y (2 x coordinate length, right behind the flags word) with the flags' algorithm - the same bytes _calc_key_hash hashes", "; ".join(probs[:2]) or f"{n_single} single-key paths", "", A.loc(CB, pa.node))
    crp = ctx.own(CB, "RootKeyRecord", "_create_root_public_key")
    chk.decide("root_key = self.root_certs[self.used_root_cert]" in norm(crp.node) and "root_key.export()" in norm(crp.node), "C03.sibling-constructions", crp.qual, "the record carries the selected root key (x||y export)", "", "", A.loc(CB, crp.node))


def rule_isk(ctx) -> None:
    chk = ctx.chk
    sg = ctx.own(CB, "IskCertificate", "create_isk_signature")
    ex = ctx.own(CB, "IskCertificate", "export")

    # what is signed and what is exported, per header layout, read off the symbolic paths (if/else, conditional expression, a shared
    # helper, += chain or one expression all give the same part lists)
    def flat(e):
        return flat(e.left) + flat(e.right) if isinstance(e, ast.BinOp) and isinstance(e.op, ast.Add) else [norm(e)]
    signed, exported = {}, {}
    for q in A.spaths(sg.node):
        for c in q.calls("get_signature"):
            if norm(c.func) == "self.signature_provider.get_signature" and c.args:
                signed.setdefault(q.assumes("self.offset_present", True), set()).add(tuple(flat(c.args[0])))
    for q in A.spaths(ex.node):
        if q.end == "return" and q.value is not None:
            exported.setdefault((q.assumes("self.offset_present", True), q.assumes("self.user_data", True)), set()).add(tuple(flat(q.value)))
    hdr = {True: "pack('<3L', self.signature_offset, self.constraints, self.flags)", False: "pack('<2L', self.constraints, self.flags)"}
    probs = []
    for op in (True, False):
        s_want = {("key_record_data", hdr[op], "self.isk_public_key_data", "self.user_data")}
        if signed.get(op) != s_want:
            probs.append(f"offset_present={op}: signed {sorted(signed.get(op, []))}")
        for ud in (True, False):
            e_want = {tuple([hdr[op], "self.isk_public_key_data"] + (["self.user_data"] if ud else []) + ["self.signature"])}
            if exported.get((op, ud)) != e_want:
                probs.append(f"offset_present={op}, user data {ud}: exported {sorted(exported.get((op, ud), []))}")
    chk.decide(not probs, "C03.isk-signed-prefix", f"{CB}::IskCertificate", "the header words that are signed are the header words that are exported (both layouts)", "; ".join(probs), "", A.loc(CB, sg.node))
    chk.decide(not [p for p in probs if "signed" in p] and bool(signed), "C03.isk-signed-prefix", sg.qual, "ISK signature covers root key record | ISK header | ISK public key | user data", "; ".join(probs), "", A.loc(CB, sg.node))
    chk.decide(not [p for p in probs if "exported" in p] and bool(exported), "C03.isk-signed-prefix", ex.qual, "export order: header | public key | user data | signature (signature last)", "; ".join(probs), "", A.loc(CB, ex.node))
    v21 = ctx.own(CB, "CertBlockV21", "export")
    tv = norm(v21.node)
    ok = "key_record_data = self.root_key_record.export()" in tv and "self.isk_certificate.create_isk_signature(key_record_data)" in tv and "return header_data + key_record_data + isk_cert_data" in tv
    chk.decide(ok, "C03.isk-signed-prefix", v21.qual, "the ISK is signed over the very root key record bytes that are exported in front of it", "", "", A.loc(CB, v21.node))
    hs = "self.header.cert_block_size = self.header.SIZE + len(key_record_data)" in tv and "self.header.cert_block_size += len(isk_cert_data)" in tv and tv.find("header_data = self.header.export()") > tv.find("self.header.cert_block_size +=")
    chk.decide(hs, "C03.isk-signed-prefix", v21.qual + " size", "header size field is set (recomputed, not accumulated) before the header is exported", "", "", A.loc(CB, v21.node))


def rule_wire(ctx) -> None:
    wire.check_pair(ctx, "C03.wire", CB, "CertBlockHeader", "export", "parse")
    wire.check_pair(ctx, "C03.wire", CB, "CertificateBlockHeader", "export", "parse")
    wire.check_pair(ctx, "C03.wire", CB, "IskCertificate", "export", "parse")
    if ctx.tier == "thorough":
        wire.sweep_modules(ctx, "C03.wire", [CB])


def rule_registry(ctx) -> None:
    chk, prog = ctx.chk, ctx.prog
    base = ctx.cls(ROT, "RotBase")
    types = {}
    for c in prog.subclasses(base):
        v = prog.fold(c.consts.get("rot_type"), c.module, c)
        if isinstance(v, str):
            types[v] = c.name
    db = DevDB(ctx.repo)
    used = {}
    for dev, rev, f in db.iter_features("cert_block"):
        rt = f.get("rot_type")
        if rt:
            used.setdefault(rt, []).append(f"{dev}:{rev}")
    for rt, where in sorted(used.items()):
        if rt == "cert_block_x":
            chk.report(f"C03.rot-registry (report only): rot_type cert_block_x ({len(where)} device revisions) has no Rot class (outside the property's RoT type list)")
            continue
        chk.decide(rt in types, "C03.rot-registry", f"rot_type `{rt}`", f"handled by {types.get(rt)} ({len(where)} device revisions)", f"no RotBase subclass declares rot_type {rt!r} (used by {where[:3]})", "", ROT)
    want = {"cert_block_1", "cert_block_21", "srk_table_ahab", "srk_table_ahab_v2", "srk_table_hab"}
    chk.decide(want <= set(types), "C03.rot-registry", f"{ROT}::RotBase subclasses", f"classes for {sorted(types)}", f"missing {sorted(want - set(types))}", "", ROT)
    grc = ctx.own(ROT, "Rot", "get_rot_class")
    t = norm(grc.node)
    chk.decide("db = get_db(family, revision)" in t and "if subclass.rot_type == rot_type:" in t, "C03.rot-registry", grc.qual, "class is selected by the rot_type of the requested family AND revision", "", "", A.loc(ROT, grc.node))
    n = paramflow.check(ctx, "C03.revision-flow", [ROT, CB, PFR, RKHT])
    if n < 3:
        raise AnalysisError(f"C03.revision-flow: only {n} revision hand-over sites found")


def rule_ahab_v2_srk_ids(ctx) -> None:
    """C03.ahab-v2-srk-id: the SRK hash of an AHAB v2 table covers, per record, an SRK Data container that carries the record's index
    ("SRK id").  Both constructions of the table from an ordered key list - the image builder (SRKTableV2.load_from_config) and
    `nxpcrypto rot` (RotSrkTableAhabV2) - give record i the id i: the id argument of SRKData / SRKRecordV2.create_from_key is the index
    of the enumeration over the keys.  With the default id 0 for every record the two tool paths report different fuse values."""
    SRKF, ROTF = "spsdk/image/ahab/ahab_srk.py", "spsdk/utils/crypto/rot.py"
    sites = [ctx.own(SRKF, "SRKTableV2", "load_from_config"), ctx.own(ROTF, "RotSrkTableAhabV2", "__init__")]
    for f in sites:
        ok_calls, all_calls = [], []
        for c in A.calls_in(f.node, "create_from_key"):
            recv = norm(c.func.value) if isinstance(c.func, ast.Attribute) else ""
            if recv.endswith("SRKData"):
                idx = A.arg_of(c, 1, "srk_id")
            elif recv.endswith("SRKRecordV2"):
                idx = A.arg_of(c, None, "srk_id")
            else:
                continue
            all_calls.append(c)
            if not isinstance(idx, ast.Name):
                continue
            # the name is the index variable of an enclosing enumerate(...) loop or comprehension
            for anc in A.ancestors(c):
                gens = [(g.target, g.iter) for g in getattr(anc, "generators", [])] + ([(anc.target, anc.iter)] if isinstance(anc, ast.For) else [])
                for tgt, it in gens:
                    if isinstance(it, ast.Call) and A.call_name(it) == "enumerate" and isinstance(tgt, ast.Tuple) and isinstance(tgt.elts[0], ast.Name) and tgt.elts[0].id == idx.id \
                            and not (len(it.args) > 1 or it.keywords):
                        ok_calls.append(c)
                    elif isinstance(it, ast.Call) and A.call_name(it) == "range" and isinstance(tgt, ast.Name) and tgt.id == idx.id and len(it.args) == 1:
                        ok_calls.append(c)  # for ix in range(len(keys))
        ctx.chk.decide(bool(ok_calls), "C03.ahab-v2-srk-id", f.qual, "record i of the table gets the SRK data id i (index of the enumeration over the keys)",
                       (f"`{norm(all_calls[0])[:90]}` does not pass the record index" if all_calls else "no SRK data / record is created with an explicit id: every record keeps the default id 0"),
                       "SRKData.create_from_key(pub_key, ix) / SRKRecordV2.create_from_key(key, srk_id=ix)", A.loc(f.module.relpath, all_calls[0] if all_calls else f.node))
    ctx.chk.floor("C03.ahab-v2-srk-id", 2)


def rule_roundtrip(ctx) -> None:
    """C03.header-roundtrip: the two certificate block headers interpreted on model objects (E19): parse(export(x)) has the fields of x."""
    from ..engines import roundtrip
    roundtrip.check_classes(ctx, "C03.header-roundtrip", CB, [
        ("CertBlockHeader", [{"version": "1.0", "flags": 3, "build_number": 7, "__setup1": "obj.image_length = 0x1234; obj.cert_count = 2; obj.cert_table_length = 0x300"},
                             {"version": "1.0", "flags": 0, "build_number": 0}]),
        ("CertificateBlockHeader", [{"format_version": "2.1", "__setup1": "obj.cert_block_size = 0x240"}]),
    ], floor=2)


def rule_isk_roundtrip(ctx) -> None:
    """C03.isk-roundtrip: IskCertificate built, exported and parsed back on the evaluator (constructor, flags, signature_offset /
    expected_size properties, export and parse are interpreted; a public key is a model object that knows its raw bytes, coordinate
    size and curve): the parsed certificate has the constraints, flags, key bytes, user data and signature of the exported one and
    exports to the same bytes - P-256 and P-384 keys, with and without user data."""
    from ..engines import ordereval as oe, roundtrip
    Obj = oe.Obj
    k = ctx.cls(CB, "IskCertificate")
    ex = ctx.own(CB, "IskCertificate", "export")

    def leaves(c: ast.Call, ev):
        f = norm(c.func)
        if f == "convert_to_ecc_key" and len(c.args) == 1:
            v = ev.ev(c.args[0])
            if isinstance(v, (bytes, bytearray)):
                return Obj(_key=bytes(v), coordinate_size=len(v) // 2, curve={32: "secp256r1", 48: "secp384r1"}.get(len(v) // 2, "?"))
            return v
        if isinstance(c.func, ast.Attribute) and c.func.attr == "export" and not c.args:
            try:
                o = ev.ev(c.func.value)
            except oe.Unsupported:
                return oe.NOT_MODELLED
            if isinstance(o, Obj) and "_key" in o.__dict__:
                return o.__dict__["_key"]
        return roundtrip.std_leaves(c, ev)
    calls = ctx.model_calls(leaves, classes={"IskCertificate": k}, module=CB, max_depth=6)
    probs = []
    n = 0
    for label, key, user, sig in (("P-256 key, 8 bytes of user data", bytes(range(1, 65)), b"U" * 8, b"S" * 64), ("P-256 key, no user data", bytes(range(1, 65)), None, b"S" * 64),
                                  ("P-384 key, 16 bytes of user data", bytes(range(101, 197)), b"V" * 16, b"T" * 96), ("P-384 key, no user data", bytes(range(101, 197)), None, b"T" * 96)):
        try:
            ev = oe.Evaluator({"constraints": 5, "isk_cert": key, "user_data": user, "IskCertificate": ctx.class_standin(k), "sig": sig, "siglen": len(sig)}, ctx.fold_sym(ex), opaque_return=False, call_value=calls)
            built = ev.ev(ast.parse("IskCertificate(constraints=constraints, isk_cert=isk_cert, user_data=user_data)", mode="eval").body)
            built.__dict__["signature"] = sig
            ev.env["c"] = built
            data = ev.ev(ast.parse("c.export()", mode="eval").body)
            ev.env["data"] = data
            parsed = ev.ev(ast.parse("IskCertificate.parse(data, siglen)", mode="eval").body)
            ev.env["p"] = parsed
            again = ev.ev(ast.parse("p.export()", mode="eval").body)
        except oe.ModelRaise as mr:
            probs.append(f"{label}: a valid certificate is refused ({mr})")
            continue
        except oe.Unsupported as ex_:
            raise AnalysisError(f"C03.isk-roundtrip: IskCertificate left the fragment ({label}): {ex_}")
        n += 1
        fields = ("constraints", "flags", "user_data", "signature", "isk_public_key_data", "offset_present")
        diff = [f_ for f_ in fields if built.__dict__.get(f_) != parsed.__dict__.get(f_)]
        if diff or bytes(again) != bytes(data):
            probs.append(f"{label}: parsed certificate differs in {diff or 're-exported bytes'}")
    ctx.chk.analysed(ex.qual)
    ctx.chk.decide(not probs, "C03.isk-roundtrip", f"{CB}::IskCertificate export<->parse", f"parse(export(c)) has the fields of c and exports to the same bytes ({n} model certificates)", "; ".join(probs[:2])[:500], "", A.loc(CB, ex.node))


def run(ctx) -> None:
    ctx.chk.explain("C03: the per-key hash construction (fixed-width ECC coordinates, n||e, algorithm by key type) and the v1/v2.1 table rules are extracted and evaluated; the tool "
                    "paths that share the RKHT implementation are pinned to it, independent constructions are cross-checked against it; signer independence; root key record flags "
                    "by bit provenance; ISK signed prefix equals the exported prefix; header wire symmetry; rot_type registry against all databases; `revision` is handed on.")
    ctx.rule(rule_key_hash)
    ctx.rule(rule_tables)
    ctx.rule(rule_shared_paths)
    ctx.rule(rule_flags)
    ctx.rule(rule_isk)
    ctx.rule(rule_wire)
    ctx.rule(rule_registry)
    ctx.rule(rule_roundtrip)
    ctx.rule(rule_isk_roundtrip)
    ctx.rule(rule_ahab_v2_srk_ids)
    from ..engines import attrproto
    ctx.rule(lambda c: attrproto.check(c, "C03.ca-attribute", "ca", 4, 2))
    ctx.chk.assumptions = ["PublicKeyRsa/Ecc.export and coordinate_size are decided in C08", "AHAB/HAB SRK table constructions are decided in C06/C07",
                           "not decided: hash values, input-encoding independence at value level (extract_public_key)"]


MANIFEST = {
    "level": "Static structural decision that the root-of-trust value is built by the documented construction from all keys in order and nothing else, on every tool path, and that "
             "certificate block headers/flags/ISK prefix agree between writer, reader and signer. Hash values are not computed.",
    "note": "Trusted: get_hash (C09), key classes (C08). rot_type cert_block_x has no Rot class (reported; outside the property's list).",
    "technique": "static analysis: construction extraction and sibling cross-check, abstract evaluation of table rules, bit provenance, struct symmetry, registry/data lint, parameter-flow, symbolic-path decision tables (key hash, ISK signed prefix), finite-model evaluation of table export, export/parse round trip of the certificate block headers interpreted on model objects (E19), attribute-protocol target-vs-source clause",
}
