"""C06 AHAB image: containers verify, images hash and decrypt, offsets never collide.

Decides the clauses that are visible in the shape of the code (wire symmetry, flag layouts, verifier widths,
producer/verifier twins, signing order, block windows, offset assignment on a finite model, table agreement).
"""
from __future__ import annotations

import ast
import re
import itertools
import math
from typing import Any, Dict, List, Optional, Tuple

from ..core import astutil as A
from ..core.loader import AnalysisError
from ..core.report import norm
from ..core.symtab import UNKNOWN, ClassInfo, FuncInfo, struct_items
from ..engines import bitprov, ordereval, wire
from ..engines.ordereval import Evaluator, Obj, Unsupported
from . import c20

CNT = "spsdk/image/ahab/ahab_container.py"
IAE = "spsdk/image/ahab/ahab_iae.py"
SB = "spsdk/image/ahab/ahab_sign_block.py"
SIG = "spsdk/image/ahab/ahab_signature.py"
SRK = "spsdk/image/ahab/ahab_srk.py"
BLOB = "spsdk/image/ahab/ahab_blob.py"
CERT = "spsdk/image/ahab/ahab_certificate.py"
IMG = "spsdk/image/ahab/ahab_image.py"
VER = "spsdk/utils/verifier.py"
MISC = "spsdk/utils/misc.py"

WIRE_PAIRS = [
    (CNT, "AHABContainerBase", "_export", "_parse"),
    (IAE, "ImageArrayEntry", "export", "parse"),
    (SB, "SignatureBlock", "export", "parse"),
    (SB, "SignatureBlockV2", "export", "parse"),
    (SIG, "ContainerSignature", "export", "parse"),
    (SRK, "SRKRecordBase", "export", "parse"),
    (SRK, "SRKRecordV2", "export", "parse"),
    (SRK, "SRKData", "export", "parse"),
    (SRK, "SRKTable", "export", "parse"),
    (SRK, "SRKTable", "export", "pre_parse_verify"),
    (SRK, "SRKTableArray", "export", "parse"),
    (SRK, "SRKTableArray", "export", "pre_parse_verify"),
    (BLOB, "AhabBlob", "export", "parse"),
    (CERT, "AhabCertificate", "get_signature_data", "parse"),
]


# --------------------------------------------------------------------------- wire
def rule_wire(ctx) -> None:
    for p in WIRE_PAIRS:
        ctx.rule(wire.check_pair, "C06.wire", *p, 1)
    ctx.chk.floor("C06.wire", len(WIRE_PAIRS))
    # the container parser hands the unpacked header to the constructor fields of the same name
    pa = ctx.own(CNT, "AHABContainer", "parse")
    names = None
    for st in A.walk_no_nested(pa.node):
        if isinstance(st, ast.Assign) and isinstance(st.value, ast.Call) and norm(st.value.func) == "cls._parse" and isinstance(st.targets[0], ast.Tuple):
            names = [norm(x) for x in st.targets[0].elts]
    bp = ctx.own(CNT, "AHABContainerBase", "_parse")
    ret = A.returns_in(bp.node)[-1].value
    rnames = [norm(x) for x in ret.elts] if isinstance(ret, ast.Tuple) else None
    ctor = [c for c in A.calls_in(pa.node) if norm(c.func) == "cls" and c.keywords]
    kws = {k.arg: norm(k.value) for k in ctor[0].keywords} if ctor else {}
    ok = names is not None and names == rnames and all(kws.get(k) == k for k in ("flags", "fuse_version", "sw_version")) and kws.get("container_offset") == "cls.CONTAINER_SIZE * container_id"
    ctx.chk.decide(ok, "C06.wire", pa.qual + " header routing", "the six header values are received in the order _parse returns them and routed to the same-named constructor fields",
                   f"_parse returns {rnames}; parse receives {names}; constructor {kws}", "", A.loc(CNT, pa.node))
    t = norm(pa.node)
    ok = "parsed_container.signature_block = cls.SIGNATURE_BLOCK.parse(data[signature_block_offset:], parsed_container.chip_config)" in t and \
        "image_array_entry_binary_start = cls.fixed_length() + i * cls.IAE_TYPE.fixed_length()" in t and "for i in range(number_of_images):" in t and \
        "binary_image_start = image_array_entry._image_offset" in t and "image_array_entry.image = data[binary_image_start:binary_image_end]" in t
    ctx.chk.decide(ok, "C06.wire", pa.qual + " layout", "signature block at the header's offset, entry i at header + i*entry size, image bytes at the entry's container-relative offset", t[:200], "", A.loc(CNT, pa.node))
    ex = ctx.own(CNT, "AHABContainer", "export")
    from ..engines import bytelayout
    fold = lambda e: ctx.prog.fold(e, ex.module, ex.cls)  # noqa: E731
    wins = []
    for st in A.walk_no_nested(ex.node):
        if isinstance(st, ast.Assign) and isinstance(st.targets[0], ast.Subscript) and isinstance(st.targets[0].slice, ast.Slice) and norm(st.targets[0].value) == "container_header":
            sl = st.targets[0].slice
            lo = norm(A.inline_locals(ex.node, sl.lower)) if sl.lower is not None else "0"
            hi = norm(A.inline_locals(ex.node, sl.upper)) if sl.upper is not None else None
            guard = [norm(a.test) for a in A.ancestors(st) if isinstance(a, ast.If)]
            wins.append((lo, hi, st.value, guard))
    hdr = [w for w in wins if w[0] == "0"]
    sb = [w for w in wins if w[0] != "0"]
    hdr_lay = bytelayout.normal_form(fold, ex.node, hdr[0][2]) if len(hdr) == 1 else None
    ok = len(hdr) == 1 and hdr[0][1] == "self._signature_block_offset" and hdr_lay == [(None, "bytes", "super()._export()"), (None, "repeat", "_.export() for _ in self.image_array")] and \
        len(sb) == 1 and sb[0][0] == "self._signature_block_offset" and sb[0][1] == "self._signature_block_offset + align(len(self.signature_block), CONTAINER_ALIGNMENT)" and \
        norm(sb[0][2]) == "self.signature_block.export()" and sb[0][3] == ["self.signature_block"]
    ctx.chk.decide(ok, "C06.wire", ex.qual + " layout", "header, then the image array entries, written to [0 : signature block offset]; the signature block at [offset : offset + aligned length] when present",
                   f"header window {[(w[0], w[1]) for w in hdr]} layout {hdr_lay}; signature block window {[(w[0], w[1], norm(w[2]), w[3]) for w in sb]}", "", A.loc(CNT, ex.node))
    # certificate: exported bytes = signed bytes + signatures
    ce = ctx.own(CERT, "AhabCertificate", "export")
    lay = bytelayout.normal_form(lambda e: ctx.prog.fold(e, ce.module, ce.cls), ce.node)
    # (as a field list: however the bytes are put together) signed data first, then nothing but signature containers
    want_l = [(None, "bytes", "self.get_signature_data()"), (None, "bytes", "self.signature_0.export()"), (None, "alt", "self.signature_1", [[(None, "bytes", "self.signature_1.export()")], []])]
    ctx.chk.decide(lay == want_l, "C06.signed-range", ce.qual, "certificate = signed data followed only by its signature container(s)", f"{lay}"[:300], "", A.loc(CERT, ce.node))


# --------------------------------------------------------------------------- flags (E2)
def _producer_bits(ctx, fn: FuncInfo, cls: ClassInfo, acc: str, symmap: Dict[str, Tuple[str, int]], stmts: Optional[List[ast.stmt]] = None) -> List[bitprov.Bit]:
    fold = lambda e: ctx.prog.fold(e, cls.module, cls)  # noqa: E731

    def sym(e: ast.expr):
        t = norm(e)
        if t in symmap:
            return bitprov.var_bits(*symmap[t])
        if isinstance(e, ast.IfExp) and isinstance(e.orelse, ast.Constant) and e.orelse.value == 0 and norm(e.test) in symmap:
            b = bitprov.BitEval({}, fold, sym).ev(e.body)
            var = symmap[norm(e.test)][0]
            ones = [i for i, x in enumerate(b) if x == 1]
            if len(ones) != 1 or any(isinstance(x, tuple) for x in b):
                raise bitprov.Top(e, "conditional flag is not a single constant bit")
            return [(var, 0, False) if i == ones[0] else 0 for i in range(bitprov.W)]
        return None
    union: List[bitprov.Bit] = [0] * bitprov.W
    for st in (stmts if stmts is not None else A.body_of(fn.node)):
        v = None
        if isinstance(st, ast.Assign) and norm(st.targets[0]) == acc:
            v = st.value
        elif isinstance(st, ast.AugAssign) and norm(st.target) == acc and isinstance(st.op, ast.BitOr):
            v = st.value
        if v is None:
            continue
        try:
            bits = bitprov.BitEval({}, fold, sym).ev(v)
        except (bitprov.Top, bitprov.SymbolicShift) as e:
            raise AnalysisError(f"C06.flags: {fn.qual}: `{norm(v)[:80]}` left the bit-provenance fragment: {e}")
        for i, b in enumerate(bits):
            if b == 0:
                continue
            if union[i] != 0:
                raise _Overlap(i, union[i], b)
            union[i] = b
    return union


class _Overlap(Exception):
    def __init__(self, pos: int, a: Any, b: Any):
        super().__init__(f"bit {pos} written from both {a} and {b}")


def _getter_expr(fn: FuncInfo) -> ast.expr:
    for n in ast.walk(fn.node):
        if isinstance(n, ast.BinOp) and isinstance(n.op, ast.BitAnd) and isinstance(n.left, ast.BinOp) and isinstance(n.left.op, ast.RShift):
            return n
    raise AnalysisError(f"C06.flags: no `(x >> OFF) & MASK` expression in {fn.qual}")


def _check_getter(ctx, rule: str, fn: FuncInfo, cls: ClassInfo, src: str, union: List[bitprov.Bit], var: str, width: int, tag: str = "") -> None:
    e = _getter_expr(fn)
    fold = lambda x: ctx.prog.fold(x, cls.module, cls)  # noqa: E731
    try:
        got = bitprov.BitEval({}, fold, lambda x: list(union) if norm(x) == src else None).ev(e)
    except (bitprov.Top, bitprov.SymbolicShift) as ex:
        raise AnalysisError(f"{rule}: {fn.qual} left the bit-provenance fragment: {ex}")
    fm = bitprov.field_of(got, var)
    foreign = sorted({b[0] for b in got if isinstance(b, tuple) and b[0] != var})
    ok = fm == {i: (i, False) for i in range(width)} and not foreign
    pos = sorted(i for i, b in enumerate(union) if isinstance(b, tuple) and b[0] == var)
    ctx.chk.decide(ok, rule, f"{fn.qual}{tag} [{cls.name}]", f"reads exactly the {width} bit(s) written for `{var}` (bits {pos[:1]}..{pos[-1:]})",
                   f"`{norm(e)}` yields {sorted(fm.items())} of `{var}` (written at bits {pos}) and bits of {foreign}", "getter offset/size equal to the producer's shift", A.loc(fn.module.relpath, fn.node))


def rule_flags(ctx) -> None:
    chk, prog = ctx.chk, ctx.prog
    # container flags
    base = ctx.cls(CNT, "AHABContainerBase")
    sf = ctx.own(CNT, "AHABContainerBase", "set_flags")
    try:
        u = _producer_bits(ctx, sf, base, "flags", {"FlagsSrkSet.from_attr(srk_set.lower()).tag": ("srk_set", 2), "used_srk_id": ("used_srk_id", 2), "srk_revoke_mask": ("srk_revoke_mask", 4)})
    except _Overlap as o:
        chk.bad("C06.flags", sf.qual, str(o), "flag fields do not overlap", A.loc(CNT, sf.node))
        return
    chk.decide(norm(A.body_of(sf.node)[-1]) == "self.flags = flags", "C06.flags", sf.qual, "the composed word is stored in self.flags", norm(A.body_of(sf.node)[-1]), "", A.loc(CNT, sf.node))
    for g, var, w in (("flag_srk_set", "srk_set", 2), ("flag_used_srk_id", "used_srk_id", 2), ("flag_srk_revoke_keys", "srk_revoke_mask", 4)):
        _check_getter(ctx, "C06.flags", ctx.own(CNT, "AHABContainerBase", g), base, "self.flags", u, var, w)
    # constructor derives the chip config from the same getters
    init = ctx.own(CNT, "AHABContainerBase", "__init__")
    cc = [c for c in A.calls_in(init.node, "AhabChipContainerConfig")]
    kws = {k.arg: norm(k.value) for k in cc[0].keywords} if cc else {}
    chk.decide(kws.get("used_srk_id") == "self.flag_used_srk_id" and kws.get("srk_set") == "self.flag_srk_set" and kws.get("srk_revoke_keys") == "self.flag_srk_revoke_keys", "C06.flags", init.qual,
               "chip_config.used_srk_id / srk_set / srk_revoke_keys come from the flag getters", f"{kws}", "", A.loc(CNT, init.node))
    # configuration-only flags: gdet (v1/v2) and check_all_signatures (v2)
    for cn, getter, var, symtxt_part in (("AHABContainer", "flag_gdet_runtime_behavior", "gdet", "FlagsGdetBehavior"), ("AHABContainerV2", "flag_check_all_signatures", "check_all", "FlagsCheckAllSignatures")):
        cls = ctx.cls(CNT, cn)
        lf = ctx.own(CNT, cn, "_load_from_config_flags")
        g = ctx.own(CNT, cn, getter)
        ge = _getter_expr(g)
        width = None
        m = ge.right
        v = prog.fold(m, cls.module, cls)
        if isinstance(v, int) and v > 0 and (v & (v + 1)) == 0:
            width = v.bit_length()
        if width is None:
            raise AnalysisError(f"C06.flags: mask of {g.qual} does not fold")
        stmts = [s for s in A.body_of(lf.node) if isinstance(s, ast.AugAssign) and norm(s.target) == "self.flags"]
        if len(stmts) != 1:
            raise AnalysisError(f"C06.flags: {lf.qual} no longer ORs one field into self.flags")
        symmap = {}
        for n in ast.walk(stmts[0].value):
            if isinstance(n, ast.Attribute) and n.attr == "tag" and symtxt_part in norm(n):
                symmap[norm(n)] = (var, width)
        try:
            uu = _producer_bits(ctx, lf, cls, "self.flags", symmap, stmts)
        except _Overlap as o:
            chk.bad("C06.flags", lf.qual, str(o), "", A.loc(CNT, lf.node))
            continue
        clash = [i for i, b in enumerate(uu) if b != 0 and u[i] != 0]
        chk.decide(not clash, "C06.flags", lf.qual + " vs set_flags", f"`{var}` does not overlap the SRK fields", f"bits {clash} are also written by set_flags", "", A.loc(CNT, lf.node))
        _check_getter(ctx, "C06.flags", g, cls, "self.flags", uu, var, width)
        chk.decide("super()._load_from_config_flags(config)" in norm(A.body_of(lf.node)[1] if isinstance(A.body_of(lf.node)[0], ast.Expr) and isinstance(A.body_of(lf.node)[0].value, ast.Constant) else A.body_of(lf.node)[0]),
                   "C06.flags", lf.qual + " order", "the base flags are set before the extra field is ORed in", "", "", A.loc(CNT, lf.node))
    # image array entry flags and metadata, for both entry versions
    for cn in ("ImageArrayEntry", "ImageArrayEntryV2"):
        cls = ctx.cls(IAE, cn)
        cf = prog.find_method(cls, "create_flags")
        hsz = prog.fold(prog.find_const(cls, "FLAGS_HASH_SIZE")[1], cls.module, cls)
        widths = {"image_type": 4, "core_id": 4, "hash_type.tag": hsz, "is_encrypted": 1, "boot_flags": 15}
        try:
            uf = _producer_bits(ctx, cf, cls, "flags_data", {k: (k.split(".")[0], w) for k, w in widths.items()})
        except _Overlap as o:
            chk.bad("C06.flags", f"{cf.qual} [{cn}]", str(o), "image flag fields do not overlap", A.loc(IAE, cf.node))
            continue
        chk.decide(norm(A.returns_in(cf.node)[-1].value) == "flags_data", "C06.flags", f"{cf.qual} returns [{cn}]", "returns the composed word", "", "", A.loc(IAE, cf.node))
        for g, var, w in (("flags_image_type", "image_type", 4), ("flags_core_id", "core_id", 4), ("get_hash_from_flags", "hash_type", hsz), ("flags_is_encrypted", "is_encrypted", 1), ("flags_boot_flags", "boot_flags", 15)):
            src = "flags" if g == "get_hash_from_flags" else "self.flags"
            _check_getter(ctx, "C06.flags", prog.find_method(cls, g), cls, src, uf, var, w)
        # parse derives already_encrypted_image from the same bit
        pa = prog.find_method(cls, "parse")
        enc = [k.value for c in A.calls_in(pa.node) if norm(c.func) == "cls" for k in c.keywords if k.arg == "already_encrypted_image"]
        if len(enc) != 1:
            raise AnalysisError("C06.flags: ImageArrayEntry.parse already_encrypted_image not found")
        got = bitprov.BitEval({}, lambda x: prog.fold(x, cls.module, cls), lambda x: list(uf) if norm(x) == "flags" else None).ev(enc[0])
        chk.decide(bitprov.field_of(got, "is_encrypted") == {0: (0, False)} and not [b for b in got if isinstance(b, tuple) and b[0] != "is_encrypted"], "C06.flags", f"{pa.qual} already_encrypted_image [{cn}]",
                   "a parsed entry is marked already-encrypted exactly when its encrypted flag bit is set", norm(enc[0]), "", A.loc(IAE, pa.node))
        # verify_flags hash_val
        vf = prog.find_method(cls, "verify")
        hv = [s.value for s in ast.walk(vf.node) if isinstance(s, ast.Assign) and norm(s.targets[0]) == "hash_val"]
        if len(hv) == 1:
            got = bitprov.BitEval({}, lambda x: prog.fold(x, cls.module, cls), lambda x: list(uf) if norm(x) == "self.flags" else None).ev(hv[0])
            chk.decide(bitprov.field_of(got, "hash_type") == {i: (i, False) for i in range(hsz)}, "C06.flags", f"{vf.qual} hash_val [{cn}]", "the verifier reads the hash field written by create_flags", norm(hv[0]), "", A.loc(IAE, vf.node))
        cm = prog.find_method(cls, "create_meta")
        try:
            um = _producer_bits(ctx, cm, cls, "meta_data", {"start_cpu_id": ("start_cpu_id", 10), "mu_cpu_id": ("mu_cpu_id", 10), "start_partition_id": ("start_partition_id", 8)})
        except _Overlap as o:
            chk.bad("C06.flags", f"{cm.qual} [{cn}]", str(o), "", A.loc(IAE, cm.node))
            continue
        for g, var, w in (("metadata_start_cpu_id", "start_cpu_id", 10), ("metadata_mu_cpu_id", "mu_cpu_id", 10), ("metadata_start_partition_id", "start_partition_id", 8)):
            _check_getter(ctx, "C06.flags", prog.find_method(cls, g), cls, "self.image_meta_data", um, var, w)
    lc = ctx.own(IAE, "ImageArrayEntry", "load_from_config")
    cfc = [c for c in A.calls_in(lc.node, "create_flags")]
    kws = {k.arg: norm(k.value) for k in cfc[0].keywords} if cfc else {}
    ok = kws.get("core_id") == "core_id" and kws.get("is_encrypted") == "is_encrypted" and "config.get('hash_type'" in kws.get("hash_type", "") and "config.get('image_type'" in kws.get("image_type", "") and "config.get('boot_flags'" in kws.get("boot_flags", "")
    cmc = [c for c in A.calls_in(lc.node, "create_meta")]
    margs = [norm(a) for a in cmc[0].args] if cmc else []
    ok = ok and [("start_cpu_id" in margs[0]), ("mu_cpu_id" in margs[1]), ("start_partition_id" in margs[2])] == [True] * 3 if len(margs) == 3 else False
    chk.decide(ok, "C06.flags", lc.qual, "configuration keys reach the flag/metadata fields of the same name", f"{kws} / {margs}", "", A.loc(IAE, lc.node))
    chk.floor("C06.flags", 30)


# --------------------------------------------------------------------------- verifier widths
def _packed_bits(ctx, cls: ClassInfo, wname: str) -> Dict[str, int]:
    fn = ctx.prog.find_method(cls, wname)
    if fn is None:
        raise AnalysisError(f"C06.verify-width: {cls.name}.{wname} not found")
    packs = [c for c in A.calls_in(fn.node, "pack")]
    out: Dict[str, int] = {}
    for p in packs:
        fmt = ctx.prog.fold(p.args[0], fn.module, cls)
        its = struct_items(fmt) if isinstance(fmt, str) else None
        if not its:
            continue
        vals = [i for i in its if i[0] != "x"]
        if len(vals) != len(p.args) - 1:
            continue
        for (code, sz), a in zip(vals, p.args[1:]):
            if code not in "sp":
                out[norm(a)] = sz * 8
    return out


VERIFY_SITES = [
    (CNT, "AHABContainerBase", "_export", "_verify"),
    (IAE, "ImageArrayEntry", "export", "verify"),
    (SB, "SignatureBlock", "export", "verify"),
    (SB, "SignatureBlockV2", "export", "verify"),
    (BLOB, "AhabBlob", "export", "verify"),
    (CERT, "AhabCertificate", "get_signature_data", "verify"),
    (SRK, "SRKRecordBase", "export", "_verify"),
    (SRK, "SRKData", "export", "verify"),
]


def rule_verify_width(ctx) -> None:
    chk, prog = ctx.chk, ctx.prog
    n_armed = 0
    for rp, cn, wn, vn in VERIFY_SITES:
        cls = ctx.cls(rp, cn)
        packed = _packed_bits(ctx, cls, wn)
        vf = prog.find_method(cls, vn)
        if vf is None:
            raise AnalysisError(f"C06.verify-width: {cn}.{vn} not found")
        chk.analysed(vf.qual)
        seen: Dict[str, set] = {}
        for c in [x for x in ast.walk(vf.node) if isinstance(x, ast.Call) and isinstance(x.func, ast.Attribute) and x.func.attr in ("add_record_bit_range", "add_record_range")]:
            label = norm(c.args[0]) if c.args else "?"
            val = A.arg_of(c, 1, "value")
            if val is None:
                continue
            vt = norm(val)
            bits = packed.get(vt)
            how = "struct item"
            if bits is None and isinstance(val, ast.Attribute) and isinstance(val.value, ast.Name) and val.value.id == "self":
                g = prog.find_method(cls, val.attr)
                if g is not None and "property" in g.decorators:
                    try:
                        m = prog.fold(_getter_expr(g).right, cls.module, cls)
                        if isinstance(m, int) and m > 0 and (m & (m + 1)) == 0:
                            bits, how = m.bit_length(), "flag field"
                    except AnalysisError:
                        pass
            if bits is None:
                chk.report(f"C06.verify-width: {vf.qual} record {label} on `{vt}` - value is not a packed field of {cn} (not armed)")
                continue
            n_armed += 1
            if c.func.attr == "add_record_bit_range":
                w = A.arg_of(c, 2, "bit_range")
                wv = prog.fold(w, vf.module, cls) if w is not None else 32
                seen.setdefault(vt, set()).add(wv)
                chk.decide(wv == bits, "C06.verify-width", f"{vf.qual} record {label}", f"`{vt}` ({how}, {bits} bits) is range-checked against {bits} bits",
                           f"`{vt}` is a {bits}-bit {how} but is checked against {wv} bits", f"bit_range={bits}", A.loc(rp, c))
            else:
                mx = A.arg_of(c, 3, "max_val")
                mv = prog.fold(mx, vf.module, cls) if mx is not None else (1 << 32) - 1
                chk.decide(isinstance(mv, int) and mv <= (1 << bits) - 1, "C06.verify-width", f"{vf.qual} record {label}", f"`{vt}` ({how}, {bits} bits) upper bound {mv} fits its field",
                           f"`{vt}` is a {bits}-bit {how} but the accepted maximum is {mv}", "", A.loc(rp, c))
        for vt, ws in seen.items():
            if len(ws) > 1:
                chk.bad("C06.verify-width", f"{vf.qual} `{vt}`", f"the same value is checked against {sorted(ws)} bits under different labels", "one value has one width (a label is attached to the wrong field)", A.loc(rp, vf.node))
    # required: the 16-bit SW version and the 8-bit fuse version have their own records
    vf = ctx.own(CNT, "AHABContainerBase", "_verify")
    recs = {norm(A.arg_of(c, 1, "value")) for c in ast.walk(vf.node) if isinstance(c, ast.Call) and isinstance(c.func, ast.Attribute) and c.func.attr.startswith("add_record_") and A.arg_of(c, 1, "value") is not None}
    need = {"self.flags", "self.sw_version", "self.fuse_version", "self._signature_block_offset"}
    chk.decide(need <= recs, "C06.verify-width", vf.qual + " coverage", "flags, SW version, fuse version and signature block offset each have a range record", f"missing records for {sorted(need - recs)}", "", A.loc(CNT, vf.node))
    chk.floor("C06.verify-width", 12)
    if n_armed < 10:
        raise AnalysisError(f"C06.verify-width: only {n_armed} verifier records could be tied to packed fields (expected >= 10)")


def rule_range_helper(ctx) -> None:
    fn = ctx.func(MISC, "check_range")
    c20.guard_decide(ctx, "C06.range-helper", fn, ["x", "start", "end"], lambda e: ("return", e["start"] <= e["x"] <= e["end"]), lo=-1, hi=4)
    # add_record_bit_range / add_record_range on the order types
    v = ctx.own(VER, "Verifier", "add_record_bit_range")
    probs2 = []
    n2 = 0
    for bits in (1, 4, 8):
        for value in (None, -1, 0, 1, (1 << bits) - 1, 1 << bits, (1 << bits) + 5):
            res = {}

            def hook2(c: ast.Call, ev: Evaluator, res=res) -> bool:
                if norm(c.func) == "self.add_record":
                    res["r"] = norm(c.args[1])
                    return True
                return False

            def sym2(e: ast.expr):
                if isinstance(e, ast.Call) and A.call_name(e) == "check_range":
                    x = holder3["ev"].ev(e.args[0])
                    end = holder3["ev"].ev(A.arg_of(e, 2, "end")) if A.arg_of(e, 2, "end") is not None else (1 << 32) - 1
                    start = holder3["ev"].ev(A.arg_of(e, 1, "start")) if A.arg_of(e, 1, "start") is not None else 0
                    return start <= x <= end
                if isinstance(e, ast.JoinedStr):
                    return "text"
                return None
            holder3 = {}
            ev = Evaluator({"value": value, "bit_range": bits, "name": "n", "important": True}, sym=sym2, call_hook=hook2)
            holder3["ev"] = ev
            try:
                ev.run(A.body_of(v.node))
            except Unsupported as u:
                raise AnalysisError(f"C06.range-helper: add_record_bit_range left the fragment: {u}")
            n2 += 1
            want = "VerifierResult.SUCCEEDED" if (value is not None and 0 <= value <= (1 << bits) - 1) else "VerifierResult.ERROR"
            if res.get("r") != want:
                probs2.append(f"value={value} bits={bits}: {res.get('r')}")
    ctx.chk.decide(not probs2, "C06.range-helper", v.qual, f"ERROR unless 0 <= value <= 2**bit_range - 1 ({n2} evaluated points incl. None)", "; ".join(probs2[:3]), "", A.loc(VER, v.node))
    r = ctx.own(VER, "Verifier", "add_record_range")

    def hook(c: ast.Call, ev: Evaluator) -> bool:
        if norm(c.func) == "self.add_record":
            ev.env["__res__"] = norm(c.args[1])
            return True
        return False
    probs = []
    n = 0
    for value, lo, hi in itertools.product(range(-1, 5), range(0, 3), range(1, 4)):
        ev = Evaluator({"value": value, "min_val": lo, "max_val": hi, "name": "n"}, call_hook=hook)
        try:
            ev.run(A.body_of(r.node))
        except Unsupported as u:
            raise AnalysisError(f"C06.range-helper: add_record_range left the fragment: {u}")
        n += 1
        want = "VerifierResult.SUCCEEDED" if lo <= value <= hi else "VerifierResult.ERROR"
        if ev.env.get("__res__") != want:
            probs.append(f"value={value} min={lo} max={hi}: {ev.env.get('__res__')}")
    ctx.chk.decide(not probs, "C06.range-helper", r.qual, f"ERROR exactly outside [min_val, max_val] on {n} order-type points", "; ".join(probs[:3]), "", A.loc(VER, r.node))
    a = ctx.own(VER, "Verifier", "add_record")
    ctx.chk.decide("result = VerifierResult.SUCCEEDED if result else VerifierResult.ERROR" in norm(a.node), "C06.range-helper", a.qual, "a boolean result maps False to ERROR", norm(a.node)[:200], "", A.loc(VER, a.node))
    va = ctx.own(VER, "Verifier", "validate")
    t = norm(va.node)
    ctx.chk.decide("if self.result is VerifierResult.ERROR:" in t and "raise SPSDKVerificationError" in t, "C06.range-helper", va.qual, "validate() raises when the tree holds an ERROR", t[:200], "", A.loc(VER, va.node))


# --------------------------------------------------------------------------- signing order / signed range
def rule_sign_order(ctx) -> None:
    chk = ctx.chk
    uf = ctx.own(IMG, "AHABImage", "update_fields")
    body = A.body_of(uf.node)
    loops = [s for s in body if isinstance(s, (ast.For, ast.If))]
    sign_loops = [s for s in body if isinstance(s, ast.For) and any(A.call_name(c) == "sign_itself" for c in A.calls_in(s))]
    ok = len(sign_loops) == 1 and body[-1] is sign_loops[0]
    upd = [s for s in body if isinstance(s, ast.For) and any(A.call_name(c) == "update_fields" for c in A.calls_in(s))]
    ok = ok and len(upd) == 1 and body.index(upd[0]) < body.index(sign_loops[0]) if sign_loops and upd else False
    stores_in_sign = [norm(s) for s in ast.walk(sign_loops[0]) if isinstance(s, (ast.Assign, ast.AugAssign))] if sign_loops else ["?"]
    chk.decide(ok and not stores_in_sign and len(loops) >= 3, "C06.sign-order", uf.qual, "containers are updated, offsets assigned, and only then every container is signed (signing is the last statement; nothing is stored afterwards)",
               f"statement kinds {[type(s).__name__ for s in body]}; stores in the signing loop {stores_in_sign}", "", A.loc(IMG, uf.node))
    # AHABContainer.update_fields: encrypt -> signature block -> entries -> length
    cu = ctx.own(CNT, "AHABContainer", "update_fields")
    seq = []
    for s in A.body_of(cu.node):
        t = norm(s)
        if "encrypt_data" in t:
            seq.append("encrypt")
        elif "self.signature_block.update_fields()" in t:
            seq.append("sigblock")
        elif "image_entry.update_fields()" in t:
            seq.append("entries")
        elif t.startswith("self.length ="):
            seq.append("length")
    chk.decide(seq == ["encrypt", "sigblock", "entries", "length"], "C06.sign-order", cu.qual, "images are encrypted before they are hashed; the header length is computed after the signature block is sized", f"order {seq}", "", A.loc(CNT, cu.node))
    chk.decide(norm(A.body_of(cu.node)[-1]) == "self.length = self.header_length()", "C06.sign-order", cu.qual + " length", "length = header_length()", norm(A.body_of(cu.node)[-1]), "", A.loc(CNT, cu.node))
    bu = ctx.own(CNT, "AHABContainerBase", "update_fields")
    seq = [norm(s) for s in A.body_of(bu.node) if not (isinstance(s, ast.Expr) and isinstance(s.value, ast.Constant))]
    ok = len(seq) == 3 and "self.signature_block.update_fields()" in seq[0] and seq[1] == "self.length = self.header_length()" and seq[2] == "self.sign_itself()"
    chk.decide(ok, "C06.sign-order", bu.qual, "signature block sized, length set, then signed", "; ".join(seq)[:200], "", A.loc(CNT, bu.node))
    # get_signature_data: slice of the whole exported container up to the signature container
    gs = ctx.own(CNT, "AHABContainerBase", "get_signature_data")
    so = A.single_def(gs.node, "signature_offset")
    ret = A.returns_in(gs.node)[-1]
    ok = so is not None and norm(so) == "self._signature_block_offset + self.signature_block.signature_offset" and norm(ret.value) == "self._export()[:signature_offset]"
    chk.decide(ok, "C06.signed-range", gs.qual, "signed data = exported container [0 : signature block offset + signature offset]", f"signature_offset = {norm(so) if so is not None else None}; returns {norm(ret.value)}", "", A.loc(CNT, gs.node))
    ce = ctx.own(CNT, "AHABContainer", "_export")
    chk.decide(norm(A.returns_in(ce.node)[-1].value) == "self.export()", "C06.signed-range", ce.qual, "for image containers the signed view is the full export (header + image array + signature block)", norm(ce.node)[:100], "", A.loc(CNT, ce.node))
    si = ctx.own(CNT, "AHABContainerBase", "sign_itself")
    sc = [c for c in A.calls_in(si.node, "sign_itself")]
    ok = len(sc) == 1 and [norm(a) for a in sc[0].args] == ["self.get_signature_data()"] and "if self.flag_srk_set != FlagsSrkSet.NONE:" in norm(si.node)
    chk.decide(ok, "C06.signed-range", si.qual, "signs get_signature_data() whenever an SRK set is selected", norm(si.node)[:200], "", A.loc(CNT, si.node))
    for cn in ("SignatureBlock",):
        f = ctx.own(SB, cn, "sign_itself")
        chk.decide("self.signature.sign(data_to_sign)" in norm(f.node), "C06.signed-range", f.qual, "passes the data to the signature container unchanged", norm(f.node)[:160], "", A.loc(SB, f.node))
    cs = ctx.own(SIG, "ContainerSignature", "sign")
    chk.decide("self._signature_data = self.signature_provider.get_signature(data_to_sign)" in norm(cs.node), "C06.signed-range", cs.qual, "signature = provider.get_signature(data_to_sign)", norm(cs.node)[:200], "", A.loc(SIG, cs.node))
    # verifier twin: authenticity is checked over the same bytes
    cv = ctx.own(CNT, "AHABContainer", "verify")
    vc = [c for c in ast.walk(cv.node) if isinstance(c, ast.Call) and A.call_name(c) == "verify_container_authenticity"]
    chk.decide(len(vc) == 1 and [norm(a) for a in vc[0].args] == ["self.get_signature_data()"], "C06.producer-verifier-twin", cv.qual + " authenticity", "the verifier checks the signature over get_signature_data() - the bytes that were signed",
               f"{[norm(a) for a in vc[0].args] if vc else None}", "", A.loc(CNT, cv.node))
    ie = ctx.own(IMG, "AHABImage", "export")
    b = [norm(s) for s in A.body_of(ie.node) if not (isinstance(s, ast.Expr) and isinstance(s.value, ast.Constant))]
    chk.decide(b[:1] == ["self.verify().validate()"], "C06.sign-order", ie.qual, "export refuses an image its own verifier reports as erroneous", "; ".join(b), "", A.loc(IMG, ie.node))


# --------------------------------------------------------------------------- twins: image hash, IV, decryption
def _hash_data_expr(ctx, fn: FuncInfo, cls: ClassInfo, node: ast.AST, depth: int = 0) -> List[Tuple[str, str]]:
    """(data expression, algorithm expression) of get_hash calls in node, following self-helper calls one level."""
    out = []
    for c in A.calls_in(node, "get_hash"):
        d = A.arg_of(c, 0, "data")
        al = A.arg_of(c, 1, "algorithm")
        out.append((norm(A.inline_locals(fn.node, d)) if d is not None else "?", norm(A.inline_locals(fn.node, al)) if al is not None else "<default>"))
    if depth < 2:
        for c in [x for x in ast.walk(node) if isinstance(x, ast.Call)]:
            f = c.func
            if isinstance(f, ast.Attribute) and isinstance(f.value, ast.Name) and f.value.id == "self" and not c.args:
                tgt = ctx.prog.find_method(cls, f.attr)
                if tgt is not None and tgt.module is fn.module and f.attr not in ("get_hash_from_flags", "_get_valid_size"):
                    out += _hash_data_expr(ctx, tgt, cls, tgt.node, depth + 1)
    return out


def rule_twins(ctx) -> None:
    chk, prog = ctx.chk, ctx.prog
    cls = ctx.cls(IAE, "ImageArrayEntry")
    uf = ctx.own(IAE, "ImageArrayEntry", "update_fields")
    vf = ctx.own(IAE, "ImageArrayEntry", "verify")
    WANT = ("extend_block(self.image, self.image_size)", "self.get_hash_from_flags(self.flags)")
    # producer
    hb = [s for s in A.body_of(uf.node) if isinstance(s, ast.If) and norm(s.test) == "not self.image_hash"]
    if len(hb) != 1:
        raise AnalysisError("C06.producer-verifier-twin: `if not self.image_hash` not found in ImageArrayEntry.update_fields")
    prod = _hash_data_expr(ctx, uf, cls, hb[0])
    vh = [n for n in ast.walk(vf.node) if isinstance(n, ast.FunctionDef) and n.name == "verify_hash_format"]
    if len(vh) != 1:
        raise AnalysisError("C06.producer-verifier-twin: verify_hash_format not found")
    ver = _hash_data_expr(ctx, vf, cls, vh[0])
    chk.decide(prod == [WANT], "C06.image-hash", uf.qual, "image hash = H(image extended to image_size) with the algorithm of the entry's flags (the bytes the image occupies in the exported file)",
               f"hash computed over {prod}", "get_hash(extend_block(self.image, self.image_size), algorithm=self.get_hash_from_flags(self.flags))", A.loc(IAE, hb[0]))
    chk.decide(ver == [WANT], "C06.image-hash", vf.qual + ".verify_hash_format", "the verifier recomputes the hash over the same size-extended bytes with the same algorithm",
               f"verifier hashes {ver}", "", A.loc(IAE, vh[0]))
    chk.decide(prod == ver, "C06.producer-verifier-twin", "ImageArrayEntry image hash", "producer and verifier hash the same expression", f"producer {prod} vs verifier {ver}", "", A.loc(IAE, vh[0]))
    # both are padded to HASH_LEN with zeros
    for fn, node in ((uf, hb[0]), (vf, vh[0])):
        ebs = [c for c in A.calls_in(node, "extend_block") if norm(A.arg_of(c, 1, "length")) == "self.HASH_LEN"]
        ok = len(ebs) == 1 and norm(A.arg_of(ebs[0], 2, "padding")) == "0"
        helper = [c for c in ast.walk(node) if isinstance(c, ast.Call) and isinstance(c.func, ast.Attribute) and norm(c.func.value) == "self" and prog.find_method(cls, c.func.attr) is not None and
                  any(norm(A.arg_of(x, 1, "length")) == "self.HASH_LEN" for x in A.calls_in(prog.find_method(cls, c.func.attr).node, "extend_block"))]
        chk.decide(ok or bool(helper), "C06.image-hash", f"{fn.qual} padding", "digest left-aligned and zero-padded to HASH_LEN", norm(node)[:160], "", A.loc(IAE, node))
    # the exported data image is the same bytes: BinaryImage(binary=image, size=image_size, offset=image_offset)
    ii = ctx.own(IMG, "AHABImage", "image_info")
    di = [c for c in A.calls_in(ii.node, "BinaryImage") if A.arg_of(c, 99, "binary") is not None]
    kws = {k.arg: norm(k.value) for k in di[0].keywords} if di else {}
    chk.decide(kws.get("binary") == "image_entry.image" and kws.get("size") == "image_entry.image_size" and kws.get("offset") == "image_entry.image_offset", "C06.image-hash", ii.qual + " data image",
               "each entry's image is exported at its image_offset with size image_size (zero filled) - the bytes that were hashed", f"{kws}", "", A.loc(IMG, ii.node))
    # image_offset <-> _image_offset (container relative)
    g, s = ctx.own(IAE, "ImageArrayEntry", "image_offset"), ctx.own(IAE, "ImageArrayEntry", "image_offset", "setter")
    ok = norm(A.returns_in(g.node)[-1].value) == "self._image_offset + self.chip_config.container_offset" and norm(A.body_of(s.node)[-1]) == "self._image_offset = offset - self.chip_config.container_offset"
    chk.decide(ok, "C06.image-hash", g.qual + " getter/setter", "absolute offset = stored container-relative offset + container offset, and the setter is its inverse", "", "", A.loc(IAE, g.node))
    # IV = SHA-256(plain image) at every site
    sites = []
    init = ctx.own(IAE, "ImageArrayEntry", "__init__")
    for fn in (init, uf):
        for c in A.calls_in(fn.node, "get_hash"):
            d, al = norm(A.arg_of(c, 0, "data")), norm(A.arg_of(c, 1, "algorithm")) if A.arg_of(c, 1, "algorithm") is not None else "<default>"
            if "plain_image" in d:
                sites.append((fn.qual, d, al))
    ok = len(sites) == 2 and all(d == "self.plain_image" and al == "EnumHashAlgorithm.SHA256" for _q, d, al in sites)
    chk.decide(ok, "C06.encryption", "ImageArrayEntry IV", "IV field = SHA-256 of the plain image in the constructor and in update_fields", f"{sites}", "", A.loc(IAE, uf.node))
    ivs = [s for s in A.body_of(uf.node) if isinstance(s, ast.If) and "self.image_iv.count(0) == len(self.image_iv)" in norm(s.test) and "self.flags_is_encrypted" in norm(s.test)]
    chk.decide(len(ivs) == 1, "C06.encryption", uf.qual + " IV guard", "the IV is (re)computed only for encrypted images whose IV is still all zeros", "", "", A.loc(IAE, uf.node))
    # encrypt / decrypt twins in the container
    cu = ctx.own(CNT, "AHABContainer", "update_fields")
    enc = [c for c in A.calls_in(cu.node, "encrypt_data")]
    e_args = [norm(a) for a in enc[0].args] if enc else []
    tgt = norm(A.enclosing_stmt(enc[0]).targets[0]) if enc and isinstance(A.enclosing_stmt(enc[0]), ast.Assign) else None
    chk.decide(e_args == ["image_entry.image_iv[16:]", "image_entry.plain_image"] and tgt == "image_entry.encrypted_image", "C06.encryption", cu.qual + " encrypt",
               "encrypted image = blob.encrypt_data(second half of the IV field, plain image)", f"{tgt} = encrypt_data({e_args})", "", A.loc(CNT, cu.node))
    enc_if = [s for s in ast.walk(cu.node) if isinstance(s, ast.If) and "image_entry.flags_is_encrypted" in norm(s.test)]
    t = norm(enc_if[0].test) if enc_if else ""
    chk.decide("not image_entry.already_encrypted_image" in t and "image_entry.already_encrypted_image = True" in norm(enc_if[0]) if enc_if else False, "C06.encryption", cu.qual + " once",
               "an image is encrypted once (guarded by already_encrypted_image, set after encryption)", t, "", A.loc(CNT, cu.node))
    for fn in (ctx.own(CNT, "AHABContainer", "decrypt_data"), ctx.own(CNT, "AHABContainer", "verify")):
        dec = [c for c in ast.walk(fn.node) if isinstance(c, ast.Call) and A.call_name(c) == "decrypt_data"]
        d_args = [norm(a) for a in dec[0].args] if dec else []
        cmp_ok = "image_entry.image_iv == get_hash(decrypted_data, algorithm=EnumHashAlgorithm.SHA256)" in norm(fn.node)
        chk.decide(len(dec) == 1 and d_args == ["image_entry.image_iv[16:]", "image_entry.encrypted_image"] and cmp_ok, "C06.encryption", fn.qual + " decrypt",
                   "decrypts the encrypted image with the same IV half and accepts only when SHA-256(plain) equals the IV field", f"decrypt_data({d_args}); IV comparison present: {cmp_ok}", "", A.loc(CNT, fn.node))
    v = ctx.own(CNT, "AHABContainer", "verify")
    bad_branch = [s for s in ast.walk(v.node) if isinstance(s, ast.If) and "image_entry.image_iv == get_hash(decrypted_data" in norm(s.test)]
    ok = len(bad_branch) == 1 and any("VerifierResult.ERROR" in norm(x) for x in bad_branch[0].orelse) and not any("VerifierResult.ERROR" in norm(x) for x in bad_branch[0].body)
    chk.decide(ok, "C06.must-check", v.qual + " decrypted data", "a decryption whose hash differs from the IV field is recorded as ERROR", "", "", A.loc(CNT, v.node))
    # blob: encrypt and decrypt use paired primitives with (dek, data, iv)
    be, bd = ctx.own(BLOB, "AhabBlob", "encrypt_data"), ctx.own(BLOB, "AhabBlob", "decrypt_data")
    de = [n for n in ast.walk(be.node) if isinstance(n, ast.Dict)][0]
    dd = [n for n in ast.walk(bd.node) if isinstance(n, ast.Dict)][0]
    me = {norm(k): norm(v_) for k, v_ in zip(de.keys, de.values)}
    md = {norm(k): norm(v_) for k, v_ in zip(dd.keys, dd.values)}
    ok = set(me) == set(md) and all(me[k].replace("encrypt", "") == md[k].replace("decrypt", "") for k in me)
    re_, rd = norm(A.returns_in(be.node)[-1].value), norm(A.returns_in(bd.node)[-1].value)
    ok = ok and re_ == "encryption_methods[self.algorithm](self.dek, data, iv)" and rd == "decryption_methods[self.algorithm](self.dek, encrypted_data, iv)"
    chk.decide(ok, "C06.encryption", f"{BLOB}::AhabBlob encrypt/decrypt", "the same algorithm table on both sides, called with (DEK, data, IV)", f"{me} / {md}; {re_} / {rd}", "", A.loc(BLOB, be.node))
    # signature verification result is recorded as is
    for cn in ("SignatureBlock", "SignatureBlockV2"):
        f = ctx.own(SB, cn, "verify_container_authenticity")
        vs = [c for c in ast.walk(f.node) if isinstance(c, ast.Call) and isinstance(c.func, ast.Attribute) and c.func.attr == "verify_signature"]
        n_ok = 0
        for c in vs:
            st = A.enclosing_stmt(c)
            if not isinstance(st, ast.Assign):
                continue
            var = norm(st.targets[0])
            args = [norm(a) for a in c.args]
            recs = [r for r in ast.walk(f.node) if isinstance(r, ast.Call) and A.call_name(r) == "add_record" and len(r.args) >= 2 and norm(r.args[1]) == var]
            if recs and len(args) >= 2 and args[1] in ("data_to_sign", "bytes(data_to_sign)") and "signature_data" in args[0]:
                n_ok += 1
        chk.decide(bool(vs) and n_ok == len(vs), "C06.must-check", f.qual, f"each of {len(vs)} verify_signature(signature, data_to_sign) results is recorded as the record's result (False -> ERROR)",
                   f"{n_ok} of {len(vs)} results reach a record", "", A.loc(SB, f.node))


# --------------------------------------------------------------------------- revoke mask
def rule_revoke(ctx) -> None:
    chk = ctx.chk
    for cn in ("SignatureBlock", "SignatureBlockV2"):
        f = ctx.own(SB, cn, "verify_container_authenticity")
        ifs = [s for s in ast.walk(f.node) if isinstance(s, ast.If) and any("is revoked" in norm(x) for x in s.body) and "used_srk_id" in norm(s.test)]
        if len(ifs) != 1:
            raise AnalysisError(f"C06.revoke: revoked-key decision not found in {f.qual}")
        probs = []
        for uid, mask in itertools.product(range(4), range(16)):
            ev = Evaluator({"self.chip_config.used_srk_id": uid, "self.chip_config.srk_revoke_keys": mask})
            try:
                got = bool(ev.ev(ifs[0].test))
            except Unsupported as u:
                raise AnalysisError(f"C06.revoke: {f.qual} test left the fragment: {u}")
            if got != bool((mask >> uid) & 1):
                probs.append(f"used_srk_id={uid}, revoke mask={mask:#06b}: reported {'revoked' if got else 'not revoked'}")
        chk.decide(not probs, "C06.revoke", f.qual, "the used SRK is reported revoked exactly when its bit is set in the revoke mask (64 cases)", "; ".join(probs[:3]), "(1 << used_srk_id) & srk_revoke_keys", A.loc(SB, ifs[0]))
        err = any("VerifierResult.ERROR" in norm(x) for x in ifs[0].body) and not any("VerifierResult.ERROR" in norm(x) for x in ifs[0].orelse)
        chk.decide(err, "C06.revoke", f.qual + " polarity", "revoked -> ERROR, otherwise SUCCEEDED", "", "", A.loc(SB, ifs[0]))


# --------------------------------------------------------------------------- signature block windows
def _align(n: int, a: int) -> int:
    return ((n + a - 1) // a) * a


def rule_windows(ctx) -> None:
    chk, prog = ctx.chk, ctx.prog
    for cn in ("SignatureBlock", "SignatureBlockV2"):
        cls = ctx.cls(SB, cn)
        ex = ctx.own(SB, cn, "export")
        uf = ctx.own(SB, cn, "update_fields")
        aligned = "CONTAINER_ALIGNMENT" in norm(uf.node)
        # (1) every sub-block is written at [off : off + len(block)] under `if self.block`
        wins = []
        for st in ast.walk(ex.node):
            if isinstance(st, ast.Assign) and isinstance(st.targets[0], ast.Subscript) and isinstance(st.targets[0].slice, ast.Slice) and norm(st.targets[0].value) == "signature_block":
                sl = st.targets[0].slice
                guard = [norm(a.test) for a in A.ancestors(st) if isinstance(a, ast.If)]
                wins.append((sl.lower, sl.upper, norm(st.value), guard))
        blocks = [w for w in wins if w[2].endswith(".export()")]
        probs = []
        offs_expr: Dict[str, ast.expr] = {}
        for lo, hi, src, guard in blocks:
            obj = src[:-len(".export()")]
            if norm(hi) != f"{norm(lo)} + len({obj})" or guard[:1] != [obj]:
                probs.append(f"{obj} written to [{norm(lo)}:{norm(hi)}] under {guard}")
            offs_expr[obj] = A.inline_locals(ex.node, lo)
        hdr = [w for w in wins if not w[2].endswith(".export()")]
        ok_hdr = len(hdr) == 1 and norm(hdr[0][0]) == "0" and norm(hdr[0][1]) == "self.fixed_length()" and hdr[0][2] == "extended_header"
        chk.decide(not probs and ok_hdr and len(blocks) >= 4, "C06.block-windows", ex.qual, f"header at [0:fixed_length]; each of {len(blocks)} sub-blocks at [its offset : offset + its length], only when present",
                   "; ".join(probs) or f"header window {[(norm(h[0]), norm(h[1]), h[2]) for h in hdr]}", "", A.loc(SB, ex.node))
        # the offsets written in the header are the attributes used for the windows
        packed = [norm(a) for a in [c for c in A.calls_in(ex.node, "pack")][0].args[1:]]
        miss = [norm(v) for v in offs_expr.values() if not any(isinstance(n, ast.Attribute) and norm(n) in packed for n in ast.walk(v))]
        chk.decide(not miss, "C06.block-windows", ex.qual + " header offsets", "every window offset is (derived from) an offset packed in the signature block header", f"window offsets not in the header: {miss}", "", A.loc(SB, ex.node))
        # (2) update_fields on a finite model: presence x lengths
        names = sorted(offs_expr)
        fixed = prog.fold(ast.parse("calcsize(cls.format())").body[0].value, cls.module, cls)
        if not isinstance(fixed, int):
            raise AnalysisError(f"C06.block-windows: header size of {cn} does not fold")
        lens_dom = (8, 12, 100)
        n = 0
        probs = []
        for present in itertools.product((False, True), repeat=len(names)):
            P = dict(zip(names, present))
            if P.get("self.signature_2") and not P.get("self.signature"):
                continue  # the second signature only exists next to the first one
            for lens in itertools.product(lens_dom, repeat=sum(present)):
                li = iter(lens)
                L = {nm: (next(li) if p else 0) for nm, p in zip(names, present)}

                def sym(e: ast.expr, _L=L, _P=P):
                    t = norm(e)
                    if t in _P:
                        return _P[t]
                    if isinstance(e, ast.Call) and norm(e.func) == "len" and norm(e.args[0]) in _L:
                        return _L[norm(e.args[0])]
                    if t == "calcsize(self.format())":
                        return fixed
                    if t == "CONTAINER_ALIGNMENT":
                        return 8
                    return None

                class Ev(Evaluator):
                    def ev(self, e):
                        if isinstance(e, ast.Call) and norm(e.func) == "align" and len(e.args) == 2:
                            return _align(self.ev(e.args[0]), self.ev(e.args[1]))
                        return super().ev(e)
                ev = Ev({}, sym=sym, ignore_calls=("update_fields",))
                try:
                    ev.run(A.body_of(uf.node))
                except Unsupported as u:
                    raise AnalysisError(f"C06.block-windows: {uf.qual} left the evaluable fragment: {u}")
                n += 1
                spans = []
                for nm in names:
                    plain = isinstance(offs_expr[nm], ast.Attribute)
                    if not P[nm]:
                        if plain and ev.env.get(norm(offs_expr[nm])) != 0:
                            probs.append(f"absent {nm} gets offset {ev.env.get(norm(offs_expr[nm]))}")
                        continue
                    try:
                        off = ev.ev(offs_expr[nm])
                    except Unsupported:
                        off = None
                    if not isinstance(off, int) or off < fixed or (aligned and plain and off % 8):
                        probs.append(f"{nm}: offset {off} (header is {fixed} B{', alignment 8' if aligned else ''}) with lengths {L}")
                        continue
                    spans.append((off, off + L[nm], nm))
                spans.sort()
                for (a0, a1, an), (b0, _b1, bn) in zip(spans, spans[1:]):
                    if a1 > b0:
                        probs.append(f"{an} [{a0}:{a1}] overlaps {bn} at {b0} with lengths {L}")
                end = max([s_[1] for s_ in spans], default=_align(fixed, 8) if aligned else fixed)
                if ev.env.get("self.length") != end:
                    probs.append(f"length {ev.env.get('self.length')} but the last block ends at {end} ({L})")
            if len(probs) > 3:
                break
        chk.decide(not probs, "C06.block-windows", uf.qual, f"on {n} (presence, length) models: present blocks get {'aligned, ' if aligned else ''}pairwise disjoint offsets behind the header, absent blocks offset 0, length = end of the last block",
                   "; ".join(probs[:3]), "", A.loc(SB, uf.node))


# --------------------------------------------------------------------------- SRK tables / hash
def rule_srk_verify_index(ctx) -> None:
    """The SRK record verifiers compare each key parameter with ITS OWN entry of KEY_SIZES: parameter k with KEY_SIZES[key_size][k-1]
    (a valid RSA record has parameters of different sizes; comparing parameter 2 with entry 0 reports it as erroneous)."""
    chk = ctx.chk
    n = 0
    for cn in ("SRKRecord", "SRKRecordV2"):
        vf = ctx.own(SRK, cn, "verify")
        for c in ast.walk(vf.node):
            if not (isinstance(c, ast.Compare) and len(c.ops) == 1 and isinstance(c.ops[0], (ast.NotEq, ast.Eq))):
                continue
            l, r = c.left, c.comparators[0]
            if not (isinstance(l, ast.Call) and A.call_name(l) == "len" and l.args and isinstance(r, ast.Subscript) and "KEY_SIZES" in norm(r)):
                continue
            subj = norm(l.args[0])
            m = re.search(r"param(\d)", subj)
            idx = ctx.prog.fold(r.slice, vf.module, vf.cls)
            if not m or not isinstance(idx, int):
                continue
            n += 1
            chk.decide(idx == int(m.group(1)) - 1, "C06.srk-verify-index", f"{vf.qual} `{subj}`", f"len({subj}) is compared with KEY_SIZES[key_size][{int(m.group(1)) - 1}]",
                       f"len({subj}) is compared with {norm(r)}", f"index {int(m.group(1)) - 1}", A.loc(SRK, c))
    if n < 4:
        raise AnalysisError(f"C06.srk-verify-index: only {n} parameter length comparisons found in the SRK record verifiers")


def rule_verify_argument(ctx) -> None:
    """What a signature block hands to AhabCertificate.verify(srk) provides everything that verifier reads from it: the attributes
    read from the parameter are collected, the argument's class is taken from the constructor annotation of the attribute passed (or
    from an isinstance guard around it), and every such class must define those attributes - otherwise verifying a valid container
    raises AttributeError."""
    chk, prog = ctx.chk, ctx.prog
    cv = ctx.own(CERT, "AhabCertificate", "verify")
    pname = [a.arg for a in cv.node.args.args if a.arg != "self"][0]
    need = sorted({n.attr for n in ast.walk(cv.node) if isinstance(n, ast.Attribute) and isinstance(n.value, ast.Name) and n.value.id == pname and isinstance(n.ctx, ast.Load)})
    if not need:
        raise AnalysisError("C06.verify-argument: AhabCertificate.verify reads nothing from its SRK argument")

    def provides(k) -> set:
        out = set()
        for kk in prog.mro(k):
            out |= set(kk.methods) if hasattr(kk, "methods") else set()
            for n in ast.walk(kk.node):
                if isinstance(n, ast.FunctionDef):
                    out.add(n.name)
                if isinstance(n, ast.Attribute) and isinstance(n.value, ast.Name) and n.value.id == "self" and isinstance(n.ctx, ast.Store):
                    out.add(n.attr)
        return out
    n_sites = 0
    for cn in ("SignatureBlock", "SignatureBlockV2"):
        vf = ctx.own(SB, cn, "verify")
        kcls = ctx.cls(SB, cn)
        for c in A.calls_in(vf.node, "verify_block"):
            arg = next((k.value for k in c.keywords if k.arg == "verify_data"), None)
            if arg is None:
                continue
            n_sites += 1
            classes = []
            e = arg
            if isinstance(e, ast.IfExp) and isinstance(e.test, ast.Call) and A.call_name(e.test) == "isinstance" and isinstance(e.orelse, ast.Constant) and e.orelse.value is None:
                t = e.test.args[1]
                classes = [x.id for x in (t.elts if isinstance(t, ast.Tuple) else [t]) if isinstance(x, ast.Name)]
            elif isinstance(e, ast.Attribute) and isinstance(e.value, ast.Name) and e.value.id == "self":
                init = prog.find_method(kcls, "__init__")
                ann = next((a.annotation for a in init.node.args.args + init.node.args.kwonlyargs if a.arg == e.attr), None) if init is not None else None
                classes = sorted({x.id for x in ast.walk(ann) if isinstance(x, ast.Name) and x.id not in ("Optional", "Union", "None")}) if ann is not None else []
            if not classes:
                raise AnalysisError(f"C06.verify-argument: class of `{norm(arg)}` in {vf.qual} not determined")
            for cname in classes:
                k2 = ctx.cls(SRK, cname)
                missing = [a_ for a_ in need if a_ not in provides(k2)]
                chk.decide(not missing, "C06.verify-argument", f"{vf.qual} certificate <- {cname}", f"`{norm(arg)[:60]}` ({cname}) provides {need}, which AhabCertificate.verify reads from its SRK argument",
                           f"{cname} has no {missing} (read by AhabCertificate.verify from `{pname}`)", "an SRK table array, or no cross-check", A.loc(SB, c))
    if n_sites < 2:
        raise AnalysisError(f"C06.verify-argument: only {n_sites} certificate verification sites found")


def rule_srk(ctx) -> None:
    chk, prog = ctx.chk, ctx.prog
    base = ctx.cls(SRK, "SRKRecordBase")
    ks = prog.fold(base.consts.get("KEY_SIZES"), base.module, base)
    rsa = prog.fold(base.consts.get("RSA_KEY_TYPE"), base.module, base)
    if not isinstance(ks, dict) or not isinstance(rsa, dict):
        raise AnalysisError("C06.srk-tables: KEY_SIZES / RSA_KEY_TYPE do not fold")
    probs = [f"RSA-{bits}: type {t:#x} has sizes {ks.get(t)}" for bits, t in rsa.items() if ks.get(t) != (bits // 8, 4)]
    ecc_node = base.consts.get("ECC_KEY_TYPE")
    ecc = {norm(k).split(".")[-1]: prog.fold(v, base.module, base) for k, v in zip(ecc_node.keys, ecc_node.values)} if isinstance(ecc_node, ast.Dict) else {}
    bits_of = {"SECP256R1": 256, "SECP384R1": 384, "SECP521R1": 521}
    for cv, t in ecc.items():
        c = math.ceil(bits_of[cv] / 8)
        if ks.get(t) != (c, c):
            probs.append(f"{cv}: type {t:#x} has sizes {ks.get(t)}, coordinates are {c} B")
    if len(set(list(rsa.values()) + list(ecc.values()))) != len(rsa) + len(ecc) or len(ecc) != 3:
        probs.append(f"key type codes not distinct / incomplete: RSA {rsa}, ECC {ecc}")
    chk.decide(not probs, "C06.srk-tables", f"{SRK}::SRKRecordBase key tables", f"KEY_SIZES agrees with the modulus/exponent and coordinate sizes of {sorted(rsa)} and {sorted(ecc)}", "; ".join(probs), "", A.loc(SRK, base.node))
    for cn in ("SRKRecordBase", "SRKRecordV2"):
        cf = ctx.own(SRK, cn, "create_from_key")
        for kind, a, b in (("PublicKeyRsa", "par_n", "par_e"), ("PublicKeyEcc", "par_x", "par_y")):
            # the paths on which the key is of this kind and a record is returned (whatever the branch layout)
            ps = [q for q in A.spaths(cf.node) if q.end == "return" and q.assumes(f"isinstance(public_key, {kind})", True)]
            if not ps:
                raise AnalysisError(f"C06.srk-tables: {kind} branch of {cf.qual} not found")
            # the returned record with the locals of the path substituted (par_n / par_e / par_x / par_y are kept by name)
            keep = {k: v for k, v in ps[0].env.items() if k in (a, b)}
            ret = ps[0].stmts[-1]
            env2 = {k: v for k, v in ps[0].env.items() if k not in (a, b)}
            pm = ast.Module(body=[ast.Expr(value=A._sub(ret.value, env2))], type_ignores=[])
            ks_txt = norm(ps[0].env["key_size"]) if "key_size" in ps[0].env else "key_size"
            tb = [c for c in A.calls_in(pm, "to_bytes")]
            sig = [(norm(c.func.value), norm(A.arg_of(c, 0, "length")), norm(A.arg_of(c, 1, "byteorder"))) for c in tb]
            want = [(a, f"cls.KEY_SIZES[{ks_txt}][0]", "Endianness.BIG.value"), (b, f"cls.KEY_SIZES[{ks_txt}][1]", "Endianness.BIG.value")]
            cp = [k.value for c in A.calls_in(pm) for k in c.keywords if k.arg == "crypto_params"]
            ksz = [norm(k.value) for c in A.calls_in(pm) for k in c.keywords if k.arg == "key_size"]
            if ksz[:1] != [ks_txt]:
                sig = sig + [("key_size keyword", str(ksz), "differs from the table row used for the lengths")]
            order_ok = bool(cp) and isinstance(cp[0], ast.BinOp) and norm(cp[0].left.func.value) == a and norm(cp[0].right.func.value) == b if cp and isinstance(cp[0], ast.BinOp) and isinstance(cp[0].left, ast.Call) and isinstance(cp[0].right, ast.Call) else False
            br = [ps[0].stmts[-1]]
            if cn == "SRKRecordV2" and not tb:
                continue
            chk.decide(sig == want and order_ok, "C06.srk-tables", f"{cf.qual} {kind}", f"crypto params = {a} || {b}, big endian, at the table's fixed sizes", f"{sig}; order ok {order_ok}", "", A.loc(SRK, br[0]))
        t = norm(cf.node)
        hk = [n for n in ast.walk(cf.node) if isinstance(n, ast.Dict) and len(n.keys) == 3 and all(isinstance(k, ast.Constant) for k in n.keys)]
        if hk:
            m = {k.value: norm(v).split(".")[-1] for k, v in zip(hk[0].keys, hk[0].values)}
            chk.decide(m == {256: "SHA256", 384: "SHA384", 521: "SHA512"}, "C06.srk-tables", f"{cf.qual} hash type", "P-256/384/521 records declare SHA-256/384/512", f"{m}", "", A.loc(SRK, cf.node))
    # parameter_lengths <-> _crypto_params_length
    pl, cl = ctx.own(SRK, "SRKRecordBase", "parameter_lengths"), ctx.own(SRK, "SRKRecordBase", "_crypto_params_length")
    ok = norm(A.returns_in(pl.node)[-1].value) == "pack(LITTLE_ENDIAN + UINT16 + UINT16, key_sizes[0], key_sizes[1])" and "len1, len2 = unpack(LITTLE_ENDIAN + UINT16 + UINT16, parameter_lengths[:4])" in norm(cl.node) and norm(A.returns_in(cl.node)[-1].value) == "len1 + len2"
    chk.decide(ok, "C06.srk-tables", pl.qual + " <-> _crypto_params_length", "two little-endian 16-bit lengths, summed by the parser", "", "", A.loc(SRK, pl.node))
    # SRK hash = hash of the exported table
    for cn, want_alg in (("SRKTable", "SHA256"), ("SRKTableV2", "SHA512")):
        cls = ctx.cls(SRK, cn)
        f = prog.find_method(cls, "compute_srk_hash")
        alg = prog.find_const(cls, "SRK_HASH_ALGORITHM")
        ok = norm(A.returns_in(f.node)[-1].value) == "get_hash(data=self.export(), algorithm=self.SRK_HASH_ALGORITHM)" and alg is not None and norm(alg[1]).endswith(want_alg)
        chk.decide(ok, "C06.srk-hash", f"{f.qual} [{cn}]", f"SRK hash = {want_alg} over the exported table", f"{norm(A.returns_in(f.node)[-1].value)}; algorithm {norm(alg[1]) if alg else None}", "", A.loc(SRK, f.node))
    fa = ctx.own(SRK, "SRKTableArray", "compute_srk_hash")
    t = norm(fa.node)
    chk.decide("data = self._srk_tables[srk_id].export()" in t and "return get_hash(data=data, algorithm=EnumHashAlgorithm.SHA512)" in t, "C06.srk-hash", fa.qual, "table array: SHA-512 over the exported table srk_id (same as SRKTableV2)", t[:200], "", A.loc(SRK, fa.node))
    ex = ctx.own(SRK, "SRKTable", "export")
    from ..engines import bytelayout
    lay = bytelayout.normal_form(lambda e: prog.fold(e, ex.module, ex.cls), ex.node)
    want_tail = (None, "repeat", "_.export() for _ in self.srk_records")
    hdr_srcs = [d[3] for d in (lay or [])[:-1] if d[1] == "int"] + [f"{d[0]}B const" for d in (lay or [])[:-1] if d[1] == "const"]
    chk.decide(bool(lay) and lay[-1] == want_tail and [d[3] for d in lay[:-1] if d[1] == "int"] == ["self.tag", "self.length", "self.version"], "C06.srk-hash", ex.qual,
               "exported table = header (tag, length, version) followed by every record", f"layout {lay}", "", A.loc(SRK, ex.node))
    gh = ctx.own(CNT, "AHABContainerBase", "get_srk_hash")
    chk.decide("return self.signature_block.srk_assets.compute_srk_hash(srk_id)" in norm(gh.node), "C06.srk-hash", gh.qual, "the container's SRK hash is the SRK assets' hash", "", "", A.loc(CNT, gh.node))
    vt = ctx.own(SRK, "SRKTable", "verify")
    chk.decide("ret.add_record_bytes('SRK Hash', self.compute_srk_hash())" in norm(vt.node), "C06.producer-verifier-twin", vt.qual, "the verifier reports the same compute_srk_hash()", "", "", A.loc(SRK, vt.node))
    # v2: every record's SRK data container carries the record's own index (the parser files it under srk_data.srk_id)
    lf = ctx.own(SRK, "SRKTableV2", "load_from_config")
    loops = [s for s in A.body_of(lf.node) if isinstance(s, ast.For) and isinstance(s.iter, ast.Call) and norm(s.iter.func) == "enumerate" and isinstance(s.target, ast.Tuple)]
    ok = False
    detail = "no enumerate loop over the configured keys"
    if loops:
        ix = norm(loops[0].target.elts[0])
        cfk = [c for c in ast.walk(loops[0]) if isinstance(c, ast.Call) and norm(c.func) == "SRKData.create_from_key"]
        addr = [c for c in ast.walk(loops[0]) if isinstance(c, ast.Call) and A.call_name(c) == "add_record" and any(k.arg == "srk_id" and norm(k.value) == ix for k in c.keywords)]
        if cfk:
            idarg = A.arg_of(cfk[0], 1, "srk_id")
            st = A.enclosing_stmt(cfk[0])
            tgt = norm(st.targets[0]) if isinstance(st, ast.Assign) else ""
            ok = idarg is not None and norm(idarg) == ix and f"srk_records[{ix}]" in tgt and tgt.endswith(".srk_data")
            detail = f"SRKData.create_from_key(.., {norm(idarg) if idarg is not None else None}) stored to `{tgt}`"
        elif addr:
            ok, detail = True, "add_record(..., srk_id=index)"
        else:
            detail = "the SRK data container is never created with the record index"
    chk.decide(ok, "C06.srk-tables", lf.qual + " srk_id", "record i gets an SRK data container with srk_id = i", detail, "SRKData.create_from_key(pub_key, ix) -> srk_records[ix].srk_data", A.loc(SRK, lf.node))
    pa = ctx.own(SRK, "SRKTableArray", "parse")
    chk.decide("srk_record = cast(SRKRecordV2, srk_tables[i].srk_records[srk_data.srk_id])" in norm(pa.node) and "srk_record.srk_data = srk_data" in norm(pa.node), "C06.srk-tables", pa.qual + " srk_id",
               "the parser attaches the SRK data container to the record named by its srk_id", "", "", A.loc(SRK, pa.node))
    ex = ctx.own(SRK, "SRKTableArray", "export")
    from ..engines import bytelayout as _bl
    lay_a = _bl.normal_form(lambda e: prog.fold(e, ex.module, ex.cls), ex.node)
    want_rep = (None, "repeat", "_.export() + cast(SRKRecordV2, _.srk_records[self.chip_config.used_srk_id]).srk_data.export() for _ in self._srk_tables")
    chk.decide(bool(lay_a) and lay_a[-1] == want_rep, "C06.srk-tables", ex.qual + " srk_id",
               "after the header: for every table, the table followed by the SRK data container of the used SRK", f"layout {lay_a}", f"{want_rep}", A.loc(SRK, ex.node))
    # the key used for verification is the record selected by used_srk_id
    for cn in ("SignatureBlock",):
        f = ctx.own(SB, cn, "verify_container_authenticity")
        chk.decide("public_key = self.srk_assets.get_source_keys()[self.chip_config.used_srk_id]" in norm(f.node), "C06.srk-hash", f.qual + " key selection", "the signature is verified with the SRK selected by used_srk_id", "", "", A.loc(SB, f.node))


# --------------------------------------------------------------------------- offsets
def rule_offsets(ctx) -> None:
    chk, prog = ctx.chk, ctx.prog
    uf = ctx.own(IMG, "AHABImage", "update_fields")
    ifs = [s for s in A.body_of(uf.node) if isinstance(s, ast.If) and norm(s.test) == "update_offsets"]
    if len(ifs) != 1:
        raise AnalysisError("C06.offsets: `if update_offsets` not found in AHABImage.update_fields")
    body = ifs[0].body
    n = 0
    probs: List[str] = []
    ALIGN = 4
    START = 16
    for shape in ((1,), (2,), (1, 1), (2, 1), (1, 2)):
        nimg = sum(shape)
        for sizes in itertools.product((1, 4, 7), repeat=nimg):
            for presets in itertools.product((0, 40), repeat=nimg):
                for gaps in ((0,) * nimg, (3,) * nimg):
                    for locked0 in (False, True):
                        it = iter(range(nimg))
                        conts = []
                        images = []
                        for ci, cnt in enumerate(shape):
                            arr = []
                            for _ in range(cnt):
                                k = next(it)
                                img = Obj(image_offset=presets[k], image_size=sizes[k], gap_after_image=gaps[k], _k=k)
                                arr.append(img)
                                images.append(img)
                            conts.append(Obj(image_array=tuple(arr), chip_config=Obj(locked=locked0 and ci == 0)))
                        if locked0 and any(i.image_offset == 0 for i in conts[0].image_array):
                            continue  # a locked (parsed) container always carries its offsets

                        class Ev(Evaluator):
                            def ev(self, e):
                                if isinstance(e, ast.Call) and isinstance(e.func, ast.Attribute) and e.func.attr == "get_valid_offset" and len(e.args) == 1:
                                    return _align(self.ev(e.args[0]), ALIGN)
                                return super().ev(e)
                        ev = Ev({"self.ahab_containers": tuple(conts), "self.start_recommended_image_address": START})
                        try:
                            ev.run(body)
                        except Unsupported as u:
                            raise AnalysisError(f"C06.offsets: offset assignment loop left the evaluable fragment: {u}")
                        n += 1
                        # reference: preset (>0) or locked offsets are kept; others become the running aligned offset
                        off = START
                        for ci, c in enumerate(conts):
                            for img in c.image_array:
                                k = img._k
                                keep = (locked0 and ci == 0) or presets[k] > 0
                                want = presets[k] if keep else off
                                if img.image_offset != want:
                                    probs.append(f"shape {shape} sizes {sizes} presets {presets}: image {k} offset {img.image_offset}, expected {want}")
                                off = _align(want + sizes[k] + gaps[k], ALIGN)
                            if c.chip_config.locked is not True:
                                probs.append(f"container {ci} not locked after offset assignment")
                        # automatic placement never overlaps
                        if not any(presets) and not locked0:
                            spans = sorted((i.image_offset, i.image_offset + i.image_size) for i in images)
                            if any(a1 > b0 for (_a0, a1), (b0, _b1) in zip(spans, spans[1:])) or any(s[0] % ALIGN for s in spans) or spans[0][0] != START:
                                probs.append(f"automatic offsets overlap/misaligned: {spans}")
                        if len(probs) > 3:
                            break
    chk.decide(not probs, "C06.offsets", uf.qual + " offset assignment", f"on {n} models (1-2 containers, 1-3 images, sizes/gaps/preset offsets): explicit and locked offsets are kept, automatic offsets start at the recommended address, are aligned and gap-free, never overlap; every container is locked afterwards",
               "; ".join(probs[:3]), "", A.loc(IMG, ifs[0]))
    # the verifier reports overlaps
    v = ctx.own(IMG, "AHABImage", "verify")
    tr = [s for s in A.body_of(v.node) if isinstance(s, ast.Try) and "self.image_info().validate()" in norm(s.body[0])]
    ok = len(tr) == 1 and any("VerifierResult.ERROR" in norm(x) for h in tr[0].handlers for x in h.body) and any("SPSDKError" in norm(h.type) for h in tr[0].handlers if h.type is not None)
    chk.decide(ok, "C06.offsets", v.qual + " overlap", "overlapping images (BinaryImage.validate) are recorded as ERROR", "", "", A.loc(IMG, v.node))
    # fixed container offsets: one formula at the three sites
    go = ctx.own(CNT, "AHABContainer", "get_container_offset")
    probs = []
    for ix in range(-1, 6):
        ev = Evaluator({"ix": ix, "cls.CONTAINER_SIZE": 0x400})
        out = ev.run(A.body_of(go.node))
        want = ("return", 0x400 * ix) if 0 <= ix <= 3 else ("raise", None)
        if out.sig()[0] != want[0] or (want[0] == "return" and out.value != want[1]):
            probs.append(f"ix={ix}: {out.sig()}")
    chk.decide(not probs, "C06.offsets", go.qual, "container ix sits at CONTAINER_SIZE * ix for ix in 0..3, anything else is rejected", "; ".join(probs), "", A.loc(CNT, go.node))
    lc = ctx.own(CNT, "AHABContainer", "load_from_config")
    chk.decide("ahab_container.chip_config.container_offset = cls.CONTAINER_SIZE * container_ix" in norm(lc.node), "C06.offsets", lc.qual, "configured containers get the same fixed offset formula", "", "", A.loc(CNT, lc.node))
    vo = [n for n in ast.walk(v.node) if isinstance(n, ast.FunctionDef) and n.name == "verify_container_offsets"]
    t = norm(vo[0]) if vo else ""
    chk.decide("offset = container.get_container_offset(ix)" in t and "VerifierResult.ERROR if container.chip_config.container_offset != offset else VerifierResult.SUCCEEDED" in t, "C06.offsets", v.qual + " container offsets",
               "a container that is not at its fixed offset is recorded as ERROR", t[:200], "", A.loc(IMG, v.node))
    for cn, size in (("AHABContainer", 0x400), ("AHABContainerV2", 0x4000)):
        c = ctx.cls(CNT, cn)
        fc = prog.find_const(c, "CONTAINER_SIZE")
        val = prog.fold(fc[1], fc[0].module, fc[0]) if fc else None
        chk.decide(val == size, "C06.offsets", f"{CNT}::{cn}.CONTAINER_SIZE", f"container slot size {size:#x}", f"{val}", "", A.loc(CNT, c.node))


def rule_raw_peeks(ctx) -> None:
    """C06.raw-peek: a parser that reads a field straight out of the input (`int.from_bytes(data[base + a : base + b], order)`) instead of
    taking it from the parsed record agrees with the record's packed layout: [a, b) is exactly one packed item of the writer's format,
    in the format's byte order.  AHABContainer.parse takes the image size of every image array entry this way to cut the image data."""
    import struct as _st
    fn = ctx.own(CNT, "AHABContainer", "parse")
    n = 0
    for iae_name in ("ImageArrayEntry", "ImageArrayEntryV2"):
        k = ctx.cls(IAE, iae_name)
        ex = ctx.prog.find_method(k, "export")
        pk = [c for c in A.calls_in(ex.node, "pack")]
        fmt = ctx.prog.fold(pk[0].args[0], ex.module, k) if pk else None
        its = struct_items(fmt) if isinstance(fmt, str) else None
        if not its or len([i for i in its if i[0] != "x"]) != len(pk[0].args) - 1:
            raise AnalysisError(f"C06.raw-peek: the export format of {iae_name} does not fold")
        offs = {}
        pos = 0
        vals = iter(pk[0].args[1:])
        for code, sz in its:
            if code != "x":
                offs[norm(next(vals))] = (pos, pos + sz)
            pos += sz
        little = fmt[:1] in ("<",) or (fmt[:1] not in (">", "!") and _st.pack("=H", 1) == b"\x01\x00")
        peeks = [c for c in ast.walk(fn.node) if isinstance(c, ast.Call) and norm(c.func) == "int.from_bytes" and c.args and isinstance(c.args[0], ast.Subscript) and isinstance(c.args[0].slice, ast.Slice)]
        for c in peeks:
            sl = c.args[0].slice
            lo, hi = norm(A.inline_locals(fn.node, sl.lower)), norm(A.inline_locals(fn.node, sl.upper))
            base = norm(A.inline_locals(fn.node, ast.parse("image_array_entry_binary_start", mode="eval").body))
            def rel(t: str):
                if t.startswith(base):
                    r = t[len(base):].strip()
                    if r == "":
                        return 0
                    if r.startswith("+"):
                        v = ctx.prog.fold(ast.parse(r[1:].strip(), mode="eval").body, fn.module, fn.cls)
                        return v if isinstance(v, int) else None
                return None
            a, b = rel(lo), rel(hi)
            order = A.arg_of(c, 1, "byteorder")
            ordv = ctx.prog.fold(order, fn.module, fn.cls) if order is not None else None
            if not isinstance(ordv, str):
                ordv = {"Endianness.LITTLE.value": "little", "Endianness.BIG.value": "big"}.get(norm(order)) if order is not None else None
            field = [f_ for f_, w in offs.items() if w == (a, b)]
            n += 1
            tgt = [s_ for s_ in ast.walk(fn.node) if isinstance(s_, ast.Assign) and s_.value is c]
            name = norm(tgt[0].targets[0]) if tgt else "?"
            ok = bool(field) and ordv == ("little" if little else "big") and (name.split(".")[-1].lstrip("_") in field[0] or field[0].split(".")[-1].lstrip("_") in name)
            ctx.chk.decide(ok, "C06.raw-peek", f"{fn.qual} `{name}` vs {iae_name}", f"bytes [{a}, {b}) in {ordv} order are the packed item `{field[0] if field else '?'}` of the entry's own format",
                           f"`{norm(c)[:120]}` reads bytes [{a}, {b}) as {ordv}-endian into `{name}`; the entry packs {sorted(offs.items(), key=lambda kv: kv[1])[:3]} ({'little' if little else 'big'} endian)", "", A.loc(CNT, c))
    ctx.chk.floor("C06.raw-peek", 2)


def rule_record_roundtrip(ctx) -> None:
    """C06.record-roundtrip: the self-contained AHAB records interpreted on model objects (E19): parse(export(x)) has the fields of x and
    exports to the same bytes.  The header check of the parsers (`check_container_head(...).validate()`, decided by the wire rules) and the
    diagnostic copy of the parsed header are leaves.  `key_identifier` of a blob is not part of the blob's wire form (it travels in the
    signature block) and is not compared."""
    from ..engines import roundtrip

    def leaves(c: ast.Call, ev):
        if isinstance(c.func, ast.Attribute) and c.func.attr == "validate" and not c.args and isinstance(c.func.value, ast.Call) and isinstance(c.func.value.func, ast.Attribute) \
                and c.func.value.func.attr == "check_container_head":
            return None
        if norm(c.func) == "HeaderContainerData.parse":
            return ordereval.Obj(_parsed_header=True)
        return ordereval.NOT_MODELLED
    kb = ctx.enum_model(ctx.cls("spsdk/ele/ele_constants.py", "KeyBlobEncryptionAlgorithm"))
    if kb is None:
        raise AnalysisError("C06.record-roundtrip: KeyBlobEncryptionAlgorithm does not fold to an enum model")
    roundtrip.check_classes(ctx, "C06.record-roundtrip", "spsdk/image/ahab/ahab_signature.py",
                            [("ContainerSignature", [{"signature_data": bytes(range(64))}, {"signature_data": bytes(range(100, 196))}, {"signature_data": bytes(range(7, 139))}], {"ignore": ("_parsed_header",)})], None, leaves, floor=1)
    roundtrip.check_classes(ctx, "C06.record-roundtrip", "spsdk/image/ahab/ahab_blob.py",
                            [("AhabBlob", [{"flags": 0x80, "size": 256, "mode": 0, "algorithm": kb.AES_CBC, "dek_keyblob": bytes(range(72)), "key_identifier": 0},
                                           {"flags": 0x80, "size": 128, "mode": 1, "algorithm": kb.AES_CBC, "dek_keyblob": bytes(range(56)), "key_identifier": 0},
                                           {"flags": 0x80, "size": 192, "mode": 2, "algorithm": kb.AES_CBC, "dek_keyblob": bytes(range(64)), "key_identifier": 0}],
                              {"ignore": ("_parsed_header", "key_identifier"), "sweep": False})], None, leaves, floor=2)


def run(ctx) -> None:
    ctx.chk.explain("C06: E1 wire symmetry of every AHAB container class (including the pre-parse header peeks), E2 bit provenance of container/image flags and metadata "
                    "(producer shifts vs getter offsets, both entry versions), verifier-width rule tying every range record to the struct item or flag field it names, "
                    "producer/verifier twins (image hash over the size-extended image, signed range, SRK hash, decryption check), signing order, signature-block windows "
                    "(offset assignment evaluated on presence x length models), revoke-mask decision on all 64 cases, SRK key-size tables, image offset assignment on finite models.")
    ctx.rule(rule_wire)
    ctx.rule(rule_raw_peeks)
    ctx.rule(rule_record_roundtrip)
    ctx.rule(rule_flags)
    ctx.rule(rule_verify_width)
    ctx.rule(rule_range_helper)
    ctx.rule(rule_sign_order)
    ctx.rule(rule_twins)
    ctx.rule(rule_revoke)
    ctx.rule(rule_windows)
    ctx.rule(rule_srk)
    ctx.rule(rule_srk_verify_index)
    ctx.rule(rule_verify_argument)
    from ..engines import attrproto
    ctx.rule(lambda c: attrproto.check(c, "C06.ca-attribute", "ca", 4, 2))
    ctx.rule(rule_offsets)
    ctx.chk.assumptions = ["hash / AES-CBC / signature primitives are correct (C08, C09)", "struct semantics",
                           "not decided: that every single-bit corruption is detected (follows from the signed range + hash only under the primitives' security), "
                           "offset arithmetic beyond the finite size/alignment models, NAND/serial-downloader specific start addresses from the database"]


MANIFEST = {
    "level": "Static structural decision of the clauses visible in the code shape: every container class packs and unpacks the same layout position by position; flag and metadata "
             "sub-fields are read from the bits they are written to; each verifier range record checks the field it names at the width it is packed with; the image hash, the signed "
             "range, the SRK hash and the decryption check are computed by the verifier over the same expressions as by the producer, and the hashed/exported bytes agree; signing is the "
             "last step after offsets and lengths; signature-block sub-blocks and image offsets are aligned and disjoint on finite models of presence/length/preset combinations. "
             "Cryptographic validity and all-size arithmetic are not executed.",
    "note": "Trusted: hash/cipher/signature primitives, struct. Frozen tables: 14 wire pairs, 8 verifier sites. Models: block lengths {8,12,100}, image sizes {1,4,7}, alignment 4/8.",
    "technique": "static analysis: AST pack/unpack symmetry (PackSym), bit-provenance abstract interpretation of flag producers/getters, call-site width rule, producer/verifier expression twins, symbolic-path substitution, byte-layout normal forms, sibling index rule, argument-class vs attributes-read rule, , raw-peek agreement with the packed layout, export/parse round trip of ContainerSignature and AhabBlob interpreted on model objects (E19)"
                 "abstract evaluation of the offset-assignment code on finite models",
}
