"""C16 BinaryImage: composition, validation, file formats (E5 on small object graphs, E14 slice windows, structure)."""
from __future__ import annotations

import ast
import itertools
from typing import Any, Dict, List, Optional

from ..core import astutil as A
from ..core.loader import AnalysisError
from ..core.report import norm
from ..engines import ordereval
from ..engines.ordereval import Obj

IMG = "spsdk/utils/images.py"


def _align(n: int, a: int) -> int:
    return -(-n // a) * a


def _sym_align(ev_getter):
    def sym(x: ast.expr):
        if isinstance(x, ast.Call) and A.call_name(x) == "align" and len(x.args) == 2:
            ev = ev_getter()
            a, b = ev.ev(x.args[0]), ev.ev(x.args[1])
            return _align(a, b)
        return None
    return sym


def rule_validate(ctx) -> None:
    fn = ctx.own(IMG, "BinaryImage", "validate")
    body = A.body_of(fn.node)
    bi = ctx.cls(IMG, "BinaryImage")
    # helper methods of the class (on self, on a child or static) are stepped into on the same model
    cv = ctx.model_calls(lambda c, e: ordereval.NOT_MODELLED, classes={"BinaryImage": bi})
    cex = None
    n = 0
    offs = range(0, 6)
    lens = range(1, 4)
    for P in range(0, 8):
        for off_self in (-1, 0, 2):
            for kids in itertools.chain([()], [(c,) for c in itertools.product(offs, lens)],
                                        itertools.product(itertools.product(offs, lens), repeat=2)):
                objs = tuple(Obj(_cls=bi, offset=o, len=l, name=f"c{i}", sub_images=()) for i, (o, l) in enumerate(kids))
                me = Obj(_cls=bi, offset=off_self, len=P, sub_images=objs, name="p", image_name="p")
                ev = ordereval.Evaluator({"self": me}, None, ignore_calls=("validate",), call_value=cv)
                try:
                    out = ev.run(body)
                except ordereval.Unsupported as e:
                    raise AnalysisError(f"C16.validate: left the fragment: {e}")
                n += 1
                sticks = any(o + l - 1 >= P for o, l in kids)
                overlap = len(kids) == 2 and max(kids[0][0], kids[1][0]) <= min(kids[0][0] + kids[0][1] - 1, kids[1][0] + kids[1][1] - 1)
                want = "raise" if (off_self < 0 or sticks or overlap) else "fall"
                if out.kind != want and cex is None:
                    cex = (P, off_self, kids, out.kind, want)
    ctx.chk.exhaustive_rules.add("C16.validate")
    ctx.chk.decide(cex is None, "C16.validate", fn.qual,
                   f"raises exactly when the offset is negative, a child's last byte lies outside the parent, or two siblings' byte ranges intersect ({n} layouts of up to 2 non-empty children: all order types)",
                   f"parent len {cex[0]}, offset {cex[1]}, children (offset,len) {cex[2]}: outcome {cex[3]}" if cex else "", f"{cex[4]}" if cex else "", A.loc(IMG, fn.node))
    # recursion: every child is validated too
    rec = [c for c in A.calls_in(fn.node, "validate")]
    ok = any(isinstance(c.func, ast.Attribute) and isinstance(A.enclosing_stmt(c), ast.Expr) and any(isinstance(a, ast.For) and norm(a.iter) == "self.sub_images" for a in A.ancestors(c)) for c in rec)
    ctx.chk.decide(ok, "C16.validate.recursive", fn.qual, "each sub-image is validated recursively", "no recursive validate() over self.sub_images", "for image in self.sub_images: image.validate()", A.loc(IMG, fn.node))


def rule_len(ctx) -> None:
    fn = ctx.own(IMG, "BinaryImage", "__len__")
    body = A.body_of(fn.node)
    cex = None
    n = 0
    for size in (0, 3, 8):
        for blen in (None, 0, 2, 5):
            for alignment in (1, 4):
                for kids in itertools.chain([()], [(c,) for c in itertools.product(range(0, 7, 2), range(0, 5, 2))],
                                            [((0, 2), (6, 3)), ((4, 4), (1, 1)), ((2, 0), (3, 9))]):
                    objs = tuple(Obj(offset=o, len=l) for o, l in kids)
                    me = Obj(_size=size, binary=(b"\0" * blen if blen is not None else None), sub_images=objs, alignment=alignment, len=0)
                    holder: Dict[str, Any] = {}
                    ev = ordereval.Evaluator({"self": me}, _sym_align(lambda: holder["ev"]), opaque_return=False)
                    holder["ev"] = ev
                    try:
                        out = ev.run(body)
                    except ordereval.Unsupported as e:
                        raise AnalysisError(f"C16.len: left the fragment: {e}")
                    n += 1
                    want = size if size else _align(max([blen or 0] + [o + l for o, l in kids]), alignment)
                    if (out.kind != "return" or out.value != want) and cex is None:
                        cex = (size, blen, alignment, kids, out.value, want)
    ctx.chk.decide(cex is None, "C16.len", fn.qual, f"explicit size if set, else the aligned maximum of the own binary and every child's end ({n} configurations)",
                   f"size={cex[0]} binary_len={cex[1]} alignment={cex[2]} children={cex[3]}: len() = {cex[4]}" if cex else "", f"{cex[5]}" if cex else "", A.loc(IMG, fn.node))
    init = ctx.own(IMG, "BinaryImage", "__init__")
    st = {norm(s.targets[0]): norm(s.value) for s in A.walk_no_nested(init.node) if isinstance(s, ast.Assign)}
    ctx.chk.decide(st.get("self._size") == "align(size, alignment)" and st.get("self.offset") == "offset" and st.get("self.binary") == "binary" and st.get("self.alignment") == "alignment"
                   and st.get("self.pattern") == "pattern", "C16.init-routing", init.qual, "constructor stores size (aligned), offset, binary, pattern, alignment under their own names", f"{st}", "", A.loc(IMG, init.node))
    sz = ctx.own(IMG, "BinaryImage", "size")
    r = A.returns_in(sz.node)
    ctx.chk.decide(bool(r) and norm(r[0].value) == "len(self)", "C16.len.size-property", sz.qual, "size property is len(self)", norm(r[0]) if r else "", "len(self)", A.loc(IMG, sz.node))


def rule_export(ctx) -> None:
    """BinaryImage.export evaluated on models of image trees (children are model objects whose export() gives their bytes; the pattern
    gives 'P' bytes, align_block pads with 'A'): the result must be pattern fill, own binary at 0, every child at its offset in
    child order, aligned at the end - whatever views, temporaries or loop shape the code uses."""
    chk = ctx.chk
    fn = ctx.own(IMG, "BinaryImage", "export")

    def cv(c: ast.Call, ev):
        f = norm(c.func)
        if isinstance(c.func, ast.Attribute) and c.func.attr == "export" and not c.args:
            o = ev.ev(c.func.value)
            if isinstance(o, Obj) and "_bytes" in o.__dict__:
                return o.__dict__["_bytes"]
        if isinstance(c.func, ast.Attribute) and c.func.attr == "get_block" and len(c.args) == 1:
            o = ev.ev(c.func.value)
            if isinstance(o, Obj) and "_pat" in o.__dict__:
                return b"P" * ev.ev(c.args[0])
        if f == "align_block" and c.args:
            d = ev.ev(c.args[0])
            d = d.tobytes() if isinstance(d, ordereval.View) else bytes(d)
            al = ev.ev(A.arg_of(c, 1, "alignment")) if A.arg_of(c, 1, "alignment") is not None else 4
            return d + b"A" * ((-len(d)) % max(al, 1))
        return ordereval.NOT_MODELLED
    cases = []
    for pat in (None, Obj(_pat=True)):
        for binary in (None, b"", b"OWNBIN"):
            for kids in ((), ((0, b"k0k0"),), ((2, b"aaaa"), (10, b"bb")), ((8, b"cccc"), (10, b"dddd")), ((0, b""),)):
                for extra in (0, 5):
                    need = max([len(binary or b"")] + [o + len(d) for o, d in kids])
                    cases.append((pat, binary, kids, need + extra, 8))
    probs, n = [], 0
    for pat, binary, kids, total, al in cases:
        me = Obj(binary=binary, pattern=pat, alignment=al, len=total, sub_images=tuple(Obj(offset=o, _bytes=d, len=len(d)) for o, d in kids))
        try:
            out = ordereval.Evaluator({"self": me}, ctx.fold_sym(fn), opaque_return=False, call_value=cv).run(A.body_of(fn.node))
        except ordereval.Unsupported as ex:
            raise AnalysisError(f"C16.export: BinaryImage.export left the fragment: {ex}")
        n += 1
        if binary and total == len(binary) and not kids:
            want = binary
        else:
            buf = bytearray((b"P" if pat is not None else b"\x00") * total)
            if binary:
                buf[:len(binary)] = binary
            for o, d in kids:
                buf[o:o + len(d)] = d
            want = bytes(buf) + b"A" * ((-total) % al)
        got = out.value.tobytes() if isinstance(out.value, ordereval.View) else bytes(out.value) if isinstance(out.value, (bytes, bytearray)) else None
        if out.kind != "return" or got != want:
            probs.append(f"pattern {'set' if pat is not None else 'none'}, binary {binary!r}, children {[(o, len(d)) for o, d in kids]}, length {total}: {out.kind} {got!r}, expected {want!r}")
    chk.exhaustive_rules.add("C16.export")
    chk.decide(not probs, "C16.export", fn.qual, f"pattern (or zero) fill of len(self) bytes, own binary at [0 : len(binary)], each child's exported bytes at [offset : offset + len], children in order (later ones overwrite), then align_block(buffer, alignment, pattern); the raw binary is returned only when it already is the whole image ({n} models)",
               "; ".join(probs[:2]), "", A.loc(IMG, fn.node))


def rule_structure(ctx) -> None:
    chk = ctx.chk
    # add_image keeps children ordered by offset
    fn = ctx.own(IMG, "BinaryImage", "add_image")
    body = A.body_of(fn.node)
    loops = [s for s in body if isinstance(s, ast.For)]
    ok = False
    if loops and isinstance(loops[0].iter, ast.Call) and A.call_name(loops[0].iter) == "enumerate" and norm(loops[0].iter.args[0]) == "self.sub_images":
        i, child = [norm(x) for x in loops[0].target.elts]
        for iff in [n for n in loops[0].body if isinstance(n, ast.If)]:
            if norm(iff.test) in (f"image.offset < {child}.offset", f"{child}.offset > image.offset"):
                ins = [c for c in A.calls_in(iff, "insert")]
                if ins and [norm(a) for a in ins[0].args] == [i, "image"] and isinstance(iff.body[-1], ast.Return):
                    ok = True
    app = isinstance(body[-1], ast.Expr) and norm(body[-1].value) == "self.sub_images.append(image)"
    par = any(isinstance(s, ast.Assign) and norm(s) == "image.parent = self" for s in body)
    chk.decide(ok and app and par, "C16.add-image", fn.qual, "inserted before the first child with a larger offset, else appended; parent link set", f"insert={ok} append={app} parent={par}", "", A.loc(IMG, fn.node))
    fn = ctx.own(IMG, "BinaryImage", "append_image")
    st = [norm(s) for s in A.body_of(fn.node)]
    chk.decide(st == ["image.offset = len(self)", "self.add_image(image)"], "C16.add-image", fn.qual, "appended at the current end", f"{st}", "", A.loc(IMG, fn.node))
    fn = ctx.own(IMG, "BinaryImage", "absolute_address")
    rets = sorted((q.assumes("self.parent", True), norm(q.last.value) if q.end == "return" and q.last.value is not None else q.end) for q in A.gpaths(fn.node))
    chk.decide(rets == [(False, "self.offset"), (True, "self.parent.absolute_address + self.offset")], "C16.absolute-address", fn.qual, "parent's absolute address + own offset; own offset without a parent", f"{rets}", "", A.loc(IMG, fn.node))
    fn = ctx.own(IMG, "BinaryImage", "update_offsets")
    st = [norm(s) for s in ast.walk(fn.node) if isinstance(s, ast.AugAssign)]
    mo = A.inline_locals(fn.node, ast.parse("min_offset", mode="eval").body)
    chk.decide(sorted(st) == ["image.offset -= min_offset", "self.offset += min_offset"] and norm(mo) == "self.min_offset", "C16.update-offsets", fn.qual,
               "children move down by the minimum offset, the parent moves up by it (absolute addresses unchanged)", f"{st}", "", A.loc(IMG, fn.node))
    fn = ctx.own(IMG, "BinaryImage", "join_images")
    st = [norm(s) for s in A.body_of(fn.node)]
    chk.decide(st == ["binary = self.export()", "self.sub_images.clear()", "self.binary = binary"], "C16.join", fn.qual, "export first, then drop children, then keep the bytes", f"{st}", "", A.loc(IMG, fn.node))


def rule_formats(ctx) -> None:
    chk = ctx.chk
    fn = ctx.own(IMG, "BinaryImage", "save_binary_image")
    # save_binary_image evaluated on models of a two-level image tree: the bincopy file is a recorder, write_file a log.
    # Expected: BIN -> the exported bytes; HEX / S19 -> every image of the tree contributes its pattern fill and then its own binary
    # at its absolute address with overwrite, parents before children, the execution start address is carried, and the recorder's
    # ihex / srec rendering is written; any other format (in any letter case) is rejected.
    def model(pattern: bool, binary: bytes, kids):
        def mk(name, addr, binary_, pat, subs=()):
            return Obj(_img=name, absolute_address=addr, binary=binary_, pattern=Obj(_pat=name) if pat else None, sub_images=tuple(subs), len=16, execution_start_address=0x55AA)
        return mk("root", 0x1000, binary, pattern, [mk(f"k{i}", 0x1000 + o, d, p_) for i, (o, d, p_) in enumerate(kids)])
    probs, n = [], 0
    for fmt in ("BIN", "HEX", "S19", "hex", "s19", "bin", "ELF", ""):
        for pattern in (True, False):
            for binary in (b"", b"ROOT"):
                for kids in ((), ((4, b"KID0", False), (8, b"", True))):
                    me = model(pattern, binary, kids)
                    log, rec = [], []

                    def cv(c: ast.Call, ev, log=log, rec=rec):
                        f = norm(c.func)
                        if f == "bincopy.BinFile" and not c.args:
                            return Obj(_bf=True, execution_start_address=None)
                        if isinstance(c.func, ast.Attribute):
                            try:
                                o = ev.ev(c.func.value)
                            except ordereval.Unsupported:
                                o = None
                            if isinstance(o, Obj) and "_bf" in o.__dict__:
                                if c.func.attr == "add_binary":
                                    rec.append((bytes(ev.ev(c.args[0])), ev.ev(A.arg_of(c, 1, "address")), ev.ev(A.arg_of(c, None, "overwrite")) if A.arg_of(c, None, "overwrite") is not None else False))
                                    return None
                                if c.func.attr in ("as_ihex", "as_srec") and not c.args:
                                    return (c.func.attr, tuple(rec), o.__dict__["execution_start_address"])
                            if isinstance(o, Obj) and "_pat" in o.__dict__ and c.func.attr == "get_block" and len(c.args) == 1:
                                return o.__dict__["_pat"].encode() + b"*" + bytes([ev.ev(c.args[0])])
                            if isinstance(o, Obj) and "_img" in o.__dict__ and c.func.attr == "export" and not c.args:
                                return b"EXPORT-" + o.__dict__["_img"].encode()
                        if f == "write_file" and c.args:
                            log.append((ev.ev(c.args[0]), ev.ev(c.args[1]) if len(c.args) > 1 else ev.ev(A.arg_of(c, 1, "path"))))
                            return None
                        return ordereval.NOT_MODELLED
                    try:
                        out = ordereval.Evaluator({"self": me, "path": "out.file", "file_format": fmt}, ctx.fold_sym(fn), opaque_return=False, call_value=cv).run(A.body_of(fn.node))
                    except ordereval.Unsupported as ex:
                        raise AnalysisError(f"C16.formats: save_binary_image left the fragment: {ex}")
                    n += 1
                    F = fmt.upper()
                    if F not in ("BIN", "HEX", "S19"):
                        if out.kind != "raise":
                            probs.append(f"format {fmt!r} is accepted")
                        continue
                    if F == "BIN":
                        want_log = [(b"EXPORT-root", "out.file")]
                    else:
                        want_rec = []

                        def walk(o):
                            if o.__dict__["pattern"] is not None:
                                want_rec.append((o.__dict__["_img"].encode() + b"*" + bytes([16]), o.__dict__["absolute_address"], True))
                            if o.__dict__["binary"]:
                                want_rec.append((o.__dict__["binary"], o.__dict__["absolute_address"], True))
                            for s_ in o.__dict__["sub_images"]:
                                walk(s_)
                        walk(me)
                        want_log = [(("as_ihex" if F == "HEX" else "as_srec", tuple(want_rec), 0x55AA), "out.file")]
                    if out.kind == "raise" or log != want_log:
                        probs.append(f"format {fmt!r}, pattern {pattern}, binary {binary!r}, {len(kids)} children: {'raises' if out.kind == 'raise' else 'writes ' + repr(log)[:160]}, expected {repr(want_log)[:160]}")
    chk.exhaustive_rules.add("C16.formats")
    chk.decide(not probs, "C16.formats", fn.qual, f"BIN -> export(); HEX/S19 -> pattern fill then own binary of every image at its absolute address (overwrite, parents first), start address carried, ihex/srec rendering written; other formats rejected ({n} models)",
               "; ".join(probs[:2]), "", A.loc(IMG, fn.node))
    # load: segments keep their addresses and bytes
    ld = ctx.own(IMG, "BinaryImage", "load_binary_image")
    seg = None
    for c in A.calls_in(ld.node, "BinaryImage"):
        kw = {k.arg: norm(k.value) for k in c.keywords}
        if "binary" in kw:
            seg = kw
    ok = seg is not None and seg.get("offset") == "segment.address" and seg.get("binary") == "segment.data" and seg.get("size") == "len(segment.data)"
    chk.decide(ok, "C16.formats.load", ld.qual, "each file segment becomes a child at its address with its bytes", f"{seg}", "offset=segment.address, binary=segment.data, size=len(segment.data)", A.loc(IMG, ld.node))
    uo = [c for c in A.calls_in(ld.node, "update_offsets")]
    chk.decide(bool(uo), "C16.formats.load", ld.qual + " offsets", "update_offsets() normalises the base address", "", "", A.loc(IMG, ld.node))


MISC = "spsdk/utils/misc.py"


def rule_pattern(ctx) -> None:
    """The fill pattern itself: get_block evaluated on models of every pattern kind and sizes around the 256-byte period, and the
    presence protocol (`if image.pattern:` means "a pattern object is set", so the class must not define its own truth value)."""
    chk = ctx.chk
    gb = ctx.own(MISC, "BinaryPattern", "get_block")

    def cv(c: ast.Call, ev):
        f = norm(c.func)
        if f == "random_bytes" and len(c.args) == 1:
            return b"R" * ev.ev(c.args[0])
        if f == "value_to_bytes" and c.args:
            v = ev.ev(c.args[0])
            if isinstance(v, str) and v.startswith("0x"):
                return bytes.fromhex(v[2:])
        return ordereval.NOT_MODELLED
    probs, n = [], 0
    for pat in ("zeros", "ones", "rand", "inc", "0xA5", "0x112233"):
        for size in (0, 1, 2, 3, 255, 256, 257, 600):
            try:
                out = ordereval.Evaluator({"self": Obj(_pattern=pat), "size": size}, ctx.fold_sym(gb), opaque_return=False, call_value=cv).run(A.body_of(gb.node))
            except ordereval.Unsupported as ex:
                raise AnalysisError(f"C16.pattern: BinaryPattern.get_block left the fragment: {ex}")
            n += 1
            if pat == "zeros":
                want = bytes(size)
            elif pat == "ones":
                want = b"\xff" * size
            elif pat == "rand":
                want = b"R" * size
            elif pat == "inc":
                want = bytes(i & 0xFF for i in range(size))
            else:
                unit = bytes.fromhex(pat[2:])
                want = (unit * (size // len(unit) + 1))[:size]
            got = bytes(out.value) if out.kind == "return" and isinstance(out.value, (bytes, bytearray)) else None
            if got != want:
                bad_at = next((i for i in range(min(len(got), len(want))) if got[i] != want[i]), min(len(got), len(want))) if got is not None else None
                probs.append(f"pattern {pat!r}, {size} bytes: {'differs from offset ' + str(bad_at) + ' (length ' + str(len(got)) + ')' if got is not None else out.kind}")
    chk.exhaustive_rules.add("C16.pattern")
    chk.decide(not probs, "C16.pattern", gb.qual, f"zeros / ones / random / incrementing (i & 0xFF) / repeated value, exactly `size` bytes ({n} models incl. sizes around the 256-byte period)", "; ".join(probs[:3]), "", A.loc(MISC, gb.node))
    # presence protocol
    k = ctx.cls(MISC, "BinaryPattern")
    own_truth = [m for kk in ctx.prog.mro(k) for m in ("__bool__", "__len__") if kk.method(m) is not None]
    sites = []
    for rp in (IMG, MISC):
        for nd in ast.walk(ctx.m(rp).tree):
            tests = []
            if isinstance(nd, (ast.If, ast.IfExp, ast.While)):
                tests.append(nd.test)
            for t in tests:
                for lit, _pol in A.literals(t):
                    if lit.endswith(".pattern") or lit in ("pattern", "padding"):
                        sites.append(f"{rp}:{nd.lineno} `{lit}`")
    chk.decide(not own_truth and len(sites) >= 2, "C16.pattern", f"{MISC}::BinaryPattern presence", f"a pattern object is always true: {len(sites)} site(s) test `pattern` by truthiness to mean 'a pattern is set'",
               f"BinaryPattern defines {own_truth}; sites {sites[:4]}", "no __bool__/__len__ on BinaryPattern", A.loc(MISC, k.node))


def run(ctx) -> None:
    ctx.chk.explain("C16: validate() and __len__ are evaluated by the order-type evaluator on small object graphs (parent with up to two children: every order type of "
                    "offsets/lengths) against interval-intersection and aligned-maximum references; export() windows, layer order and the append-only alignment are decided "
                    "structurally on slice bounds; the HEX/S19 writer's three overwrite layers, addresses and the loader's segment mapping are checked.")
    ctx.rule(rule_validate)
    ctx.rule(rule_len)
    ctx.rule(rule_export)
    ctx.rule(rule_structure)
    ctx.rule(rule_formats)
    ctx.rule(rule_pattern)
    # image lengths, aligned sizes and alignment padding go through spsdk.utils.misc.align / align_block: decided by C20's rules
    from . import c20 as _c20
    ctx.rule(lambda c: c.borrow(_c20.rule_align, "C20.align", "C16.align-helper"))
    ctx.chk.assumptions = ["bincopy's add_binary/as_ihex/as_srec keep addresses and bytes", "zero-length children are outside the validate reference (degenerate intervals)",
                           "not decided: byte contents of patterns, bincopy round trip"]


MANIFEST = {
    "level": "Static decision: validate()'s raise condition is decided for all offsets/sizes of up to two children by exhaustive order-type evaluation of its syntax tree; "
             "__len__ likewise on a representative grid; export/save structure (windows, layer order, addresses) is decided on the AST. File-format libraries are trusted.",
    "note": "Trusted: bincopy, memoryview slice assignment, align/align_block (C20). Not decided: pattern contents, deep trees beyond the inductive per-node rules.",
    "technique": "static analysis: order-type evaluation of guards on small object graphs, slice-window and layer-order rules on the AST, finite-model evaluation of export (memoryview aliasing model), validate, save formats (recorder model) and the fill pattern",
}
