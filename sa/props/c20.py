"""C20 Number parsing, alignment and byte-order helpers - structural clauses (DESIGN.md §3 C20)."""
from __future__ import annotations

import ast
from typing import Any, Dict, List, Optional

from ..core import astutil as A
from ..core.loader import AnalysisError
from ..core.report import norm
from ..core.symtab import UNKNOWN, struct_items, byte_order
from ..engines.ordereval import Obj
from ..engines import bitprov, ordereval, regexlang

MISC = "spsdk/utils/misc.py"
SBMISC = "spsdk/sbfile/misc.py"
ENUM = "spsdk/utils/spsdk_enum.py"


# ------------------------------------------------------------------ helpers shared with other props
def guard_decide(ctx, rule: str, fn, names: List[str], reference, values: Optional[Dict[str, List[int]]] = None,
                 sym_factory=None, lo: int = -2, hi: int = 5, body: Optional[List[ast.stmt]] = None, consts=None,
                 construct: Optional[str] = None) -> None:
    """Decide a comparison-only guard on order types (E5)."""
    chk = ctx.chk
    b = body if body is not None else A.body_of(fn.node)
    construct = construct or fn.qual
    try:
        n, cex = ordereval.decide(b, names, reference, lo=lo, hi=hi, values=values, sym_factory=sym_factory, consts=consts,
                                  call_value=ctx.model_calls(module=fn.module.relpath) if fn is not None else None)
    except ordereval.Unsupported as e:
        raise AnalysisError(f"{rule}: {construct} left the order-type fragment: {e}")
    chk.exhaustive_rules.add(rule)
    if cex is None:
        chk.ok(rule, construct, f"guard equals the reference predicate on all {n} order-type representatives of {names}")
    else:
        chk.bad(rule, construct, f"at {cex['env']}: {cex['got']} (stmt: {cex['stmt']})",
                f"reference outcome {cex['expected']}", A.loc(fn.module.relpath, fn.node))


def len_eval(e: ast.expr, env: Dict[str, int], lens: Dict[str, int]) -> int:
    """Length algebra for bytes-building expressions (Unsupported outside the fragment)."""
    ev = ordereval.Evaluator(env)
    if isinstance(e, ast.Name) and e.id in lens:
        return lens[e.id]
    if isinstance(e, ast.Call):
        nm = A.call_name(e)
        if nm in ("bytes", "bytearray") and len(e.args) == 1:
            a = e.args[0]
            if isinstance(a, (ast.List, ast.Tuple)):
                return len(a.elts)
            try:
                return len_eval(a, env, lens)
            except ordereval.Unsupported:
                v = ev.ev(a)
                if isinstance(v, int) and v >= 0:
                    return v
                raise
        if nm in ("get_block", "random_bytes") and len(e.args) == 1:
            v = ev.ev(e.args[0])
            if isinstance(v, int):
                return max(v, 0)
    if isinstance(e, ast.BinOp) and isinstance(e.op, ast.Add):
        return len_eval(e.left, env, lens) + len_eval(e.right, env, lens)
    if isinstance(e, ast.BinOp) and isinstance(e.op, ast.Mult):
        try:
            return len_eval(e.left, env, lens) * max(ev.ev(e.right), 0)
        except ordereval.Unsupported:
            return max(ev.ev(e.left), 0) * len_eval(e.right, env, lens)
    if isinstance(e, ast.Constant) and isinstance(e.value, bytes):
        return len(e.value)
    raise ordereval.Unsupported(e, "length algebra")


def float_arith(node: ast.AST) -> List[ast.AST]:
    """True divisions and float-producing calls inside node."""
    out: List[ast.AST] = []
    for n in A.walk_no_nested(node):
        if isinstance(n, ast.BinOp) and isinstance(n.op, ast.Div):
            out.append(n)
        elif isinstance(n, ast.AugAssign) and isinstance(n.op, ast.Div):
            out.append(n)
        elif isinstance(n, ast.Call) and A.call_name(n) in ("float", "ceil", "floor", "round", "log2", "log", "sqrt", "pow", "trunc"):
            out.append(n)
        elif isinstance(n, ast.Constant) and isinstance(n.value, float):
            out.append(n)
    return out


def starts_with(e: ast.expr, name: str) -> bool:
    """expression is `name`, bytes(name ...) or name + <anything> (append-only shape)."""
    e = A.strip_wrappers(e)
    if isinstance(e, ast.Name):
        return e.id == name
    if isinstance(e, ast.BinOp) and isinstance(e.op, ast.Add):
        return starts_with(e.left, name)
    return False


# ------------------------------------------------------------------------------------- rules
def rule_check_range(ctx) -> None:
    fn = ctx.func(MISC, "check_range")
    guard_decide(ctx, "C20.check_range", fn, ["x", "start", "end"],
                 lambda e: ("return", e["start"] <= e["x"] <= e["end"]), lo=-1, hi=4)
    # defaults: documented unsigned 32-bit range
    d = fn.node.args.defaults
    vals = [ctx.prog.fold(x, fn.module) for x in d]
    ctx.chk.decide(vals == [0, (1 << 32) - 1], "C20.check_range.defaults", fn.qual,
                   "defaults fold to (0, 2**32-1) as documented", f"defaults fold to {vals}", "0 and 2**32-1",
                   A.loc(MISC, fn.node))


def rule_align(ctx) -> None:
    fn = ctx.func(MISC, "align")
    guard_decide(ctx, "C20.align.guard", fn, ["number", "alignment"],
                 lambda e: ("raise", None) if (e["alignment"] <= 0 or e["number"] < 0) else ("return", "<expr>"),
                 lo=-2, hi=3)
    fl = float_arith(fn.node)
    ctx.chk.decide(not fl, "C20.align.integer-arithmetic", fn.qual, "alignment is computed in exact integer arithmetic (no true division / float helpers)",
                   f"float arithmetic in an integer helper: {norm(fl[0]) if fl else ''} (inexact beyond 2**53; the contract covers integers up to 2**512)",
                   "integer operators only (//, %, *, +, -)", A.loc(MISC, fl[0]) if fl else "")
    if fl:
        return
    # the whole function evaluated: every alignment 1..24 (powers of two, their neighbours, products) plus the larger ones SPSDK
    # uses, every residue of the number - whichever formula or fast path the code takes, the result is the least multiple >= number
    bad = None
    n = 0
    pn, pa = [a_.arg for a_ in fn.node.args.args][:2]
    for a in list(range(1, 25)) + [31, 32, 33, 40, 48, 64, 80, 160, 255, 256, 320, 384, 4096, 65535]:
        for num in sorted(set(range(0, min(a, 10) + 2)) | {a - 1, a, a + 1, 2 * a - 1, 2 * a, 2 * a + 1, 3 * a + 1, 7 * a + 3}):
            try:
                out = ordereval.Evaluator({pn: num, pa: a}, ctx.fold_sym(fn), opaque_return=False).run(A.body_of(fn.node))
            except ordereval.Unsupported as e:
                raise AnalysisError(f"C20.align.formula: align() left the arithmetic fragment: {e}")
            n += 1
            exp = -(-num // a) * a
            if (out.kind != "return" or out.value != exp) and bad is None:
                bad = (num, a, out.value if out.kind == "return" else out.kind, exp)
    ctx.chk.exhaustive_rules.add("C20.align.formula")
    ctx.chk.decide(bad is None, "C20.align.formula", fn.qual,
                   f"the result is the least multiple of alignment >= number on {n} (number, alignment) pairs (alignments 1..24 and the larger ones in use, the residues around every multiple)",
                   f"align({bad[0]}, {bad[1]}) gives {bad[2]}" if bad else "",
                   f"least multiple >= number is {bad[3]}" if bad else "", A.loc(MISC, fn.node))


def _append_only(ctx, rule: str, fn, data: str, total_len, names: List[str], lens_sym: str, lo: int, hi: int, consts=None) -> None:
    """Every return is `data` followed by padding and has the reference total length."""
    rets = A.returns_in(fn.node)
    if not rets:
        raise AnalysisError(f"{rule}: no return in {fn.qual}")
    for r in rets:
        e = A.inline_locals(fn.node, r.value)
        ctx.chk.decide(starts_with(e, data), rule + ".append-only", f"{fn.qual} return",
                       f"`{norm(r.value)}` starts with the input block (padding is only appended)",
                       f"return {norm(r.value)} does not start with `{data}`", f"{data} or {data} + <padding>", A.loc(fn.module.relpath, r))
    # total length on every path: evaluate the body with the guard evaluator, then the length algebra on the return taken
    body = A.body_of(fn.node)
    cex = None
    n = 0
    for env in ordereval.grid(names, lo, hi):
        L = env[lens_sym]
        if L < 0:
            continue
        e2 = dict(consts or {})
        e2.update(env)

        def sym(x: ast.expr, L=L):
            if isinstance(x, ast.Call) and A.call_name(x) == "len" and isinstance(x.args[0], ast.Name) and x.args[0].id == data:
                return L
            if isinstance(x, ast.Call) and A.call_name(x) == "isinstance":
                return True
            if isinstance(x, ast.Call) and A.call_name(x) == "align" and len(x.args) == 2:
                ev0 = ordereval.Evaluator(evr.env, sym)
                a, b = ev0.ev(x.args[0]), ev0.ev(x.args[1])
                if b <= 0 or a < 0:
                    raise _Raised()
                return -(-a // b) * b
            if isinstance(x, ast.Name) and x.id == "padding":
                return 0  # falsy / int padding: both branches build a BinaryPattern; irrelevant to lengths
            return None

        evr = ordereval.Evaluator(e2, sym, opaque_return=True)
        try:
            out = evr.run(body, stop_at_unsupported=False)
        except _Raised:
            out = ordereval.Outcome("raise")
        except ordereval.Unsupported as ex:
            # statements that only prepare the padding object are skipped by re-running in tolerant mode
            out = _tolerant_run(evr, body)
            if out is None:
                raise AnalysisError(f"{rule}: {fn.qual} left the fragment: {ex}")
        n += 1
        exp = total_len(env)
        if exp is None:
            ok = out.kind == "raise"
            got: Any = out.kind
        else:
            if out.kind != "return":
                ok, got = False, out.kind
            else:
                try:
                    got = len_eval(A.inline_locals(fn.node, out.node.value, keep=list(evr.env)), evr.env, {data: L})
                except ordereval.Unsupported as ex:
                    raise AnalysisError(f"{rule}: length algebra cannot size `{norm(out.node.value)}`: {ex}")
                ok = got == exp
        if not ok and cex is None:
            cex = (env, got, exp)
    ctx.chk.exhaustive_rules.add(rule + ".length")
    ctx.chk.decide(cex is None, rule + ".length", fn.qual,
                   f"result length equals the reference on {n} grid points of {names}",
                   f"at {cex[0]}: result length/outcome {cex[1]}" if cex else "",
                   f"expected {'raise' if cex and cex[2] is None else cex[2] if cex else ''}", A.loc(fn.module.relpath, fn.node))


class _Raised(Exception):
    pass


def _tolerant_run(evr: ordereval.Evaluator, body: List[ast.stmt]) -> Optional[ordereval.Outcome]:
    """Run, skipping `if` statements whose bodies contain no return/raise and only assign non-integer helpers."""
    for st in body:
        try:
            o = evr.step(st)
        except _Raised:
            return ordereval.Outcome("raise")
        except ordereval.Unsupported:
            if not any(isinstance(x, (ast.Return, ast.Raise)) for x in ast.walk(st)):
                continue
            return None
        if o is not None:
            return o
    return ordereval.Outcome("fall")


def rule_align_block(ctx) -> None:
    fn = ctx.func(MISC, "align_block")
    _append_only(ctx, "C20.align_block", fn, "data",
                 lambda e: None if e["alignment"] <= 0 else -(-e["L"] // e["alignment"]) * e["alignment"],
                 ["L", "alignment"], "L", -1, 9)
    fn2 = ctx.func(MISC, "extend_block")
    _append_only(ctx, "C20.extend_block", fn2, "data",
                 lambda e: None if e["length"] < e["L"] else e["length"],
                 ["L", "length"], "L", -1, 6, consts={"padding": 0})


def rule_swaps(ctx) -> None:
    prog = ctx.prog
    # swap16: guard + bit permutation
    fn = ctx.func(MISC, "swap16")
    cv = ordereval.critical(ordereval.int_constants(fn.node))
    guard_decide(ctx, "C20.swap16.guard", fn, ["x"],
                 lambda e: ("raise", None) if (e["x"] < 0 or e["x"] > 0xFFFF) else ("return", "<expr>"),
                 values={"x": cv + [0xFFFF - 1, 0xFFFF, 0x10000]})
    ret = A.returns_in(fn.node)[-1]
    try:
        bits = bitprov.BitEval({"x": bitprov.var_bits("x", 16)}).ev(ret.value)
        perm = bitprov.field_of(bits, "x")
        ok = perm == {i: ((i + 8) % 16, False) for i in range(16)} and all(b == 0 for i, b in enumerate(bits) if i >= 16)
        ctx.chk.decide(ok, "C20.swap16.perm", fn.qual, "result bit i carries input bit (i+8) mod 16 - a byte swap, an involution on 16 bits",
                       f"{norm(ret.value)} maps bits {sorted(perm.items())[:16]}", "bit i <- bit (i+8) mod 16", A.loc(MISC, ret))
    except (bitprov.Top, bitprov.SymbolicShift) as e:
        raise AnalysisError(f"C20.swap16.perm: outside the bit-provenance fragment: {e}")
    # swap32: guard + pack/unpack with one 4-byte item in opposite byte orders
    fn = ctx.func(MISC, "swap32")
    guard_decide(ctx, "C20.swap32.guard", fn, ["x"],
                 lambda e: ("raise", None) if (e["x"] < 0 or e["x"] > 0xFFFFFFFF) else ("return", "<expr>"),
                 values={"x": [-2, -1, 0, 1, 0xFFFFFFFE, 0xFFFFFFFF, 0x100000000, 0x100000001]})
    ret = A.returns_in(fn.node)[-1]
    packs = A.calls_in(ret, "pack")
    unpacks = A.calls_in(ret, "unpack")
    if len(packs) == 1 and len(unpacks) == 1:
        pf, uf = prog.fold(packs[0].args[0], fn.module), prog.fold(unpacks[0].args[0], fn.module)
        pi, ui = struct_items(pf) if isinstance(pf, str) else None, struct_items(uf) if isinstance(uf, str) else None
        ok = bool(pi and ui and len(pi) == 1 and len(ui) == 1 and pi[0][1] == ui[0][1] == 4 and pi[0][0] in "IL" and ui[0][0] in "IL"
                  and {byte_order(pf), byte_order(uf)} in ({"<", ">"}, {"<", "!"}))
        inner_x = len(packs[0].args) == 2 and isinstance(packs[0].args[1], ast.Name) and packs[0].args[1].id == "x"
        ctx.chk.decide(ok and inner_x, "C20.swap32.perm", fn.qual, f"pack({pf!r}) / unpack({uf!r}): one unsigned 32-bit item, opposite byte orders",
                       f"{norm(ret.value)}", "one 4-byte unsigned item packed and unpacked in opposite byte orders", A.loc(MISC, ret))
    else:
        # accept an arithmetic form through bit provenance
        try:
            bits = bitprov.BitEval({"x": bitprov.var_bits("x", 32)}).ev(ret.value)
            perm = bitprov.field_of(bits, "x")
            ok = perm == {i: (8 * (3 - i // 8) + i % 8, False) for i in range(32)}
            ctx.chk.decide(ok, "C20.swap32.perm", fn.qual, "bit permutation is the 4-byte reversal", norm(ret.value), "4-byte reversal", A.loc(MISC, ret))
        except (bitprov.Top, bitprov.SymbolicShift) as e:
            raise AnalysisError(f"C20.swap32.perm: unrecognised form: {e}")


def _flags_of(exprs) -> int:
    fl = 0
    for e in exprs:
        t = norm(e)
        if "IGNORECASE" in t or t.endswith("re.I") or "re.I |" in t:
            fl |= 2
    return fl


def find_regex_call(ctx, fn):
    """The single regex application in fn: re.match/fullmatch/search(pat, subject[, flags]) or <compiled>.match(subject)
    where <compiled> is a local or module-level `re.compile(pat[, flags])`. Returns (call, pattern, subject, mode, flags)."""
    prog = ctx.prog
    hits = []
    for c in A.calls_in(fn.node):
        f = c.func
        if not (isinstance(f, ast.Attribute) and f.attr in ("match", "fullmatch", "search")):
            continue
        if isinstance(f.value, ast.Name) and f.value.id == "re" and len(c.args) >= 2:
            pat = prog.fold(c.args[0], fn.module)
            hits.append((c, pat, c.args[1], f.attr, _flags_of([k.value for k in c.keywords if k.arg == "flags"] + c.args[2:3])))
            continue
        comp = None
        if isinstance(f.value, ast.Name):
            comp = A.single_def(fn.node, f.value.id)
            if comp is None:
                r = prog.resolve(fn.module, f.value.id)
                if isinstance(r, tuple) and r[0] == "const":
                    comp = r[2]
        elif isinstance(f.value, ast.Call):
            comp = f.value
        if isinstance(comp, ast.Call) and A.dotted(comp.func) == "re.compile" and comp.args and c.args:
            pat = prog.fold(comp.args[0], fn.module)
            hits.append((c, pat, c.args[0], f.attr, _flags_of([k.value for k in comp.keywords if k.arg == "flags"] + comp.args[1:2])))
    if len(hits) != 1:
        raise AnalysisError(f"C20.value_to_int: expected exactly one regex application, found {len(hits)}")
    if not isinstance(hits[0][1], str):
        raise AnalysisError("C20.value_to_int: regex pattern does not fold to a string")
    return hits[0]


def rule_value_to_int(ctx) -> None:
    top = ctx.func(MISC, "value_to_int")
    fn = top
    prog = ctx.prog
    try:
        call, pat, subject, mode, flags = find_regex_call(ctx, fn)
    except AnalysisError:
        # the string branch may live in a helper that a refactoring extracted: it is analysed in its place, provided value_to_int
        # hands it the value and returns what it delivers
        cands = []
        for h in ctx.new_helpers_called(top):
            try:
                cands.append((h, find_regex_call(ctx, h)))
            except AnalysisError:
                pass
        if len(cands) != 1:
            raise
        fn, (call, pat, subject, mode, flags) = cands[0]
        hname = fn.node.name
        deleg = [q for q in A.spaths(top.node) if q.end == "return" and q.vtext == f"{hname}(value)" and q.assumes(f"{hname}(value) is None", False)]
        ctx.chk.decide(bool(deleg), "C20.value_to_int.delegation", top.qual, f"the string form is parsed by {hname}(value) and its result returned when there is one", "no returning path hands back the helper's result", "", A.loc(MISC, top.node))
    subj_txt = norm(subject)
    lowered = ".lower()" in subj_txt
    stripped = ".strip()" in subj_txt
    alphabet = "0123456789abcdefgloux_ABFLUX +-.\n#"
    try:
        actual = regexlang.Lang(pat, mode, flags, alphabet)
        # documented grammar on the (stripped) string; case-insensitive
        ref_pat = r"(0[bBoOxX])?[0-9a-fA-F_]+[uUlL]{0,3}" if not lowered else r"(0[box])?[0-9a-f_]+[ul]{0,3}"
        ref = regexlang.Lang(ref_pat, "fullmatch", 0, alphabet if not lowered else "".join(sorted(set(alphabet.lower()))))
        if lowered:
            actual = regexlang.Lang(pat, mode, flags, ref.alphabet)
        states, diff = regexlang.difference(actual, ref)
    except regexlang.Unsupported as e:
        raise AnalysisError(f"C20.value_to_int.regex: {e}")
    ctx.chk.exhaustive_rules.add("C20.value_to_int.regex")
    ctx.chk.decide(diff is None, "C20.value_to_int.regex", fn.qual,
                   f"language of {pat!r} under re.{mode} equals the documented grammar (0[box])?[0-9a-f_]+[ul]{{0,3}} ({states} product states)",
                   f"pattern {pat!r} (re.{mode}): string {diff[0]!r} is accepted by {diff[1].replace('first', 'the code').replace('second', 'the documented grammar')}" if diff else "",
                   "accept exactly: optional 0b/0o/0x, digits/hex/underscores, up to three u/l suffix letters", A.loc(MISC, call))
    ctx.chk.decide(stripped, "C20.value_to_int.strip", fn.qual, "subject is stripped before matching", f"subject is {subj_txt}", "value.strip()", A.loc(MISC, call))
    # base selection: for every prefix the pattern can capture (in every letter case the subject may still have) the right base is chosen
    import re as _re0
    sub = [n for n in A.walk_no_nested(fn.node) if isinstance(n, ast.Subscript) and isinstance(n.value, ast.Dict)]
    get = [n for n in A.walk_no_nested(fn.node) if isinstance(n, ast.Call) and isinstance(n.func, ast.Attribute) and n.func.attr == "get" and isinstance(n.func.value, ast.Dict)]
    if len(sub) + len(get) != 1:
        raise AnalysisError("C20.value_to_int.base: expected one prefix->base table (dict[...] or dict.get(...))")
    node = (sub + get)[0]
    table = prog.fold(node.value if sub else node.func.value, fn.module)
    if not isinstance(table, dict):
        raise AnalysisError("C20.value_to_int.base: table does not fold")
    key = node.slice if sub else (node.args[0] if node.args else None)
    dflt = prog.fold(node.args[1], fn.module) if (get and len(node.args) > 1) else ("<KeyError>" if sub else None)
    ci = bool((flags | _re0.compile(pat).flags) & _re0.IGNORECASE) if isinstance(flags, int) else False
    prefixes = [None, "0b", "0o", "0x"]
    if not lowered and (ci or any(c in pat for c in "BOX")):
        prefixes += ["0B", "0O", "0X"]
    want_base = {None: 10, "0b": 2, "0o": 8, "0x": 16}
    probs = []
    for pfx in prefixes:
        got = table.get(pfx, dflt)
        want = want_base[pfx.lower() if pfx else None]
        if got != want:
            probs.append(f"prefix {pfx!r} -> base {got} (expected {want})")
    ctx.chk.decide(not probs, "C20.value_to_int.base", fn.qual, f"every capturable prefix {prefixes} selects its base ({'subject lowered' if lowered else 'case preserved'})",
                   "; ".join(probs), "0b -> 2, 0o -> 8, 0x -> 16, none -> 10 in every accepted letter case", A.loc(MISC, node))
    idx = norm(key) if key is not None else ""
    ctx.chk.decide("prefix" in idx and "group" in idx, "C20.value_to_int.base-key", fn.qual, f"table is indexed by {idx}", f"table is indexed by {idx}", "match.group('prefix')", A.loc(MISC, node))
    # conversion int(number, base)
    ints = [c for c in A.calls_in(fn.node, "int") if len(c.args) + len(c.keywords) == 2]
    ok = False
    for c in ints:
        a0 = norm(c.args[0]) if c.args else ""
        b = A.arg_of(c, 1, "base")
        if "number" in a0 and "group" in a0 and b is not None and norm(b) == "base":
            ok = True
    ctx.chk.decide(ok, "C20.value_to_int.convert", fn.qual, "value is int(match.group('number'), base)", "no int(match.group('number'), base) conversion found",
                   "int(<number group>, base=<table value>)", A.loc(MISC, fn.node))
    # named groups in pattern agree with the groups read
    import re as _re
    groups = set(_re.compile(pat).groupindex)
    read = {c.args[0].value for c in A.calls_in(fn.node, "group") if c.args and isinstance(c.args[0], ast.Constant)}
    ctx.chk.decide(read <= groups, "C20.value_to_int.groups", fn.qual, f"groups read {sorted(read)} exist in the pattern", f"groups read {sorted(read)} vs pattern groups {sorted(groups)}", "", A.loc(MISC, call))
    # failures reach SPSDKError unless a default is given: last statement raises SPSDKError; int path returns value for ints
    gp = A.gpaths(top.node)
    bad = [repr(q) for q in gp if q.end == "fall" or (q.end == "raise" and "SPSDKError" not in norm(q.last))
           or (q.end == "return" and norm(q.last) == "return default" and not q.assumes("default is None", False))]
    rej = [q for q in gp if q.end == "raise" and q.assumes("default is None", True)]
    ctx.chk.decide(not bad and bool(rej), "C20.value_to_int.reject", fn.qual, "every path returns a conversion, returns a non-None default, or raises SPSDKError",
                   f"{bad[:2]}; rejecting paths {len(rej)}", "raise SPSDKError(...) when nothing converts and no default is given", A.loc(MISC, fn.node))
    # bytes path: big endian, agrees with value_to_bytes default
    fb = [c for c in A.calls_in(top.node, "from_bytes")]
    vb = ctx.func(MISC, "value_to_bytes")
    dflt = {a.arg: d for a, d in zip(vb.node.args.args[-len(vb.node.args.defaults):], vb.node.args.defaults)}
    if fb and "endianness" in dflt:
        e_in = norm(fb[0].args[1]).replace(".value", "")
        e_out = norm(dflt["endianness"])
        ctx.chk.decide(e_in == e_out, "C20.value_bytes.endianness", fn.qual, f"value_to_int(bytes) uses {e_in}, value_to_bytes defaults to {e_out}",
                       f"value_to_int(bytes) uses {e_in} but value_to_bytes defaults to {e_out}", "same byte order", A.loc(MISC, fb[0]))
    # value_to_bytes evaluated on models: the integer (value_to_int is the identity on ints) is rendered at the width that
    # get_bytes_cnt_of_int(value, align_to_2n, byte_cnt) returns, in the requested byte order - whatever the locals are called
    probs = []

    def cv_vb(c: ast.Call, ev):
        f = norm(c.func)
        if f == "value_to_int" and c.args:
            return ev.ev(c.args[0])
        if f == "get_bytes_cnt_of_int" and c.args:
            v0 = ev.ev(c.args[0])
            a2 = ev.ev(A.arg_of(c, 1, "align_to_2n")) if A.arg_of(c, 1, "align_to_2n") is not None else True
            bc = ev.ev(A.arg_of(c, 2, "byte_cnt")) if A.arg_of(c, 2, "byte_cnt") is not None else None
            return ("CNT", v0, a2, bc)
        if isinstance(c.func, ast.Attribute) and c.func.attr == "to_bytes" and len(c.args) + len(c.keywords) == 2:
            v0 = ev.ev(c.func.value)
            n0 = ev.ev(A.arg_of(c, 0, "length"))
            o0 = ev.ev(A.arg_of(c, 1, "byteorder"))
            return ("BYTES", v0, n0, o0)
        return ordereval.NOT_MODELLED
    for val in (0, 1, 0x1234):
        for a2 in (True, False):
            for bc in (None, 4):
                for order in ("big", "little"):
                    env = {"value": val, "align_to_2n": a2, "byte_cnt": bc, "endianness": Obj(value=order)}
                    try:
                        out = ordereval.Evaluator(env, ctx.fold_sym(vb), opaque_return=False, call_value=cv_vb).run(A.body_of(vb.node))
                    except ordereval.Unsupported as ex:
                        raise AnalysisError(f"C20.value_to_bytes: left the fragment: {ex}")
                    want_o = ("BYTES", val, ("CNT", val, a2, bc), order)
                    if not (out.kind == "return" and out.value == want_o):
                        probs.append(f"value {val:#x}, align_to_2n {a2}, byte_cnt {bc}, {order}: {out.value!r}")
    ctx.chk.decide(not probs, "C20.value_to_bytes.routing", vb.qual, "to_bytes(get_bytes_cnt_of_int(value, align_to_2n, byte_cnt), endianness)",
                   "; ".join(probs[:2]), "width from get_bytes_cnt_of_int(value, align_to_2n, byte_cnt=byte_cnt), order from endianness", A.loc(MISC, vb.node))


def rule_bytes_cnt(ctx) -> None:
    """get_bytes_cnt_of_int evaluated on integers around every byte boundary: the documented width (smallest byte count, aligned to
    1, 2, 4, 8, 12, ... when asked, or the requested count when it suffices), a value that does not fit the requested count is
    rejected, and a negative value is rejected - the evaluator's loop bound turns a loop that cannot terminate into a finding."""
    fn = ctx.func(MISC, "get_bytes_cnt_of_int")
    probs = []
    n = 0

    def cv(c: ast.Call, ev):
        if norm(c.func) in ("ceil", "math.ceil") and len(c.args) == 1:
            import math as _m
            return _m.ceil(ev.ev(c.args[0]))
        return ordereval.NOT_MODELLED
    vals = [0, 1, 0xFF, 0x100, 0xFFFF, 0x10000, 0xFFFFFF, 0x1000000, 0xFFFFFFFF, 1 << 32, (1 << 40) - 1, 1 << 64, (1 << 96) - 1, -1, -256]
    for v in vals:
        for a2 in (True, False):
            for bc in (None, 2, 4, 16):
                try:
                    out = ordereval.Evaluator({"value": v, "align_to_2n": a2, "byte_cnt": bc}, ctx.fold_sym(fn), opaque_return=False, call_value=cv).run(A.body_of(fn.node))
                    kind, got = out.kind, out.value
                except ordereval.Unsupported as ex:
                    if "loop bound" in str(ex):
                        kind, got = "hang", None
                    else:
                        raise AnalysisError(f"C20.bytes-cnt: get_bytes_cnt_of_int left the fragment: {ex}")
                n += 1
                if v < 0:
                    want_k, want_v = "raise", None
                else:
                    cnt = max(1, (v.bit_length() + 7) // 8)
                    if a2 and cnt > 2:
                        cnt = -(-cnt // 4) * 4
                    if v == 0:
                        want_k, want_v = "return", bc or 1
                    elif bc and cnt > bc:
                        want_k, want_v = "raise", None
                    else:
                        want_k, want_v = "return", bc or cnt
                if kind != want_k or (want_k == "return" and got != want_v):
                    probs.append(f"value {v:#x}, align_to_2n {a2}, byte_cnt {bc}: {'never terminates' if kind == 'hang' else kind + ' ' + str(got)} (expected {want_k}{'' if want_v is None else ' ' + str(want_v)})")
    ctx.chk.exhaustive_rules.add("C20.bytes-cnt")
    ctx.chk.decide(not probs, "C20.bytes-cnt", fn.qual, f"smallest byte count (aligned / requested), too-wide and negative values rejected, always terminates ({n} models around every byte boundary)", "; ".join(probs[:3]), "", A.loc(MISC, fn.node))


def rule_strides(ctx) -> None:
    # reverse_bytes_in_longs: modulus, stride and window are the same 4
    fn = ctx.func(MISC, "reverse_bytes_in_longs")
    # evaluated on byte strings of every length 0..17: rejected unless a multiple of 4, else every 4-byte word reversed in place
    cex = None
    for L in range(0, 18):
        data = bytes(range(1, L + 1))
        try:
            out = ordereval.Evaluator({"arr": data}, ctx.fold_sym(fn), opaque_return=False).run(A.body_of(fn.node))
        except ordereval.Unsupported as ex:
            raise AnalysisError(f"C20.reverse_bytes_in_longs: left the fragment: {ex}")
        if L % 4:
            good = out.kind == "raise"
        else:
            good = out.kind == "return" and isinstance(out.value, (bytes, bytearray)) and bytes(out.value) == b"".join(data[i:i + 4][::-1] for i in range(0, L, 4))
        if not good and cex is None:
            cex = (L, out.kind, bytes(out.value).hex() if isinstance(out.value, (bytes, bytearray)) else out.value)
    ctx.chk.exhaustive_rules.add("C20.reverse_bytes_in_longs")
    ctx.chk.decide(cex is None, "C20.reverse_bytes_in_longs", fn.qual,
                   "a length that is not a multiple of 4 is rejected; otherwise the bytes of every 4-byte word are reversed, words stay in place (lengths 0..17)",
                   f"{cex[0]} bytes: {cex[1]} {cex[2]}" if cex else "", "partition into longs, each reversed", A.loc(MISC, fn.node))
    # swap_bytes: evaluated on every even length 0..12 - neighbouring bytes exchanged, nothing else moved
    fn = ctx.func(MISC, "swap_bytes")
    par = fn.node.args.args[0].arg
    cex = None
    for L in range(0, 13, 2):
        data = bytes(range(1, L + 1))
        try:
            out = ordereval.Evaluator({par: data}, ctx.fold_sym(fn), opaque_return=False).run(A.body_of(fn.node))
        except ordereval.Unsupported as ex:
            raise AnalysisError(f"C20.swap_bytes: left the fragment: {ex}")
        want = bytes(data[i ^ 1] for i in range(L))
        if not (out.kind == "return" and isinstance(out.value, (bytes, bytearray)) and bytes(out.value) == want) and cex is None:
            cex = (L, out.kind, bytes(out.value).hex() if isinstance(out.value, (bytes, bytearray)) else out.value)
    ctx.chk.exhaustive_rules.add("C20.swap_bytes")
    ctx.chk.decide(cex is None, "C20.swap_bytes", fn.qual, "byte 2k and byte 2k+1 are exchanged for every k (even lengths 0..12)",
                   f"{cex[0]} bytes: {cex[1]} {cex[2]}" if cex else "", "b'abcd' -> b'badc'", A.loc(MISC, fn.node))
    # reverse_bits: evaluated on every value of every width 1..6 (plus the default width at its corners): the bit mirror image,
    # an involution; a value that does not fit the width is rejected by an SPSDK raise, not reversed into some other number
    fn = ctx.func(MISC, "reverse_bits")
    pv, pb = [a.arg for a in fn.node.args.args][:2]
    cex = None
    n = 0
    cases = [(x, w) for w in range(1, 7) for x in range(-2, (1 << w) + 3)] + [(x, 32) for x in (0, 1, 0x12345678, 0xFFFFFFFF, 0x80000000, 1 << 32, (1 << 32) + 1, -1)]
    for x, w in cases:
        try:
            out = ordereval.Evaluator({pv: x, pb: w}, ctx.fold_sym(fn), opaque_return=False).run(A.body_of(fn.node))
        except ordereval.Unsupported as ex:
            raise AnalysisError(f"C20.reverse_bits: left the fragment: {ex}")
        n += 1
        if 0 <= x < (1 << w):
            good = out.kind == "return" and out.value == sum(((x >> i) & 1) << (w - 1 - i) for i in range(w))
        else:
            exc = out.node.exc if out.kind == "raise" and isinstance(out.node, ast.Raise) else None
            good = exc is not None and norm(exc.func if isinstance(exc, ast.Call) else exc).startswith("SPSDK")
        if not good and cex is None:
            cex = (x, w, out.kind, out.value)
    ctx.chk.exhaustive_rules.add("C20.reverse_bits")
    ctx.chk.decide(cex is None, "C20.reverse_bits", fn.qual, f"mirror image of the low bits_cnt bits (an involution), values outside the width rejected ({n} models)",
                   f"reverse_bits({cex[0]}, {cex[1]}): {cex[2]} {cex[3]!r}" if cex else "", "bit i <-> bit bits_cnt-1-i", A.loc(MISC, fn.node))
    # split_data: partition
    fn = ctx.func(MISC, "split_data")
    check_partition(ctx, "C20.split_data.partition", fn, "data", "size")


def check_partition(ctx, rule: str, fn, data: str, size: str, node: Optional[ast.AST] = None) -> None:
    """for i in range(0, len(data), S): ... data[i:i+S]  - one S, start 0, bound len(data)."""
    scope = node or fn.node
    found = False
    for f in [n for n in A.walk_no_nested(scope) if isinstance(n, (ast.For, ast.comprehension))]:
        it = f.iter
        if not (isinstance(it, ast.Call) and A.call_name(it) == "range" and len(it.args) == 3):
            continue
        if not isinstance(f.target, ast.Name):
            continue
        var = f.target.id
        owner = f if isinstance(f, ast.For) else A.parent(f)
        slices = [n for n in ast.walk(owner) if isinstance(n, ast.Subscript) and isinstance(n.slice, ast.Slice) and n.slice.lower is not None
                  and norm(n.slice.lower) == var and norm(n.value) == data]
        if not slices:
            continue
        found = True
        start, bound, stride = norm(it.args[0]), norm(it.args[1]), norm(it.args[2])
        for s in slices:
            up = s.slice.upper
            ok = (start == "0" and bound == f"len({data})" and stride == size and up is not None
                  and norm(up) in (f"{var} + {size}", f"{size} + {var}"))
            ctx.chk.decide(ok, rule, fn.qual, f"range(0, len({data}), {size}) with slice {norm(s)}: consecutive chunks cover the data exactly once",
                           f"range({start}, {bound}, {stride}) with slice {norm(s)}", f"range(0, len({data}), {size}) and {data}[i:i + {size}]", A.loc(fn.module.relpath, s))
    if not found:
        raise AnalysisError(f"{rule}: chunking loop over `{data}` not found in {fn.qual}")


def rule_bcd(ctx) -> None:
    prog = ctx.prog
    fn = ctx.own(SBMISC, "BcdVersion3", "_check_number")
    vals = sorted({sum(d << (4 * i) for i, d in enumerate(ds)) for ds in __import__("itertools").product((0, 9, 10, 15), repeat=4)}
                  | {-2, -1, 0x9999 + 1, 0x10000, 0x10009, 0x19999, 0x99999})

    def ref(e):
        n = e["num"]
        if n < 0 or n > 0x9999 or any(((n >> (4 * i)) & 0xF) > 9 for i in range(4)):
            return ("raise", None)
        return ("return", True)
    guard_decide(ctx, "C20.bcd.check_number", fn, ["num"], ref, values={"num": vals})
    # text <-> number are hex-digit inverses: int(text, 16) and format spec X, in the same component order
    nf = ctx.own(SBMISC, "BcdVersion3", "_num_from_str")
    ints = [c for c in A.calls_in(nf.node, "int") if len(c.args) == 2]
    base = prog.fold(ints[0].args[1], nf.module) if ints else UNKNOWN
    st = ctx.own(SBMISC, "BcdVersion3", "__str__")
    rets = A.returns_in(st.node)
    specs, order = [], []
    if rets and isinstance(rets[0].value, ast.JoinedStr):
        for v in rets[0].value.values:
            if isinstance(v, ast.FormattedValue):
                order.append(norm(v.value))
                specs.append(prog.fold(v.format_spec, st.module) if v.format_spec is not None else "")
    ok = base == 16 and specs and all(isinstance(s, str) and s.lower() == "x" for s in specs) and order == ["self.major", "self.minor", "self.service"]
    ctx.chk.decide(bool(ok), "C20.bcd.text-twin", "BcdVersion3.__str__/_num_from_str", f"parse base {base}, format specs {specs}, order {order}",
                   f"parse base {base}, format specs {specs}, order {order}", "int(text, 16) <-> :X for major.minor.service", A.loc(SBMISC, st.node))
    calls_check = bool(A.calls_in(nf.node, "_check_number"))
    ctx.chk.decide(calls_check, "C20.bcd.parse-validates", nf.qual, "_num_from_str validates through _check_number", "no _check_number call", "", A.loc(SBMISC, nf.node))
    # _num_from_str evaluated on texts: accepted exactly when 1-4 decimal digits (value = the BCD reading), every other text is
    # rejected by a raise statement of an SPSDK error (a builtin ValueError escaping from int() is not a rejection by contract)
    chk_fn = ctx.own(SBMISC, "BcdVersion3", "_check_number")
    texts = ["", "0", "7", "10", "999", "9999", "0000", "12345", "00000", "a", "1a", "g", "0x1", "1_0", "+1", "-1", " 1", "1 ", "1.", "\u0661", "F", "99f9"]
    probs = []
    for text in texts:
        try:
            out = ordereval.Evaluator({"text": text}, ctx.fold_sym(nf), opaque_return=False,
                                      call_value=ctx.model_calls(classes={"BcdVersion3": ctx.cls(SBMISC, "BcdVersion3")}, module=nf.module)).run(A.body_of(nf.node))
        except ordereval.Unsupported as ex:
            raise AnalysisError(f"C20.bcd.num_from_str: left the fragment: {ex}")
        valid = 1 <= len(text) <= 4 and all(ch in "0123456789" for ch in text)
        if valid:
            good = out.kind == "return" and out.value == int(text, 16)
        else:
            exc = out.node.exc if out.kind == "raise" and isinstance(out.node, ast.Raise) else None
            name = norm(exc.func if isinstance(exc, ast.Call) else exc) if exc is not None else ""
            good = out.kind == "raise" and out.value is None and name.startswith("SPSDK")
        if not good:
            probs.append(f"{text!r}: {out.kind} {out.value!r}")
    ctx.chk.exhaustive_rules.add("C20.bcd.text-grammar")
    ctx.chk.decide(not probs, "C20.bcd.text-grammar", nf.qual, f"a component is accepted exactly when it is 1-4 decimal digits, everything else is rejected with an SPSDK error ({len(texts)} texts)",
                   "; ".join(probs[:4]), "1-4 decimal digits", A.loc(SBMISC, nf.node))
    fs = ctx.own(SBMISC, "BcdVersion3", "from_str")
    # from_str evaluated on texts with 1..4 components: exactly three are accepted, and component i (converted by _num_from_str)
    # becomes constructor argument i
    def cv_fs(c: ast.Call, ev):
        f = norm(c.func)
        if f in ("BcdVersion3._num_from_str", "cls._num_from_str") and len(c.args) == 1:
            return ("NUM", ev.ev(c.args[0]))
        if f in ("BcdVersion3", "cls") and all(k.arg for k in c.keywords):
            # positional or keyword arguments: bound to the constructor's own parameter order
            pn = ctx.own(SBMISC, "BcdVersion3", "__init__").params()[1:]
            bound = {pn[i]: ev.ev(a) for i, a in enumerate(c.args) if i < len(pn)}
            bound.update({k.arg: ev.ev(k.value) for k in c.keywords})
            if len(c.args) > len(pn) or set(bound) - set(pn):
                return ordereval.NOT_MODELLED
            return ("BCD",) + tuple(bound.get(n_) for n_ in pn if n_ in bound)
        return ordereval.NOT_MODELLED
    probs = []
    for text in ("7", "1.2", "1.2.3", "a.b.c.d", "10.0.99"):
        try:
            out = ordereval.Evaluator({"text": text}, None, opaque_return=False, call_value=cv_fs).run(A.body_of(fs.node))
        except ordereval.Unsupported as ex:
            raise AnalysisError(f"C20.bcd.from_str: left the fragment: {ex}")
        parts = text.split(".")
        want_o = ("return", ("BCD",) + tuple(("NUM", p_) for p_ in parts)) if len(parts) == 3 else ("raise", None)
        if (out.kind, out.value if out.kind == "return" else None) != want_o:
            probs.append(f"{text!r}: {out.kind} {out.value!r}")
    ctx.chk.decide(not probs, "C20.bcd.component-order", fs.qual, "from_str accepts exactly three dot separated components and routes component i to (major, minor, service)[i]", "; ".join(probs[:2]), "", A.loc(SBMISC, fs.node))
    init = ctx.own(SBMISC, "BcdVersion3", "__init__")
    stores = {norm(n.targets[0]): norm(n.value) for n in A.walk_no_nested(init.node) if isinstance(n, ast.Assign)}
    ctx.chk.decide(all(stores.get(f"self.{k}") == k for k in ("major", "minor", "service")), "C20.bcd.init-routing", init.qual,
                   "constructor stores each component under its own name", f"{stores}", "self.major=major, ...", A.loc(SBMISC, init.node))
    # SecBootBlckSize
    c = ctx.cls(SBMISC, "SecBootBlckSize")
    bs = prog.fold(c.consts.get("BLOCK_SIZE"), c.module, c)
    ctx.chk.decide(bs == 16, "C20.blck.size", c.qual, "BLOCK_SIZE folds to the AES block size 16", f"BLOCK_SIZE = {bs}", "16", A.loc(SBMISC, c.node))
    ia = ctx.own(SBMISC, "SecBootBlckSize", "is_aligned")
    tn = ctx.own(SBMISC, "SecBootBlckSize", "to_num_blocks")
    consts = {"SecBootBlckSize.BLOCK_SIZE": bs}

    def symf(env):
        def s(x):
            if norm(x) == "SecBootBlckSize.BLOCK_SIZE":
                return bs
            if isinstance(x, ast.Call) and A.call_name(x) == "is_aligned":
                return env["size"] % bs == 0
            return None
        return s
    guard_decide(ctx, "C20.blck.is_aligned", ia, ["size"], lambda e: ("return", e["size"] % 16 == 0), values={"size": list(range(0, 50))}, sym_factory=symf)
    guard_decide(ctx, "C20.blck.to_num_blocks", tn, ["size"], lambda e: ("raise", None) if e["size"] % 16 else ("return", e["size"] // 16),
                 values={"size": list(range(0, 50))}, sym_factory=symf)
    al = ctx.own(SBMISC, "SecBootBlckSize", "align")
    r = A.returns_in(al.node)
    ok = len(r) == 1 and isinstance(r[0].value, ast.Call) and A.call_name(r[0].value) == "align" and [norm(a) for a in r[0].value.args] == ["size", "SecBootBlckSize.BLOCK_SIZE"]
    ctx.chk.decide(ok, "C20.blck.align", al.qual, "delegates to misc.align(size, BLOCK_SIZE)", norm(r[0]) if r else "", "misc.align(size, SecBootBlckSize.BLOCK_SIZE)", A.loc(SBMISC, al.node))


def rule_enum(ctx) -> None:
    c = ctx.cls(ENUM, "SpsdkEnum")
    ft = ctx.own(ENUM, "SpsdkEnum", "from_tag")
    fl = ctx.own(ENUM, "SpsdkEnum", "from_label")
    for fn, attr, param in ((ft, "tag", "tag"), (fl, "label", "label")):
        loops = [n for n in A.walk_no_nested(fn.node) if isinstance(n, ast.For)]
        ok = False
        detail = ""
        for lp in loops:
            for iff in [n for n in ast.walk(lp) if isinstance(n, ast.If)]:
                t = iff.test
                if isinstance(t, ast.Compare) and len(t.ops) == 1 and isinstance(t.ops[0], ast.Eq):
                    l, r = norm(t.left), norm(t.comparators[0])
                    detail = f"{l} == {r}"
                    item = lp.target.id if isinstance(lp.target, ast.Name) else "?"
                    # both sides must undergo the same normalisation
                    ln = l.replace(f"{item}.{attr}", "@").replace(param, "@")
                    rn = r.replace(f"{item}.{attr}", "@").replace(param, "@")
                    sides = {l.split(".")[0], r.split(".")[0]}
                    rets = [x for x in iff.body if isinstance(x, ast.Return)]
                    if ln == rn and f"{item}.{attr}" in (l + r) and param in (l + r).replace(f"{item}.{attr}", "") and rets and norm(rets[0].value) == item:
                        ok = True
        ends_raise = isinstance(A.body_of(fn.node)[-1], ast.Raise) and "SPSDKKeyError" in norm(A.body_of(fn.node)[-1])
        ctx.chk.decide(ok and ends_raise, f"C20.enum.from_{attr}", fn.qual,
                       f"returns the member whose {attr} equals the argument under the same normalisation on both sides ({detail}); otherwise raises SPSDKKeyError",
                       f"comparison `{detail}`, ends_with_raise={ends_raise}", f"item.{attr} <norm> == {param} <same norm>; return item; raise SPSDKKeyError", A.loc(ENUM, fn.node))
    eq = ctx.own(ENUM, "SpsdkEnum", "__eq__")
    r = A.returns_in(eq.node)
    txt = norm(r[0].value) if r else ""
    ctx.chk.decide("self.tag ==" in txt and "self.label ==" in txt and " or " in txt, "C20.enum.eq", eq.qual, f"__eq__ is `{txt}`", txt, "tag or label equality", A.loc(ENUM, eq.node))


def rule_load_hex_string(ctx) -> None:
    fn = ctx.func(MISC, "load_hex_string")
    body = A.body_of(fn.node)
    # the last return is `return key` and is dominated by a raising size check `len(key) != expected_size`
    last = body[-1]
    ok = isinstance(last, ast.Return) and norm(last.value) == "key"
    guard = None
    for st in body[:-1]:
        if isinstance(st, ast.If) and A.always_raises(st.body) and not st.orelse:
            t = norm(st.test)
            if t in ("len(key) != expected_size", "expected_size != len(key)"):
                guard = st
    ctx.chk.decide(ok and guard is not None, "C20.load_hex_string.size", fn.qual, "final `return key` is dominated by `if len(key) != expected_size: raise`",
                   "size check before the final return not found", "if len(key) != expected_size: raise SPSDKError", A.loc(MISC, last))
    # the two direct conversions pass expected_size as byte_cnt
    for c in A.calls_in(fn.node, "value_to_bytes"):
        b = A.arg_of(c, 2, "byte_cnt")
        ctx.chk.decide(b is not None and norm(b) == "expected_size", "C20.load_hex_string.byte_cnt", f"{fn.qual} {norm(c.args[0])}", f"{norm(c)} converts to expected_size bytes",
                       norm(c), "byte_cnt=expected_size", A.loc(MISC, c))
    rb = A.calls_in(fn.node, "random_bytes")
    ctx.chk.decide(len(rb) == 1 and norm(rb[0].args[0]) == "expected_size", "C20.load_hex_string.random-size", fn.qual, "random filler has expected_size bytes",
                   norm(rb[0]) if rb else "no random_bytes", "random_bytes(expected_size)", A.loc(MISC, fn.node))


def rule_change_endianness(ctx) -> None:
    fn = ctx.func(MISC, "change_endianness")
    # evaluated on byte strings of length 0..9 (reverse_bytes_in_longs is stepped into): length 1 unchanged, 2 swapped, 3 rejected,
    # a multiple of 4 reversed per long, anything else rejected
    cases = {}
    for L in range(0, 10):
        data = bytes(range(0x41, 0x41 + L))
        try:
            out = ordereval.Evaluator({"bin_data": data}, ctx.fold_sym(fn), opaque_return=False, call_value=ctx.model_calls(module=MISC)).run(A.body_of(fn.node))
        except ordereval.Unsupported as ex:
            raise AnalysisError(f"C20.change_endianness: left the fragment: {ex}")
        if out.kind == "raise":
            cases[L] = "raise"
        elif out.kind == "return" and isinstance(out.value, (bytes, bytearray)):
            v = bytes(out.value)
            cases[L] = "same" if v == data and L < 2 else "reverse" if v == data[::-1] and L == 2 else "longs" if v == b"".join(data[i:i + 4][::-1] for i in range(0, L, 4)) and L % 4 == 0 else f"other {v.hex()}"
        else:
            cases[L] = out.kind
    want_c = {0: "same", 1: "same", 2: "reverse", 3: "raise", 4: "longs", 5: "raise", 6: "raise", 7: "raise", 8: "longs", 9: "raise"}
    ctx.chk.decide(cases == want_c, "C20.change_endianness.dispatch", fn.qual, f"length dispatch {cases}", f"length dispatch {cases}", f"{want_c}", A.loc(MISC, fn.node))
    ctx.chk.decide(bool(A.calls_in(fn.node, "reverse_bytes_in_longs")), "C20.change_endianness.longs", fn.qual, "longer inputs go through reverse_bytes_in_longs", "reverse_bytes_in_longs not used", "", A.loc(MISC, fn.node))


INTEGER_HELPERS = [(MISC, "align"), (MISC, "align_block"), (MISC, "extend_block"), (MISC, "check_range"), (MISC, "swap16"), (MISC, "swap32"),
                   (MISC, "value_to_int"), (MISC, "value_to_bytes"), (MISC, "split_data"), (MISC, "reverse_bytes_in_longs"), (MISC, "reverse_bits"),
                   (SBMISC, "SecBootBlckSize.is_aligned"), (SBMISC, "SecBootBlckSize.align"), (SBMISC, "SecBootBlckSize.to_num_blocks"),
                   (SBMISC, "BcdVersion3._check_number"), (SBMISC, "BcdVersion3._num_from_str")]


def rule_integer_arith(ctx) -> None:
    """Helpers whose contract ranges over unbounded integers must not go through floats."""
    for rp, name in INTEGER_HELPERS:
        fn = ctx.func(rp, name)
        fl = float_arith(fn.node)
        ctx.chk.decide(not fl, "C20.integer-arithmetic", fn.qual, "exact integer arithmetic only",
                       f"float arithmetic: {norm(fl[0]) if fl else ''} (inexact beyond 2**53)", "integer operators only", A.loc(rp, fl[0]) if fl else "")


def rule_value_to_int_model(ctx) -> None:
    """C20.value_to_int.model: value_to_int interpreted as a whole function (helpers of the module stepped into; `re.match` and `int`
    are leaves with their documented behaviour) on EVERY string over the alphabet {0 1 _ x b u l} up to length 4 and a list of longer
    texts.  Reference: strip + lower case, the documented envelope (0[box])? digits [ul]{0,3} (its equality with the code's pattern is
    the automata rule C20.value_to_int), value = int(digits, base) where Python accepts the digit string - so a text Python's own
    integer grammar refuses (misplaced underscore, digit outside the base) is refused, never repaired."""
    import itertools
    import re as _re
    fn = ctx.func(MISC, "value_to_int")
    env_re = _re.compile(r"(?P<prefix>0[box])?(?P<number>[0-9a-f_]+)(?P<suffix>[ul]{0,3})$")

    def ref(text: str):
        m = env_re.match(text.strip().lower()) if text != "" else None
        if not m:
            return "raise"
        try:
            return int(m.group("number"), {"0b": 2, "0o": 8, "0x": 16, None: 10}[m.group("prefix")])
        except ValueError:
            return "raise"

    def leaves(c: ast.Call, ev):
        f = norm(c.func)
        if f in ("re.match", "re.fullmatch", "re.search") and len(c.args) == 2 and not c.keywords:
            pat, subj = ev.ev(c.args[0]), ev.ev(c.args[1])
            if isinstance(pat, str) and isinstance(subj, str):
                m = getattr(_re, f.split(".")[1])(pat, subj)
                return ordereval.Obj(_match=m) if m else None
        if isinstance(c.func, ast.Attribute) and c.func.attr in ("group", "groupdict", "groups") and not c.keywords:
            try:
                o = ev.ev(c.func.value)
            except ordereval.Unsupported:
                return ordereval.NOT_MODELLED
            if isinstance(o, ordereval.Obj) and "_match" in o.__dict__:
                r = getattr(o.__dict__["_match"], c.func.attr)(*[ev.ev(a) for a in c.args])
                return tuple(r) if isinstance(r, list) else r
        if f == "int" and 1 <= len(c.args) + len(c.keywords) <= 2 and all(k.arg == "base" for k in c.keywords):
            a0 = ev.ev(c.args[0])
            b = ev.ev(c.args[1]) if len(c.args) > 1 else (ev.ev(c.keywords[0].value) if c.keywords else None)
            if isinstance(a0, str) and (b is None or isinstance(b, int)):
                try:
                    return int(a0, b) if b is not None else int(a0)
                except ValueError:
                    raise ordereval.ModelRaise(ordereval.Outcome("raise", "ValueError", c))
        return ordereval.NOT_MODELLED
    sym_map = {"Endianness.LITTLE": ordereval.Obj(value="little"), "Endianness.BIG": ordereval.Obj(value="big")}
    calls = ctx.model_calls(leaves, sym_map, module=MISC)
    texts = ["".join(t) for k in range(1, 5) for t in itertools.product("01_xbul", repeat=k)]
    texts += ["", "0xff_ff", "0b111_1", "0XFF", " 12\n", "0o17", "0o18", "1__0", "0x_1", "0x1_ul", "0x12_", "_12", "ulu", "08", "0b2", "9", "a", "0xg", "12ul", "0x7fffffffull", "1lll", "1llll",
              "-1", "+1", "1 2", "0x", "0b", "0o", "0xabcdef", "ABCDEF", "0b0b1", "123456789012345678901234567890"]
    bad = []
    for t in texts:
        try:
            out = ordereval.Evaluator({"value": t, "default": None}, ctx.fold_sym(fn, sym_map), opaque_return=False, call_value=calls).run(A.body_of(fn.node))
        except ordereval.Unsupported as ex:
            raise AnalysisError(f"C20.value_to_int.model: {fn.qual} left the fragment on {t!r}: {ex}")
        got = "raise" if out.kind == "raise" else out.value
        if got != ref(t):
            bad.append(f"value_to_int({t!r}) = {got!r}, the documented grammar gives {ref(t)!r}")
    ctx.chk.analysed(fn.qual)
    ctx.chk.exhaustive_rules.add("C20.value_to_int.model")
    ctx.chk.decide(not bad, "C20.value_to_int.model", fn.qual, f"agrees with the documented number grammar on every text over {{0,1,_,x,b,u,l}} up to length 4 and {len(texts) - 2800} longer texts ({len(texts)} texts)",
                   "; ".join(bad[:3])[:500], "", A.loc(MISC, fn.node))


def run(ctx) -> None:
    ctx.chk.explain("C20: order-type decision of comparison-only guards (check_range, align, extend_block, swap16/32, BCD, block-size helpers), "
                    "regex language equality for value_to_int (automata product), bit provenance for swap16, length algebra for the append-only padding helpers, "
                    "structural agreement of stride/window/modulus constants.")
    ctx.rule(rule_integer_arith)
    ctx.rule(rule_check_range)
    ctx.rule(rule_align)
    ctx.rule(rule_align_block)
    ctx.rule(rule_swaps)
    ctx.rule(rule_value_to_int)
    ctx.rule(rule_value_to_int_model)
    ctx.rule(rule_strides)
    ctx.rule(rule_bytes_cnt)
    ctx.rule(rule_bcd)
    ctx.rule(rule_enum)
    ctx.rule(rule_load_hex_string)
    ctx.rule(rule_change_endianness)
    ctx.chk.floor("C20.check_range", 1)
    ctx.chk.floor("C20.value_to_int.regex", 1)
    ctx.chk.assumptions = ["Python int/struct/re semantics as documented", "not decided: value-level conversions outside the modelled domains"]


MANIFEST = {
    "level": "Static decision of the helpers' structural contracts for all inputs: guards of check_range/align/extend_block/swap16/swap32/BCD/block-size helpers are decided "
             "exhaustively on order types (complete for comparison-only predicates), value_to_int's accepted language is proved equal to the documented grammar by automata "
             "product, swap16 is a proved bit permutation, padding helpers are proved append-only with the reference length on a residue-complete grid. Value-level "
             "behaviour (int() semantics, width tables) is not decided.",
    "note": "Trusted: CPython ast/re parser/struct/int semantics; the tiny evaluators in sa/engines (ordereval, bitprov, regexlang). Not decided: "
            "enum uniqueness beyond the frozen wire-tag list.",
    "technique": "static analysis: AST abstract interpretation (order types, bit provenance), regex automata equivalence, structural rules, finite-model evaluation of byte helpers and BCD parsing (same-module functions stepped into), helper following, reverse_bits and swap_bytes on exhaustive small models, BCD text grammar model, value_to_int interpreted on an exhaustive small-alphabet text set against the documented grammar",
}
