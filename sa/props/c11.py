"""C11 Registers and bit-fields behave as independent bit-vectors (E5 functional evaluation, E4 symmetry, E7 purity, E10 config keys)."""
from __future__ import annotations

import ast
from typing import Any, Dict, List, Optional, Set, Tuple

from ..core import astutil as A
from ..core.loader import AnalysisError
from ..core.report import norm
from ..core.symtab import ClassInfo, FuncInfo
from ..engines import ordereval
from ..engines.ordereval import Obj

REG = "spsdk/utils/registers.py"


class _Raise(Exception):
    pass


# ----------------------------------------------------------------------------- bit-field RMW
def rule_bitfield(ctx) -> None:
    chk = ctx.chk
    setv = ctx.own(REG, "RegsBitField", "set_value")
    getv = ctx.own(REG, "RegsBitField", "get_value")
    sbody, gbody = A.body_of(setv.node), A.body_of(getv.node)
    cex = None
    n = 0
    for w in (1, 2, 3):
        for off in (0, 2):
            for shift in (0, 1):
                for raw in (False, True):
                    for no_pre in (False, True):
                        for R in (0, (1 << 8) - 1, 0b10100101):
                            for v in range(-2, (1 << w) * (1 << shift) + 3):
                                rec: Dict[str, Any] = {}
                                holder: Dict[str, Any] = {}

                                def sym(x: ast.expr, R=R, shift=shift):
                                    if isinstance(x, ast.Call):
                                        f = norm(x.func)
                                        ev = holder["ev"]
                                        if f == "value_to_int":
                                            return ev.ev(x.args[0])
                                        if f == "self.config_processor.pre_process":
                                            return ev.ev(x.args[0]) >> shift
                                        if f == "self.config_processor.post_process":
                                            return ev.ev(x.args[0]) << shift
                                        if f == "self.parent.get_value":
                                            a = A.arg_of(x, 0, "raw")
                                            rec["read_raw"] = ev.ev(a) if a is not None else False
                                            return R
                                    return None

                                def hook(c: ast.Call, ev) -> bool:
                                    if norm(c.func) == "self.parent.set_value":
                                        rec["written"] = ev.ev(c.args[0])
                                        a = A.arg_of(c, 1, "raw")
                                        rec["write_raw"] = ev.ev(a) if a is not None else False
                                        return True
                                    return False
                                me = Obj(width=w, offset=off, config_width=w + shift, reset_value=0, name="F")
                                ev = ordereval.Evaluator({"self": me, "new_val": v, "raw": raw, "no_preprocess": no_pre}, sym, opaque_return=False, call_hook=hook)
                                holder["ev"] = ev
                                try:
                                    out = ev.run(sbody)
                                except ordereval.Unsupported as e:
                                    raise AnalysisError(f"C11.bitfield-rmw: set_value left the fragment: {e}")
                                n += 1
                                p = v if no_pre else v >> shift
                                mask = ((1 << w) - 1) << off
                                if p < 0 or p >= (1 << w):
                                    want: Any = "raise"
                                    got: Any = out.kind
                                else:
                                    want = ("fall", (R & ~mask) | (p << off), raw, raw)
                                    got = (out.kind, rec.get("written"), rec.get("read_raw"), rec.get("write_raw"))
                                if got != want and cex is None:
                                    cex = (dict(width=w, offset=off, preprocess_shift=shift, raw=raw, no_preprocess=no_pre, reg=bin(R), value=v), got, want)
    chk.exhaustive_rules.add("C11.bitfield-rmw")
    chk.decide(cex is None, "C11.bitfield-rmw", setv.qual,
               f"set_value rejects exactly the (pre-processed) values outside 0..2**width-1 and otherwise writes (reg & ~mask) | (value << offset) with the same raw flag for read and write ({n} cases: all order types around the bounds, neighbours set/clear)",
               f"{cex[0]}: got {cex[1]}" if cex else "", f"{cex[2]}" if cex else "", A.loc(REG, setv.node))
    # get_value returns post_process((reg >> offset) & mask)
    cex = None
    n = 0
    for w in (1, 2, 3):
        for off in (0, 2, 5):
            for shift in (0, 1):
                for R in range(0, 256, 7):
                    holder = {}

                    def sym2(x: ast.expr, R=R, shift=shift):
                        if isinstance(x, ast.Call):
                            f = norm(x.func)
                            if f == "self.parent.get_value":
                                a = A.arg_of(x, 0, "raw")
                                holder["raw"] = holder["ev"].ev(a) if a is not None else False
                                return R
                            if f == "self.config_processor.post_process":
                                return holder["ev"].ev(x.args[0]) << shift
                        return None
                    ev = ordereval.Evaluator({"self": Obj(width=w, offset=off, config_width=w + shift, reset_value=0, name="F")}, sym2, opaque_return=False)
                    holder["ev"] = ev
                    try:
                        out = ev.run(gbody)
                    except ordereval.Unsupported as e:
                        raise AnalysisError(f"C11.bitfield-get: get_value left the fragment: {e}")
                    n += 1
                    want = ((R >> off) & ((1 << w) - 1)) << shift
                    if (out.kind != "return" or out.value != want or holder.get("raw") is not False) and cex is None:
                        cex = (w, off, shift, R, out.value, want, holder.get("raw"))
    chk.decide(cex is None, "C11.bitfield-get", getv.qual, f"get_value = post_process((register >> offset) & (2**width - 1)) read in processed (non-raw) form ({n} cases)",
               f"width={cex[0]} offset={cex[1]} shift={cex[2]} reg={cex[3]:#x}: {cex[4]} (raw={cex[6]})" if cex else "", f"{cex[5]}" if cex else "", A.loc(REG, getv.node))
    # pre/post processing are inverse shifts by the same count
    pre = ctx.own(REG, "ShiftRightConfigProcessor", "pre_process")
    post = ctx.own(REG, "ShiftRightConfigProcessor", "post_process")
    wu = ctx.own(REG, "ShiftRightConfigProcessor", "width_update")
    got = (norm(A.returns_in(pre.node)[0].value), norm(A.returns_in(post.node)[0].value), norm(A.returns_in(wu.node)[0].value))
    chk.decide(got == ("value >> self.count", "value << self.count", "value + self.count"), "C11.config-processor", f"{REG}::ShiftRightConfigProcessor", "pre >> count, post << count, width + count", f"{got}", "", A.loc(REG, pre.node))
    base = ctx.cls(REG, "ConfigProcessor")
    for m in ("pre_process", "post_process", "width_update"):
        f = base.method(m)
        r = A.returns_in(f.node) if f else []
        chk.decide(bool(r) and norm(r[0].value) == "value", "C11.config-processor", f"{REG}::ConfigProcessor.{m}", "default processor is the identity", norm(r[0]) if r else "", "return value", A.loc(REG, base.node))


def rule_enum_lookup(ctx) -> None:
    chk = ctx.chk
    fn = ctx.own(REG, "RegsBitField", "get_enum_constant")
    body = A.body_of(fn.node)
    enums = (Obj(name="1", v=0), Obj(name="A", v=5), Obj(name="0x2", v=7))
    cex = None
    cases = [("A", 5), ("1", 0), (1, "raise"), (0, "raise"), (5, "raise"), ("B", "raise"), ("0x2", 7), (2, "raise")]
    for arg, want in cases:
        holder: Dict[str, Any] = {}

        def sym(x: ast.expr):
            if isinstance(x, ast.Call) and isinstance(x.func, ast.Attribute) and x.func.attr == "get_value_int":
                o = holder["ev"].ev(x.func.value)
                return o.v
            return None
        ev = ordereval.Evaluator({"self": Obj(_enums=enums), "enum_name": arg}, sym, opaque_return=False)
        holder["ev"] = ev
        try:
            out = ev.run(body)
        except ordereval.Unsupported as e:
            raise AnalysisError(f"C11.enum-lookup: left the fragment: {e}")
        got = out.value if out.kind == "return" else out.kind
        if got != want and cex is None:
            cex = (arg, got, want)
    chk.decide(cex is None, "C11.enum-lookup", fn.qual, "an enum is found only by its exact name; integers are never captured by numeric-looking names",
               f"get_enum_constant({cex[0]!r}) -> {cex[1]}" if cex else "", f"{cex[2]}" if cex else "", A.loc(REG, fn.node))
    # set_enum_value: RAW: prefix bypasses pre-processing and writes raw; otherwise value_to_int
    fn = ctx.own(REG, "RegsBitField", "set_enum_value")
    calls = [c for c in A.calls_in(fn.node, "set_value")]
    ok = len(calls) == 1 and [norm(a) for a in calls[0].args] == ["val_int", "raw", "no_preprocess"]
    chk.decide(ok, "C11.enum-lookup", fn.qual, "resolved value is written with the caller's raw flag and the RAW: no-preprocess flag", norm(calls[0]) if calls else "", "self.set_value(val_int, raw, no_preprocess)", A.loc(REG, fn.node))
    gev = ctx.own(REG, "RegsBitField", "get_enum_value")
    ok = any(isinstance(n, ast.If) and norm(n.test) in ("enum.get_value_int() == value", "value == enum.get_value_int()") and any(isinstance(s, ast.Return) and norm(s.value) == "enum.name" for s in n.body) for n in ast.walk(gev.node))
    chk.decide(ok, "C11.enum-lookup", gev.qual, "reverse lookup returns the name of the enum with the field's value", "", "", A.loc(REG, gev.node))


# ------------------------------------------------------------------------------- register
def rule_register(ctx) -> None:
    chk = ctx.chk
    setv = ctx.own(REG, "Register", "set_value")
    getv = ctx.own(REG, "Register", "get_value")
    sbody, gbody = A.body_of(setv.node), A.body_of(getv.node)

    E_BIG, E_LITTLE = Obj(value="big"), Obj(value="little")

    def shared_leaf(x: ast.expr, ev):
        """Endianness members and value_to_bytes with its documented contract (minimal byte count, counts above 2 rounded up to a multiple
        of 4 when align_to_2n, an error when the count exceeds byte_cnt, byte_cnt bytes otherwise)."""
        t = norm(x)
        if t == "Endianness.BIG":
            return E_BIG
        if t == "Endianness.LITTLE":
            return E_LITTLE
        if isinstance(x, ast.Call) and norm(x.func) == "value_to_bytes":
            v = ev.ev(A.arg_of(x, 0, "value"))
            a2 = A.arg_of(x, 1, "align_to_2n")
            bc = A.arg_of(x, 2, "byte_cnt")
            en = A.arg_of(x, 3, "endianness")
            align = ev.ev(a2) if a2 is not None else True
            byte_cnt = ev.ev(bc) if bc is not None else None
            order = ev.ev(en) if en is not None else E_BIG
            if not isinstance(v, int) or v < 0 or order not in (E_BIG, E_LITTLE):
                raise ordereval.Unsupported(x, "value_to_bytes outside the modelled domain")
            cnt = max(1, (v.bit_length() + 7) // 8)
            if align and cnt > 2:
                cnt = -(-cnt // 4) * 4
            if byte_cnt and cnt > byte_cnt:
                raise ordereval.ModelRaise(ordereval.Outcome("raise", None, x))
            return v.to_bytes(byte_cnt or cnt, order.value)
        return None

    def run_set(me: Obj, val: int, raw: bool):
        holder: Dict[str, Any] = {}

        def sym(x: ast.expr):
            r_ = shared_leaf(x, holder["ev"]) if "ev" in holder else None
            if r_ is not None:
                return r_
            if isinstance(x, ast.Call):
                f = norm(x.func)
                if f == "value_to_int":
                    return holder["ev"].ev(x.args[0])
                if f == "self.get_alt_width":
                    return me.width
                if f == "self.has_group_registers":
                    return len(me.sub_regs) > 0
                if f == "str":
                    return "s"
            if isinstance(x, ast.JoinedStr):
                return "s"
            return None

        def hook(c: ast.Call, ev) -> bool:
            if isinstance(c.func, ast.Attribute) and c.func.attr == "set_value":
                o = ev.ev(c.func.value)
                if isinstance(o, Obj):
                    o.__dict__["_value"] = ev.ev(c.args[0])
                    a = A.arg_of(c, 1, "raw")
                    o.__dict__["raw_seen"] = ev.ev(a) if a is not None else False
                    return True
            return False
        ev = ordereval.Evaluator({"self": me, "val": val, "raw": raw}, sym, opaque_return=False, call_hook=hook)
        holder["ev"] = ev
        out = ev.run(sbody)
        if "self._value" in ev.env:
            me.__dict__["_value"] = ev.env["self._value"]
        return out

    def run_get(me: Obj, raw: bool):
        holder: Dict[str, Any] = {}

        def sym(x: ast.expr):
            r_ = shared_leaf(x, holder["ev"]) if "ev" in holder else None
            if r_ is not None:
                return r_
            if isinstance(x, ast.Call):
                f = norm(x.func)
                if f == "self.get_alt_width":
                    return me.width
                if f == "self.has_group_registers":
                    return len(me.sub_regs) > 0
                if isinstance(x.func, ast.Attribute) and x.func.attr == "get_value":
                    o = holder["ev"].ev(x.func.value)
                    if isinstance(o, Obj):
                        return o._value
            return None
        ev = ordereval.Evaluator({"self": me, "raw": raw}, sym, opaque_return=False)
        holder["ev"] = ev
        return ev.run(gbody)

    # plain register: guard and storage
    cex = None
    n = 0
    try:
        for w in (1, 3, 8):
            for v in (-2, -1, 0, 1, (1 << w) - 1, 1 << w, (1 << w) + 1):
                for raw in (False, True):
                    me = Obj(width=w, reverse=False, sub_regs=(), reverse_subregs_order=False, _value=0)
                    out = run_set(me, v, raw)
                    n += 1
                    want = "raise" if (v < 0 or v >= (1 << w)) else ("fall", v)
                    got = out.kind if out.kind == "raise" else (out.kind, me._value)
                    if got != want and cex is None:
                        cex = (w, v, raw, got, want)
    except ordereval.Unsupported as e:
        raise AnalysisError(f"C11.register-set: left the fragment: {e}")
    chk.exhaustive_rules.add("C11.register-guard")
    chk.decide(cex is None, "C11.register-guard", setv.qual, f"rejects exactly values outside 0..2**width-1, stores the others unchanged ({n} boundary cases)",
               f"width={cex[0]} value={cex[1]} raw={cex[2]}: {cex[3]}" if cex else "", f"{cex[4]}" if cex else "", A.loc(REG, setv.node))
    # grouped registers: set distributes, get recombines, both orders
    cex = None
    n = 0
    try:
        for sw, cnt in ((2, 2), (2, 3), (4, 2)):
            W = sw * cnt
            for rev_order in (False, True):
                for raw in (False, True):
                    for v in range(0, 1 << W, max(1, (1 << W) // 37)):
                        subs = tuple(Obj(width=sw, _value=0) for _ in range(cnt))
                        me = Obj(width=W, reverse=False, sub_regs=subs, reverse_subregs_order=rev_order, _value=0)
                        out = run_set(me, v, raw)
                        parts = [s._value for s in subs]
                        if rev_order:
                            exp = [(v >> (W - (i + 1) * sw)) & ((1 << sw) - 1) for i in range(cnt)]
                        else:
                            exp = [(v >> (i * sw)) & ((1 << sw) - 1) for i in range(cnt)]
                        g = run_get(me, raw)
                        n += 1
                        ok = out.kind == "fall" and parts == exp and g.kind == "return" and g.value == v and all(s.__dict__.get("raw_seen") == raw for s in subs)
                        if not ok and cex is None:
                            cex = (sw, cnt, rev_order, raw, v, parts, exp, g.value)
    except ordereval.Unsupported as e:
        raise AnalysisError(f"C11.register-group: left the fragment: {e}")
    chk.decide(cex is None, "C11.register-group", f"{REG}::Register.set_value/get_value", f"group write distributes the value over the sub-registers (normal and reversed order) and group read recombines the same value ({n} cases)",
               f"sub-width {cex[0]} x{cex[1]} reversed={cex[2]} raw={cex[3]} value={cex[4]:#x}: sub-registers {cex[5]}, read back {cex[7]}" if cex else "", f"sub-registers {cex[6]}, read back the value written" if cex else "", A.loc(REG, setv.node))
    # byte-reversed registers as a model: every value of every width (whole bytes, 1..5 and 8 bytes - widths that are not a multiple of
    # four bytes included) is accepted, stored byte-swapped, read back as written, and raw access shows the stored form
    cex = None
    n = 0
    try:
        for nb in (1, 2, 3, 4, 5, 8):
            W = 8 * nb
            for base in (E_LITTLE, E_BIG):
                for v in sorted(x_ for x_ in {0, 1, 0xFF, 0x100, 0xFFFF, 0x10000, (1 << (W - 8)), (1 << W) - 1, (0x0102030405060708 >> (64 - W))} if 0 <= x_ < (1 << W)):
                    me = Obj(width=W, reverse=True, sub_regs=(), reverse_subregs_order=False, _value=0, base_endianness=base)
                    out = run_set(me, v, False)
                    stored = me._value
                    g = run_get(me, False) if out.kind == "fall" else None
                    gr = run_get(me, True) if out.kind == "fall" else None
                    n += 1
                    want_stored = int.from_bytes(v.to_bytes(nb, "big"), "little")
                    ok = out.kind == "fall" and stored == want_stored and g.kind == "return" and g.value == v and gr.kind == "return" and gr.value == want_stored
                    if not ok and cex is None:
                        cex = (W, v, out.kind, stored, want_stored, getattr(g, "value", None))
    except ordereval.Unsupported as e:
        raise AnalysisError(f"C11.register-reverse-model: left the fragment: {e}")
    chk.decide(cex is None, "C11.register-reverse-model", f"{REG}::Register.set_value/get_value (reverse)", f"a byte-reversed register of any whole-byte width accepts every value that fits, stores it byte-swapped and reads it back ({n} cases)",
               f"width {cex[0]} value {cex[1]:#x}: set_value {cex[2]}s, stored {cex[3]:#x} (expected {cex[4]:#x}), read back {cex[5]!r}" if cex else "", "", A.loc(REG, setv.node))
    # byte reversal branches: opposite byte orders, same width, only in non-raw reversed mode
    for fn in (setv, getv):
        ifs = [n2 for n2 in A.walk_no_nested(fn.node) if isinstance(n2, ast.If) and norm(n2.test) == "not raw and self.reverse"]
        ok = False
        detail = ""
        if len(ifs) == 1:
            tb = [c for c in A.calls_in(ifs[0], "value_to_bytes")]
            fb = [c for c in A.calls_in(ifs[0], "from_bytes")]
            if len(tb) == 1 and len(fb) == 1:
                o1 = norm(A.arg_of(tb[0], 3, "endianness"))
                o2 = norm(fb[0].args[1])
                bc = norm(A.arg_of(tb[0], 2, "byte_cnt"))
                detail = f"to_bytes({o1}, {bc}) -> from_bytes({o2})"
                opposite = ("BIG" in o1 and "LITTLE" in o2 and "if" not in o2) or ("LITTLE" in o1 and "BIG" in o2 and "if" not in o2) or \
                    (o1 == "self.base_endianness" and o2.replace(" ", "") == "Endianness.BIG.valueifself.base_endianness==Endianness.LITTLEelseEndianness.LITTLE.value")
                ok = opposite and bc == "alt_width // 8"
        chk.decide(ok, "C11.register-reverse", fn.qual, f"reversed registers are byte-swapped over alt_width // 8 bytes: {detail}", detail or "reverse branch shape changed", "value_to_bytes in one byte order, from_bytes in the opposite one", A.loc(REG, fn.node))
    # get_bytes_value / export / parse agree on endianness, raw mode and window
    gb = ctx.own(REG, "Register", "get_bytes_value")
    c = [x for x in A.calls_in(gb.node, "value_to_bytes")]
    d = {k.arg: norm(k.value) for k in c[0].keywords} if c else {}
    chk.decide(d.get("endianness") == "self.base_endianness" and d.get("byte_cnt") == "self.get_alt_width(value) // 8" and norm(A.inline_locals(gb.node, c[0].args[0])) == "self.get_value(raw=raw)",
               "C11.export-parse", gb.qual, "bytes = value in base endianness over the register width", f"{d}", "", A.loc(REG, gb.node))
    ii = ctx.own(REG, "_RegistersBase", "image_info")
    bi = [x for x in A.calls_in(ii.node, "BinaryImage") if any(k.arg == "binary" for k in x.keywords)]
    kw = {k.arg: norm(k.value) for k in bi[0].keywords} if bi else {}
    pos = [norm(a) for a in bi[0].args] if bi else []
    chk.decide(kw.get("offset") == "reg.offset" and kw.get("binary") == "reg.get_bytes_value(raw=True)" and pos[:2] == ["reg.name", "reg.width // 8"], "C11.export-parse", ii.qual,
               "each register is exported raw at its offset with width // 8 bytes", f"{pos} {kw}", "", A.loc(REG, ii.node))
    ps = ctx.own(REG, "_RegistersBase", "parse")
    sl = [n2 for n2 in ast.walk(ps.node) if isinstance(n2, ast.Subscript) and isinstance(n2.slice, ast.Slice) and norm(n2.value) == "binary"]
    sv = [x for x in A.calls_in(ps.node, "set_value")]
    ok = bool(sl) and norm(sl[0].slice.lower) == "reg.offset" and norm(sl[0].slice.upper) == "reg.offset + reg.width // 8" and bool(sv) and \
        norm(A.inline_locals(ps.node, sv[0].args[0])) == "int.from_bytes(binary[reg.offset:reg.offset + reg.width // 8], self.base_endianness.value)" and \
        norm(A.arg_of(sv[0], 1, "raw")) == "True"
    chk.decide(ok, "C11.export-parse", ps.qual, "parse reads the same window [offset : offset + width // 8] in base endianness and stores raw",
               f"window [{norm(sl[0].slice.lower) if sl else ''} : {norm(sl[0].slice.upper) if sl else ''}], store {norm(sv[0]) if sv else ''}", "", A.loc(REG, ps.node))
    # writer and reader walk the same register set: the top-level registers (a group is exported as ONE block of its whole width in base
    # endianness, so it is read back as one block; walking the sub-registers instead swaps them whenever block order and base endianness differ)
    def top_level_loop(fn_):
        loops = [n2 for n2 in ast.walk(fn_.node) if isinstance(n2, ast.For) and isinstance(n2.target, ast.Name) and n2.target.id == "reg"]
        its = [norm(l.iter) for l in loops]
        skips = [n2 for l in loops for n2 in ast.walk(l) if isinstance(n2, ast.If) and "has_group_registers" in norm(n2.test) and any(isinstance(x, ast.Continue) for x in ast.walk(n2))]
        return its, bool(its) and all(t in ("self.get_registers()", "self._registers", "list(self._registers)") for t in its) and not skips
    its_w, ok_w = top_level_loop(ii)
    its_r, ok_r = top_level_loop(ps)
    chk.decide(ok_w and ok_r, "C11.export-parse", f"{ii.qual} / {ps.qual} register set", "export and parse both walk the top-level registers (groups as one block)",
               f"export walks {its_w}, parse walks {its_r}{'' if ok_r else ' (group registers skipped / sub-registers walked)'}", "for reg in self.get_registers()", A.loc(REG, ps.node))
    ex = ctx.own(REG, "_RegistersBase", "export")
    r = A.returns_in(ex.node)
    chk.decide(bool(r) and norm(r[0].value) == "self.image_info(size, pattern).export()", "C11.export-parse", ex.qual, "export is the export of image_info", norm(r[0]) if r else "", "", A.loc(REG, ex.node))


# --------------------------------------------------------------------------------- purity
MUTATORS = {"append", "extend", "insert", "sort", "clear", "remove", "pop", "update", "reverse", "add", "discard", "setdefault", "popitem"}
QUERIES = {
    "RegsBitField": ["get_value", "get_reset_value", "get_enum_value", "get_hex_value", "get_enum_constant", "get_enum_names", "has_enums", "get_enums", "_get_uid", "create_spec", "__str__", "__repr__"],
    "Register": ["get_value", "get_alt_width", "get_bytes_value", "get_hex_value", "get_reset_value", "get_bitfields", "get_bitfield_names", "get_bitfield", "find_bitfield",
                 "has_group_registers", "_get_uid", "create_spec", "__str__", "__repr__", "__eq__", "__hash__"],
    "_RegistersBase": ["get_registers", "get_reg_names", "find_reg", "get_reg", "__iter__", "__len__", "__eq__", "__str__", "image_info", "export", "get_config", "get_diff",
                       "get_base_offset", "get_validation_schema", "_get_bitfield_yaml_description"],
    "RegsEnum": ["get_value_int", "get_value_str", "create_spec", "__str__"],
}


def _self_root(e: ast.AST) -> Optional[str]:
    parts = []
    while isinstance(e, (ast.Attribute, ast.Subscript)):
        if isinstance(e, ast.Attribute):
            parts.append(e.attr)
        e = e.value
    if isinstance(e, ast.Name) and e.id == "self" and parts:
        return "self." + ".".join(reversed(parts))
    return None


def mutations(fn: FuncInfo) -> Tuple[List[Tuple[str, str, int]], Set[str]]:
    """(mutations of self state [(kind, attr, line)], self-method names called)."""
    node = fn.node
    alias: Dict[str, str] = {}  # local -> self attribute it may alias (no copy)
    for n in A.walk_no_nested(node):
        if isinstance(n, ast.Assign) and len(n.targets) == 1 and isinstance(n.targets[0], ast.Name):
            for cand in ([n.value.body, n.value.orelse] if isinstance(n.value, ast.IfExp) else [n.value]):
                r = _self_root(cand) if isinstance(cand, (ast.Attribute, ast.Subscript)) else None
                if r:
                    alias[n.targets[0].id] = r
    muts: List[Tuple[str, str, int]] = []
    calls: Set[str] = set()
    for n in A.walk_no_nested(node):
        if isinstance(n, (ast.Assign, ast.AnnAssign)):
            tgts = n.targets if isinstance(n, ast.Assign) else [n.target]
            for t in tgts:
                for x in (t.elts if isinstance(t, (ast.Tuple, ast.List)) else [t]):
                    r = _self_root(x)
                    if r and not (isinstance(n, ast.AnnAssign) and n.value is None):
                        muts.append(("store", r, n.lineno))
                    if isinstance(x, ast.Subscript) and isinstance(x.value, ast.Name) and x.value.id in alias:
                        muts.append(("store-through-alias", alias[x.value.id], n.lineno))
        if isinstance(n, ast.AugAssign):
            r = _self_root(n.target)
            if r:
                muts.append(("aug", r, n.lineno))
            if isinstance(n.target, ast.Name) and n.target.id in alias and isinstance(n.op, ast.Add):
                muts.append(("aug-through-alias", alias[n.target.id], n.lineno))
        if isinstance(n, ast.Delete):
            for t in n.targets:
                r = _self_root(t)
                if r:
                    muts.append(("del", r, n.lineno))
        if isinstance(n, ast.Call) and isinstance(n.func, ast.Attribute):
            if n.func.attr in MUTATORS:
                recv = n.func.value
                r = _self_root(recv)
                if r:
                    muts.append((f"call.{n.func.attr}", r, n.lineno))
                elif isinstance(recv, ast.Name) and recv.id in alias:
                    muts.append((f"call.{n.func.attr}-through-alias", alias[recv.id], n.lineno))
            if isinstance(n.func.value, ast.Name) and n.func.value.id == "self":
                calls.add(n.func.attr)
    return muts, calls


def rule_purity(ctx) -> None:
    chk = ctx.chk
    prog = ctx.prog
    n = 0
    for cname, queries in QUERIES.items():
        cls = ctx.cls(REG, cname)
        summ: Dict[str, Tuple[List, Set[str]]] = {}
        for mname, lst in cls.methods.items():
            for f in lst:
                if not f.is_setter:
                    summ[mname] = mutations(f)
        # transitive closure over self-calls
        def impure(m: str, seen: Set[str]) -> List[Tuple[str, str, int, str]]:
            if m in seen or m not in summ:
                return []
            seen.add(m)
            out = [(k, a, ln, m) for k, a, ln in summ[m][0]]
            for c in summ[m][1]:
                out += impure(c, seen)
            return out
        for q in queries:
            if q not in summ:
                continue
            n += 1
            bad = impure(q, set())
            chk.analysed(f"{REG}::{cname}.{q}")
            chk.decide(not bad, "C11.pure-queries", f"{REG}::{cname}.{q}", "read-only query does not modify the object (transitively through self-calls)",
                       f"{cname}.{q} mutates {bad[0][1]} ({bad[0][0]} in {bad[0][3]})" if bad else "", "no store / mutating call on self state or on a local aliasing it", f"{REG}:{bad[0][2]}" if bad else "")
    chk.floor("C11.pure-queries", 35)
    # positive example: the alias detector must recognise `regs = self._registers; regs.extend(...)`
    t = ast.parse("class K:\n    def q(self):\n        regs = self._registers\n        regs.extend([1])\n        self.w.sort()\n")
    from ..core.loader import ModuleInfo
    fake = type("F", (), {"node": t.body[0].body[0]})()
    m, _c = mutations(fake)  # type: ignore[arg-type]
    if len(m) != 2:
        raise AnalysisError("C11.pure-queries: embedded positive example no longer matches")


def rule_config(ctx) -> None:
    chk = ctx.chk
    gc = ctx.own(REG, "_RegistersBase", "get_config")
    ld = ctx.own(REG, "_RegistersBase", "_load_yml_config")
    # writer and reader evaluated on a model register file (registers and bit-fields are recorders): the configuration the writer
    # produces holds per register a hex string or {bit-field name: enum value}; loading that configuration looks every register up
    # by its key and replays exactly these values - bit-fields through set_enum_value(value, raw=True), registers through
    # set_value(value, raw=False) with the hex-string switch honoured
    from ..engines import ordereval as _oe
    MObj = _oe.Obj
    log = []

    def btf(name, enum, hidden=False, at_reset=False):
        return MObj(_btf=name, name=name, hidden=hidden, _enum=enum, _val=0 if at_reset else 5, _reset=0, width=4)

    def reg(name, hexv, fields=(), as_hex=False, hidden=False, at_reset=False):
        return MObj(_reg=name, name=name, _hex=hexv, _bitfields=tuple(fields), config_as_hexstring=as_hex, _val=0 if at_reset else 7, _reset=0, hidden=hidden)
    regs = (reg("R_PLAIN", "0x12"), reg("R_HEXSTR", "ab12", as_hex=True), reg("R_HIDDEN_AT_RESET", "0x0", hidden=True, at_reset=True), reg("R_VISIBLE_AT_RESET", "0x0", at_reset=True),
            reg("R_FIELDS", "0x0", [btf("A", "EN_A"), btf("B_HIDDEN_AT_RESET", "0x0", hidden=True, at_reset=True), btf("C", "0x3"), btf("D_HIDDEN_SET", "0x1", hidden=True)]),
            reg("R_HIDDEN_SET", "0x7", hidden=True))

    def cv(c: ast.Call, ev):
        f = norm(c.func)
        if f == "value_to_int" and c.args:
            v0 = ev.ev(c.args[0])
            return ("INT", v0)
        if f == "int" and len(c.args) == 2:
            return ("INT16", ev.ev(c.args[0]))
        if f == "self.find_reg" and c.args:
            nm = ev.ev(c.args[0])
            r0 = next((r for r in regs if r.__dict__["name"] == nm), None)
            if r0 is None:
                raise _oe.ModelRaise(_oe.Outcome("raise", "SPSDKRegsErrorRegisterNotFound", c))
            log.append(("find_reg", nm))
            return r0
        if isinstance(c.func, ast.Attribute):
            try:
                o = ev.ev(c.func.value)
            except _oe.Unsupported:
                o = None
            if isinstance(o, MObj) and "_reg" in o.__dict__:
                m_ = c.func.attr
                if m_ == "get_value":
                    return o.__dict__["_val"]
                if m_ == "get_reset_value":
                    return o.__dict__["_reset"]
                if m_ == "get_hex_value":
                    return o.__dict__["_hex"]
                if m_ == "get_bitfields":
                    return o.__dict__["_bitfields"]
                if m_ == "find_bitfield" and c.args:
                    nm = ev.ev(c.args[0])
                    return next(b_ for b_ in o.__dict__["_bitfields"] if b_.__dict__["name"] == nm)
                if m_ == "set_value":
                    log.append(("set_value", o.__dict__["name"], ev.ev(c.args[0]), ev.ev(A.arg_of(c, 1, "raw")) if A.arg_of(c, 1, "raw") is not None else False))
                    return None
            if isinstance(o, MObj) and "_btf" in o.__dict__:
                m_ = c.func.attr
                if m_ == "get_value":
                    return o.__dict__["_val"]
                if m_ == "get_reset_value":
                    return o.__dict__["_reset"]
                if m_ == "get_enum_value":
                    return o.__dict__["_enum"]
                if m_ == "set_enum_value":
                    log.append(("set_enum_value", o.__dict__["name"], ev.ev(c.args[0]), ev.ev(A.arg_of(c, 1, "raw")) if A.arg_of(c, 1, "raw") is not None else False))
                    return None
        return _oe.NOT_MODELLED
    me = MObj(_registers=regs)
    try:
        out = _oe.Evaluator({"self": me, "diff": False}, None, opaque_return=False, call_value=ctx.model_calls(cv)).run(A.body_of(gc.node))
    except _oe.Unsupported as ex:
        raise AnalysisError(f"C11.config-keys: get_config left the fragment: {ex}")
    cfg = out.value if out.kind == "return" else None
    want_cfg = {"R_PLAIN": "0x12", "R_HEXSTR": "ab12", "R_VISIBLE_AT_RESET": "0x0", "R_FIELDS": {"A": "EN_A", "C": "0x3", "D_HIDDEN_SET": "0x1"}, "R_HIDDEN_SET": "0x7"}
    chk.decide(cfg == want_cfg, "C11.config-keys", gc.qual, "configuration holds per register a hex string or {bit-field name: enum/hex value}; a hidden register or bit-field appears only when it differs from its reset value", f"{cfg}", f"{want_cfg}", A.loc(REG, gc.node))
    del log[:]
    try:
        out2 = _oe.Evaluator({"self": me, "yml_data": dict(want_cfg)}, None, opaque_return=False, call_value=ctx.model_calls(cv)).run(A.body_of(ld.node))
    except _oe.Unsupported as ex:
        raise AnalysisError(f"C11.config-keys: _load_yml_config left the fragment: {ex}")
    want_log = [("find_reg", "R_PLAIN"), ("set_value", "R_PLAIN", ("INT", "0x12"), False), ("find_reg", "R_HEXSTR"), ("set_value", "R_HEXSTR", ("INT16", "ab12"), False),
                ("find_reg", "R_VISIBLE_AT_RESET"), ("set_value", "R_VISIBLE_AT_RESET", ("INT", "0x0"), False), ("find_reg", "R_FIELDS"),
                ("set_enum_value", "A", "EN_A", True), ("set_enum_value", "C", "0x3", True), ("set_enum_value", "D_HIDDEN_SET", "0x1", True), ("set_value", "R_FIELDS", 7, False),
                ("find_reg", "R_HIDDEN_SET"), ("set_value", "R_HIDDEN_SET", ("INT", "0x7"), False)]
    chk.decide(out2.kind != "raise" and log == want_log, "C11.config-keys", ld.qual, "loader reads both forms: bit-field dictionaries through set_enum_value(value, raw=True) and scalars through set_value(value, raw=False), prefix-less hex strings with base 16",
               f"{out2.kind}: {log}"[:400], f"{want_log}"[:300], A.loc(REG, ld.node))
    chk.decide(log[:1] == [("find_reg", "R_PLAIN")], "C11.config-keys", ld.qual + " lookup", "register looked up by the configuration key", f"{log[:1]}", "", A.loc(REG, ld.node))
    # hex string form is parsed with base 16 exactly when it was written without 0x
    ghv = ctx.own(REG, "Register", "get_hex_value")
    iff = [n for n in ast.walk(ghv.node) if isinstance(n, ast.If) and norm(n.test) == "not self.config_as_hexstring"]
    rd = [n for n in ast.walk(ld.node) if isinstance(n, ast.IfExp) and "config_as_hexstring" in norm(n.test)]
    ok_h = bool(iff) and bool(rd) and all(norm(x.body).startswith("int(") and norm(x.body).endswith(", 16)") and norm(x.orelse).startswith("value_to_int(") for x in rd)
    chk.decide(ok_h, "C11.config-keys", f"{REG}::config_as_hexstring", "prefix-less hex strings are written and read under the same switch", "hex-string switch differs between writer and reader", "", A.loc(REG, ghv.node))


def rule_numeric_strings(ctx) -> None:
    """C11.value_to_int*: numeric strings given to set_value/load_yml_config are converted by value_to_int (rules shared with C20);
    C11.enum-constant: an enum constant keeps the value of the specification (an oversize constant must stay oversize so that writing it is refused)."""
    from . import c20
    ctx.borrow(c20.rule_value_to_int, "C20.value_to_int", "C11.value_to_int")
    chk = ctx.chk
    init = ctx.own(REG, "RegsEnum", "__init__")
    stores = [s for s in ast.walk(init.node) if isinstance(s, (ast.Assign, ast.AugAssign)) and norm(s.targets[0] if isinstance(s, ast.Assign) else s.target) == "self.value"]
    ok = len(stores) == 1 and isinstance(stores[0], ast.Assign) and norm(stores[0].value) == "value_to_int(value)"
    chk.decide(ok, "C11.enum-constant", init.qual, "self.value = value_to_int(value), stored once and not modified", "; ".join(norm(s) for s in stores), "", A.loc(REG, init.node))


def run(ctx) -> None:
    ctx.chk.explain("C11: RegsBitField.set_value/get_value and Register.set_value/get_value are evaluated by the guard evaluator as functions over small bit-vectors and object "
                    "graphs (widths 1-8, neighbours set and clear, pre-processing shift, raw flags, grouped registers in both orders) against the bit-vector reference; enum lookup "
                    "is evaluated on a name table; byte-reversal branches, export/parse windows and endianness are cross-checked; a may-mutate summary (stores, mutating calls, "
                    "aliases of self state, transitive self-calls) proves the read-only queries pure; config writer/reader forms agree.")
    ctx.rule(rule_bitfield)
    ctx.rule(rule_enum_lookup)
    ctx.rule(rule_register)
    ctx.rule(rule_purity)
    ctx.rule(rule_config)
    ctx.rule(rule_numeric_strings)
    # a register file is exported through a BinaryImage tree (one leaf per register, the file's pattern in the gaps): the export of that
    # tree - a short leaf is padded with ITS OWN zeros, not with the parent's pattern - is decided by C16's model of BinaryImage.export
    from . import c16 as _c16
    ctx.rule(lambda c: c.borrow(_c16.rule_export, "C16.export", "C11.image-export"))
    ctx.chk.assumptions = ["value_to_int/value_to_bytes as decided in C20", "alternative widths are modelled as the full width (alt-width behaviour is not decided)",
                           "not decided: arbitrary operation sequences (per-operation frame conditions are), config processors other than SHIFT_RIGHT"]


MANIFEST = {
    "level": "Static decision of the per-operation contracts that the sequence property needs: each write changes exactly its own bits and rejects exactly the non-fitting "
             "values; each read returns exactly those bits; group write/read are inverse; queries are pure. Decided by exhaustive evaluation of the methods' syntax "
             "trees over small widths (the code is width-uniform: only comparisons, shifts and masks of the width occur).",
    "note": "Trusted: the tiny evaluator (sa/engines/ordereval), Python int semantics. Not decided: alternative widths, reversed+grouped combinations with differing endianness.",
    "technique": "static analysis: abstract evaluation of method ASTs over small bit-vectors/object graphs, may-mutate (purity) summaries with aliasing, twin cross-checks, byte-reversed registers interpreted on the evaluator with value_to_bytes modelled from its contract, export/parse register-set twin",
}
