"""C05 Secure Binary 3.1 (hash chain shape, idempotent export, wire symmetry, registry, KDF layout, partition)."""
from __future__ import annotations

import ast
import struct
from typing import Any, Dict, List

from ..core import astutil as A
from ..core.devdb import DevDB
from ..core.loader import AnalysisError
from ..core.report import norm
from ..core.symtab import struct_items
from ..engines import idempotent, ordereval, wire
from ..engines.ordereval import Obj
from . import c03, c09

IMG = "spsdk/sbfile/sb31/images.py"
CMD = "spsdk/sbfile/sb31/commands.py"
CONST = "spsdk/sbfile/sb31/constants.py"

WIRE_PAIRS = [
    (IMG, "SecureBinary31Header", "export", "parse"),
    (CMD, "BaseCmd", "export", "header_parse"),
    (CMD, "CmdLoadBase", "export", "_extract_data"),
    (CMD, "CmdErase", "export", "parse"),
    (CMD, "CmdCopy", "export", "parse"),
    (CMD, "CmdLoadKeyBlob", "export", "parse"),
    (CMD, "CmdConfigureMemory", "export", "parse"),
    (CMD, "CmdFillMemory", "export", "parse"),
    (CMD, "CmdFwVersionCheck", "export", "parse"),
    (CMD, "CmdSectionHeader", "export", "parse"),
]


def rule_wire(ctx) -> None:
    for rp, cn, w, r in WIRE_PAIRS:
        wire.check_pair(ctx, "C05.wire", rp, cn, w, r)
    ctx.chk.floor("C05.wire", len(WIRE_PAIRS))
    if ctx.tier == "thorough":
        wire.sweep_modules(ctx, "C05.wire", [IMG, CMD], {(a, b, c, d) for a, b, c, d in WIRE_PAIRS})


def rule_idempotent(ctx) -> None:
    chk, prog = ctx.chk, ctx.prog
    total = 0
    for rp, cn in ((IMG, "SecureBinary31"), (IMG, "SecureBinary31Commands"), (IMG, "SecureBinary31Header")):
        cls = ctx.cls(rp, cn)
        findings, visited = idempotent.walk(prog, cls, "export")
        chk.analysed(*visited)
        total += len(visited)
        if findings:
            seen = set()
            for attr, node, fn, chain in findings:
                key = (attr, fn.qual)
                if key in seen:
                    continue
                seen.add(key)
                chk.bad("C05.idempotent-export", f"{rp}::{cn}.export -> {attr}", f"`{norm(node)[:100]}` in {fn.name} accumulates into `{attr}` without a reset earlier on the export path",
                        "a second export() must start from the same state: recompute instead of accumulating, or reset first", A.loc(fn.module.relpath, node))
        else:
            chk.ok("C05.idempotent-export", f"{rp}::{cn}.export", f"no accumulating store without a prior reset on the export path ({len(visited)} methods walked: {[v.split('::')[1] for v in visited][:8]})")
    if total < 8:
        raise AnalysisError(f"C05.idempotent-export: only {total} methods walked from the export entries")
    # embedded positive example
    t = ast.parse("class K:\n    def export(self):\n        self.n += 1\n        self.h = f(self.h)\n        self.ok = 0\n        self.ok += 2\n")
    fake = type("F", (), {"node": t.body[0].body[0]})()
    ev = idempotent.events(fake)  # type: ignore[arg-type]
    if [k for k, _n, _x in ev] != ["acc", "acc", "plain", "acc"]:  # += ; self-dependent store ; plain ; +=
        raise AnalysisError("C05.idempotent-export: embedded positive example no longer matches")


def rule_chain(ctx) -> None:
    chk = ctx.chk
    pb = ctx.own(IMG, "SecureBinary31Commands", "_process_block")
    packs = [c for c in A.calls_in(pb.node, "pack")]
    if len(packs) != 1:
        raise AnalysisError("C05.chain-shape: _process_block packs the block record exactly once")
    fmt = A.inline_locals(pb.node, packs[0].args[0])
    fmt_ok = isinstance(fmt, ast.JoinedStr) and len(fmt.values) == 5 and [v.value for v in fmt.values if isinstance(v, ast.Constant)] == ["<L", "s", "s"] and len(packs[0].args) == 4 \
        and all(isinstance(v, ast.FormattedValue) and norm(v.value) == f"len({norm(a)})" for v, a in zip([fmt.values[1], fmt.values[3]], packs[0].args[2:4]))
    chk.decide(fmt_ok, "C05.chain-shape", pb.qual + " format", "record format = <L | hash-length bytes | data-length bytes, each length taken from the very argument packed there", f"pack({norm(fmt)}, {[norm(a) for a in packs[0].args[1:]]})", "", A.loc(IMG, packs[0]))
    # the function evaluated on a model: (encrypted?, key derivator?) x symbolic hash / cipher / key derivation
    probs = []
    for enc in (True, False):
        for kd in (True, False):
            kdo = Obj(_kd=True) if kd else None
            me = Obj(is_encrypted=enc, key_derivator=kdo, final_hash=b"HH", hash_type="T")

            def cv(c: ast.Call, ev):
                f = norm(c.func)
                if f == "self.key_derivator.get_block_key" and len(c.args) == 1 and ev.ev(c.func.value.value if False else ast.parse("self.key_derivator", mode="eval").body) is not None:
                    return b"K" + bytes([ev.ev(c.args[0])])
                if f == "aes_cbc_encrypt" and len(c.args) == 2 and not c.keywords:
                    return b"E" + ev.ev(c.args[0]) + ev.ev(c.args[1])
                if f in ("pack", "struct.pack"):
                    return ("REC",) + tuple(ev.ev(a) for a in c.args[1:])
                if f == "get_hash" and len(c.args) + len(c.keywords) == 2:
                    return ("HASH", ev.ev(c.args[0]), ev.ev(A.arg_of(c, 1, "algorithm")))
                return ordereval.NOT_MODELLED
            try:
                out = ordereval.Evaluator({"self": me, "block_number": 2, "block_data": b"dd"}, None, opaque_return=False, call_value=cv).run(A.body_of(pb.node))
            except ordereval.Unsupported as ex:
                raise AnalysisError(f"C05.chain-shape: _process_block left the fragment: {ex}")
            if enc and not kd:
                if out.kind != "raise":
                    probs.append(f"encrypted container without key derivator: {out.kind} (expected an error)")
                continue
            data = b"EK\x02dd" if enc else b"dd"
            rec = ("REC", 2, b"HH", data)
            if not (out.kind == "return" and out.value == rec):
                probs.append(f"encrypted={enc}: returns {out.value!r}, expected record (number, previous final_hash, {'AES-CBC(block key(number), data)' if enc else 'data'})")
            elif me.__dict__.get("final_hash") != ("HASH", rec, "T"):
                probs.append(f"encrypted={enc}: final_hash becomes {me.__dict__.get('final_hash')!r}, expected hash of the record with the container hash type")
    chk.decide(not probs, "C05.chain-shape", pb.qual + " record", "block record = number | hash of the next block | (encrypted) data; key from the block's own number; final_hash <- hash(record, container hash type)",
               "; ".join(probs), "", A.loc(IMG, pb.node))
    # blocks processed last-to-first, numbered from 1, emitted in forward order
    pc = ctx.own(IMG, "SecureBinary31Commands", "process_cmd_blocks_to_export")
    probs = []
    for nb in (0, 1, 3):
        blocks = tuple(bytes([0x61 + i]) * 2 for i in range(nb))
        log: List[Any] = []
        me = Obj(hash_type="T", final_hash=b"old", block_count=99)

        def cv2(c: ast.Call, ev, log=log):
            f = norm(c.func)
            if f == "get_hash_length" and len(c.args) == 1:
                return 2
            if f == "self._process_block" and len(c.args) + len(c.keywords) == 2:
                n_, d_ = ev.ev(A.arg_of(c, 0, "block_number")), ev.ev(A.arg_of(c, 1, "block_data"))
                log.append((n_, d_, ev.ev(ast.parse("self.final_hash", mode="eval").body)))
                return bytes([n_]) + d_
            return ordereval.NOT_MODELLED
        try:
            out = ordereval.Evaluator({"self": me, "data_blocks": blocks}, None, opaque_return=False, call_value=cv2).run(A.body_of(pc.node))
        except ordereval.Unsupported as ex:
            raise AnalysisError(f"C05.chain-shape: process_cmd_blocks_to_export left the fragment: {ex}")
        want_log = [(i + 1, blocks[i]) for i in reversed(range(nb))]
        if [(a_, b_) for a_, b_, _ in log] != want_log:
            probs.append(f"{nb} blocks: processed as {[(a_, b_) for a_, b_, _ in log]}, expected {want_log}")
        elif log and log[0][2] != bytes(2):
            probs.append(f"{nb} blocks: chain starts from final_hash {log[0][2]!r}, expected zeros of the hash length")
        elif not (out.kind == "return" and out.value == b"".join(bytes([i + 1]) + blocks[i] for i in range(nb))):
            probs.append(f"{nb} blocks: emits {out.value!r}")
        elif me.__dict__.get("block_count") != nb:
            probs.append(f"{nb} blocks: block_count {me.__dict__.get('block_count')}")
    chk.decide(not probs, "C05.chain-shape", pc.qual, "blocks are processed from the last to the first (numbers start at 1, chain seeded with zeros) and emitted in forward order; block_count = number of blocks", "; ".join(probs[:2]), "", A.loc(IMG, pc.node))
    # container: header | hash of block 1 | cert block | signature over everything before | blocks
    ex = ctx.own(IMG, "SecureBinary31", "export")
    # (read off the symbolic paths: a += chain, one join or intermediate locals give the same part list and the same event order)
    sp = [q for q in A.spaths(ex.node) if q.end == "return" and q.value is not None]
    want = ["self.sb_header.export()", "self.sb_commands.final_hash", "self.cert_block.export()", "SIGNATURE", "self.sb_commands.export()"]
    want_nc = [w if w != "self.cert_block.export()" else "cert_block" for w in want]  # a caller-supplied certificate block
    probs, seq_ok = [], bool(sp)
    for q in sp:
        parts = []
        for x in A.flat_concat(q.value):
            if isinstance(x, ast.Call) and norm(x.func) == "self.signature_provider.get_signature" and len(x.args) == 1:
                sig_over = [norm(y) for y in A.flat_concat(x.args[0])]
                if sig_over != parts:
                    probs.append(f"signature covers {sig_over}, emitted before it {parts}")
                parts.append("SIGNATURE")
            else:
                parts.append(norm(x))
        if parts != (want_nc if q.assumes("cert_block", True) else want):
            probs.append(f"{parts}")
        ev = [norm(n) for n in A.eval_order(q.stmts) if isinstance(n, (ast.Call, ast.Attribute))]
        def first(txt, ev=ev):
            return next((i for i, t in enumerate(ev) if t == txt or (txt.endswith("(") and t.startswith(txt))), -1)
        idx = [first("self.sb_commands.export()"), first("self.sb_header.update("), first("self.sb_header.export()"), first("self.sb_commands.final_hash")]
        seq_ok = seq_ok and idx[0] >= 0 and idx == sorted(idx) and len(set(idx)) == 4
    chk.decide(bool(sp) and not probs, "C05.chain-shape", ex.qual + " order", "header | hash of data block 1 | certificate block | signature over all of that | data blocks", "; ".join(probs[:2]), f"{want}", A.loc(IMG, ex.node))
    chk.decide(seq_ok, "C05.chain-shape", ex.qual + " sequencing", "commands are exported (chain computed) before the header is updated and before final_hash is read", "", "sb_commands.export() < sb_header.update() < sb_header.export() < read final_hash", A.loc(IMG, ex.node))
    upd = ctx.own(IMG, "SecureBinary31Header", "update")
    stores = [norm(n) for n in A.body_of(upd.node) if isinstance(n, (ast.Assign, ast.AugAssign))]
    want_u = ["hash_size = get_hash_length(self.hash_type)", "self.block_count = commands.block_count", "self.image_total_length = self.HEADER_SIZE + hash_size + cert_block.expected_size", "self.image_total_length += 2 * hash_size"]
    # semantic form: total = HEADER_SIZE + hash + cert block + signature (2 * hash size)
    cex = None
    for H in (32, 48):
        for cb in (100, 333):
            def sym(x, H=H, cb=cb):
                t = norm(x)
                if t == "get_hash_length(self.hash_type)":
                    return H
                if t == "cert_block.expected_size":
                    return cb
                if t == "commands.block_count":
                    return 3
                if t == "self.HEADER_SIZE":
                    return 60
                return None
            ev = ordereval.Evaluator({"self.image_total_length": 777, "self.block_count": 0}, sym)
            try:
                ev.run(A.body_of(upd.node))
            except ordereval.Unsupported as e:
                raise AnalysisError(f"C05.header-lengths: update left the fragment: {e}")
            got = (ev.env.get("self.image_total_length"), ev.env.get("self.block_count"))
            if got != (60 + H + cb + 2 * H, 3) and cex is None:
                cex = (H, cb, got)
    chk.decide(cex is None, "C05.header-lengths", upd.qual, "total length of block 0 = header + hash + certificate block + signature (2 x hash size), independent of its previous value; block count taken from the commands",
               f"hash {cex[0]}, cert block {cex[1]}, previous total 777: (total, count) = {cex[2]}" if cex else "", "60 + H + cb + 2H", A.loc(IMG, upd.node))


def rule_formulas(ctx) -> None:
    chk, prog = ctx.chk, ctx.prog
    hdr = ctx.cls(IMG, "SecureBinary31Header")
    fmt = prog.fold(hdr.consts.get("HEADER_FORMAT"), hdr.module, hdr)
    size = prog.fold(hdr.consts.get("HEADER_SIZE"), hdr.module, hdr)
    chk.decide(isinstance(fmt, str) and size == struct.calcsize(fmt), "C05.header-lengths", f"{IMG}::SecureBinary31Header.HEADER_SIZE", f"HEADER_SIZE = calcsize({fmt}) = {size}", f"{size}", "", A.loc(IMG, hdr.node))
    cbo = ctx.own(IMG, "SecureBinary31Header", "cert_block_offset")
    bs = ctx.own(IMG, "SecureBinary31Header", "block_size")
    cmds = ctx.cls(IMG, "SecureBinary31Commands")
    chunk = prog.fold(cmds.consts.get("DATA_CHUNK_LENGTH"), cmds.module, cmds)
    for H in (32, 48):
        v1 = ordereval.Evaluator({}, ctx.fold_sym(cbo, {"get_hash_length(self.hash_type)": H}), opaque_return=False).run(A.body_of(cbo.node)).value
        v2 = ordereval.Evaluator({}, ctx.fold_sym(bs, {"get_hash_length(self.hash_type)": H}), opaque_return=False).run(A.body_of(bs.node)).value
        chk.decide(v1 == size + H, "C05.header-lengths", f"{cbo.qual} (hash {H})", "certificate block starts right after header + hash of block 1", f"{v1}", f"{size + H}", A.loc(IMG, cbo.node))
        chk.decide(v2 == 4 + chunk + H, "C05.header-lengths", f"{bs.qual} (hash {H})", "block size = number (4) + hash + DATA_CHUNK_LENGTH", f"{v2}", f"{4 + chunk + H}", A.loc(IMG, bs.node))
    pa = ctx.own(IMG, "SecureBinary31Header", "parse")
    acc = [prog.fold(n.test.comparators[0], pa.module) for n in A.body_of(pa.node) if isinstance(n, ast.If) and A.always_raises(n.body) and norm(n.test).startswith("block_size not in")]
    chk.decide(acc == [[4 + chunk + 32, 4 + chunk + 48]], "C05.header-lengths", pa.qual + " block sizes", "parser accepts exactly the two block sizes the writer can produce", f"{acc}", f"[[{4 + chunk + 32}, {4 + chunk + 48}]]", A.loc(IMG, pa.node))
    kl = ctx.own(IMG, "SecureBinary31Commands", "_get_key_length")
    d = [n for n in ast.walk(kl.node) if isinstance(n, ast.Dict)]
    m = {norm(k).split(".")[-1]: prog.fold(v, kl.module) for k, v in zip(d[0].keys, d[0].values)} if d else {}
    chk.decide(m == {"SHA256": 128, "SHA384": 256}, "C05.header-lengths", kl.qual, "SHA-256 containers use 128-bit block keys, SHA-384 containers 256-bit", f"{m}", "", A.loc(IMG, kl.node))


def rule_partition(ctx) -> None:
    """get_cmd_blocks_to_export evaluated on a finite model: commands with known bytes, a 3-byte section header that carries the command
    length, chunk length 4.  Whatever the code shape (split then pad the last chunk, pad then split, loop or comprehension), the
    result must be the stream header||commands, zero padded to a chunk multiple, cut into consecutive full chunks."""
    chk = ctx.chk
    fn = ctx.own(IMG, "SecureBinary31Commands", "get_cmd_blocks_to_export")
    C = 4
    cex = None
    n = 0

    def pad(b: bytes, al: int) -> bytes:
        return b + bytes((-len(b)) % al)

    for L in range(0, 3 * C + 2):
        for ncmd in (1, 2):
            payload = bytes(range(1, L + 1))
            cut = L // 2 if ncmd == 2 else L
            cmds = tuple(Obj(_bytes=x) for x in ((payload[:cut], payload[cut:]) if ncmd == 2 else (payload,)))

            def cv(c: ast.Call, ev):
                f = norm(c.func)
                if f == "CmdSectionHeader" and len(c.keywords) == 1 and c.keywords[0].arg == "length" and not c.args:
                    return Obj(_bytes=b"\xaa\xbb" + bytes([ev.ev(c.keywords[0].value)]))
                if isinstance(c.func, ast.Attribute) and c.func.attr == "export" and not c.args and not c.keywords:
                    o = ev.ev(c.func.value)
                    if isinstance(o, Obj) and "_bytes" in o.__dict__:
                        return o.__dict__["_bytes"]
                if f == "align_block":
                    al = A.arg_of(c, 1, "alignment")
                    if len(c.args) + len(c.keywords) == 2 and al is not None:
                        return pad(ev.ev(c.args[0]), ev.ev(al))
                return ordereval.NOT_MODELLED
            me = Obj(commands=cmds, DATA_CHUNK_LENGTH=C)
            try:
                out = ordereval.Evaluator({"self": me}, None, opaque_return=False, call_value=cv).run(A.body_of(fn.node))
            except ordereval.Unsupported as ex:
                raise AnalysisError(f"C05.partition: get_cmd_blocks_to_export left the fragment: {ex}")
            n += 1
            stream = pad(b"\xaa\xbb" + bytes([L]) + payload, C)
            want = tuple(stream[i:i + C] for i in range(0, len(stream), C))
            if not (out.kind == "return" and out.value == want) and cex is None:
                cex = (L, ncmd, out.kind, [x.hex() if isinstance(x, bytes) else x for x in out.value] if isinstance(out.value, tuple) else out.value, [x.hex() for x in want])
    chk.exhaustive_rules.add("C05.partition")
    chk.decide(cex is None, "C05.partition", fn.qual, f"stream = section header (length of the command bytes) || commands in order, zero padded and cut into consecutive full chunks ({n} models around the chunk boundaries)",
               f"{cex[1]} command(s) with {cex[0]} bytes, chunk {C}: {cex[2]} {cex[3]}, expected {cex[4]}" if cex else "", "consecutive full chunks of header||commands||zero padding", A.loc(IMG, fn.node))
    chk.floor("C05.partition", 1)


def rule_registry(ctx) -> None:
    chk, prog = ctx.chk, ctx.prog
    m = ctx.m(CMD)
    consts = prog.module_consts(m)
    t2c, n2c = consts.get("TAG_TO_CLASS"), consts.get("CFG_NAME_TO_CLASS")
    if not isinstance(t2c, ast.Dict) or not isinstance(n2c, ast.Dict):
        raise AnalysisError("C05.registry: registries not found")
    tagmap = {norm(k).split(".")[-1]: norm(v) for k, v in zip(t2c.keys, t2c.values)}
    namemap = {prog.fold(k, m): norm(v) for k, v in zip(n2c.keys, n2c.values)}
    enum = ctx.cls(CONST, "EnumCmdTag")
    members = {k: prog.fold(v, enum.module, enum) for k, v in enum.consts.items()}
    members = {k: v for k, v in members.items() if isinstance(v, tuple) and k != "NONE"}
    chk.decide(set(tagmap) == set(members), "C05.registry", f"{CMD}::TAG_TO_CLASS", f"covers all {len(members)} command tags", f"difference {sorted(set(tagmap) ^ set(members))}", "", A.loc(CMD, t2c))
    chk.decide(sorted(tagmap.values()) == sorted(namemap.values()), "C05.registry", f"{CMD}::CFG_NAME_TO_CLASS", "configuration names map onto the same set of classes", f"{sorted(set(tagmap.values()) ^ set(namemap.values()))}", "", A.loc(CMD, n2c))
    tags = [v[0] for v in members.values()]
    chk.decide(len(set(tags)) == len(tags), "C05.registry", f"{CONST}::EnumCmdTag", "tags unique", f"{tags}", "", A.loc(CONST, enum.node))
    # each class constructs with its own tag and parse checks it
    for tag, cname in sorted(tagmap.items()):
        cls = ctx.cls(CMD, cname)
        init = prog.find_method(cls, "__init__")
        sup = [c for c in A.calls_in(init.node) if isinstance(c.func, ast.Attribute) and c.func.attr == "__init__" and norm(c.func.value) == "super()"]
        ctag = None
        if sup:
            kw = {k.arg: norm(k.value) for k in sup[0].keywords}
            ctag = kw.get("cmd_tag") or (norm(sup[0].args[0]) if sup[0].args and "EnumCmdTag" in norm(sup[0].args[0]) else None)
        chk.decide(ctag == f"EnumCmdTag.{tag}", "C05.registry", f"{CMD}::{cname}", f"registered under {tag} and constructed with the same tag", f"constructor tag {ctag}", f"EnumCmdTag.{tag}", A.loc(CMD, cls.node))
        parse = cls.method("parse")
        if parse is not None:
            hp = [c for c in A.calls_in(parse.node, "header_parse")]
            if hp:
                kw = {k.arg: norm(k.value) for k in hp[0].keywords}
                ptag = kw.get("cmd_tag") or (norm(hp[0].args[0]) if hp[0].args else None)
                chk.decide(ptag == f"EnumCmdTag.{tag}", "C05.registry", f"{CMD}::{cname}.parse", "parse verifies its own tag", f"header_parse tag {ptag}", f"EnumCmdTag.{tag}", A.loc(CMD, parse.node))
    pc = ctx.func(CMD, "parse_command")
    offs = [prog.fold(k.value, m) for c in A.calls_in(pc.node, "unpack_from") for k in c.keywords if k.arg == "offset"]
    chk.decide(offs == [12], "C05.registry", pc.qual, "dispatch reads the command tag at offset 12 (4th word of '<4L')", f"{offs}", "[12]", A.loc(CMD, pc.node))
    # database: every supported command name has a class
    db = DevDB(ctx.repo)
    n = 0
    for feat in ("sb31", "devhsm"):
        for dev, rev, f in db.iter_features(feat):
            sc = f.get("supported_commands")
            if not isinstance(sc, list):
                continue
            n += 1
            missing = [c for c in sc if c not in namemap]
            if missing:
                chk.bad("C05.registry", f"spsdk/data/devices/{dev}/database.yaml {feat}.supported_commands ({rev})", f"unknown command names {missing}", "names from CFG_NAME_TO_CLASS", f"spsdk/data/devices/{dev}/database.yaml")
    chk.ok("C05.registry", "device database supported_commands", f"{n} (device, revision, feature) lists name only registered commands")
    chk.exhaustive_rules.add("C05.registry")


def rule_pck_probe(ctx) -> None:
    """C05.pck-size: the part common key from the configuration is used at its own length (128 or 256 bit), never zero-extended."""
    chk, prog = ctx.chk, ctx.prog
    IM = "spsdk/sbfile/sb31/images.py"
    lf = ctx.own(IM, "SecureBinary31", "load_from_config")
    loops = [n for n in ast.walk(lf.node) if isinstance(n, ast.For) and "PCK_SIZES" in norm(n.iter)]
    if len(loops) != 1:
        raise AnalysisError("C05.pck-size: the PCK size probing loop was not found")
    lp = loops[0]
    sizes = prog.fold(lp.iter, lf.module, lf.cls)
    if isinstance(lp.iter, ast.Call) and norm(lp.iter.func) in ("sorted", "reversed"):
        raise AnalysisError("C05.pck-size: probing order is computed; model not applicable")
    trs = [s for s in lp.body if isinstance(s, ast.Try)]
    if not isinstance(sizes, list) or len(trs) != 1 or len(lp.body) != 1:
        raise AnalysisError(f"C05.pck-size: unexpected loop shape (sizes {sizes})")
    tr = trs[0]
    loads = [c for c in A.calls_in(ast.Module(body=tr.body, type_ignores=[]), "load_hex_string")]
    if len(loads) != 1 or norm(A.arg_of(loads[0], 1, "expected_size")) != f"{norm(lp.target)} // 8":
        raise AnalysisError("C05.pck-size: load_hex_string(.., size // 8, ..) not found in the probing loop")
    exits_on_success = any(isinstance(s, (ast.Break, ast.Return)) for s in tr.body) or any(isinstance(s, (ast.Break, ast.Return)) for s in tr.orelse)
    handler_swallows = all(not A.always_raises(h.body) and not any(isinstance(x, (ast.Break, ast.Return)) for x in h.body) for h in tr.handlers)
    # model: load_hex_string(value, n) accepts a hex value of at most n bytes (shorter values are zero-extended) and raises otherwise
    probs = []
    for key_bits in (128, 256):
        chosen = None
        for sz in sizes:
            if key_bits <= sz:
                chosen = sz
                if exits_on_success:
                    break
        if chosen != key_bits:
            probs.append(f"a {key_bits}-bit key is loaded as a {chosen}-bit key (zero-extended)")
    chk.decide(not probs and handler_swallows, "C05.pck-size", lf.qual, f"probing {sizes} {'stops at the first' if exits_on_success else 'keeps the last'} size that loads: 128- and 256-bit keys are each used at their own length",
               "; ".join(probs) or "the failure handler leaves the loop", "the smallest size that accepts the value wins", A.loc(IM, lp))


def rule_roundtrip(ctx) -> None:
    """C05.cmd-roundtrip: every SB3.1 command class interpreted on model objects (E19): parse(export(x)) has the fields of x and exports
    to the same bytes."""
    from ..engines import roundtrip
    D = bytes(range(1, 21))
    table = [
        ("CmdErase", [{"address": 0x1000, "length": 0x200, "memory_id": 3}, {"address": 0, "length": 1, "memory_id": 0}]),
        ("CmdLoad", [{"address": 0x1000, "data": D, "memory_id": 3}, {"address": 0x20, "data": bytes(range(16)), "memory_id": 0}]),
        ("CmdExecute", [{"address": 0x1000}]),
        ("CmdCall", [{"address": 0x1000}]),
        ("CmdProgFuses", [{"address": 0x10, "data": bytes(range(8))}]),
        ("CmdProgIfr", [{"address": 0x10, "data": D}]),
        ("CmdCopy", [{"address": 0x10, "length": 0x20, "destination_address": 0x30, "memory_id_from": 1, "memory_id_to": 2}]),
        ("CmdLoadKeyBlob", [{"offset": 0x10, "data": D, "key_wrap_id": 17, "plain_input": False}]),
        ("CmdConfigureMemory", [{"address": 0x10, "memory_id": 9}]),
        ("CmdFillMemory", [{"address": 0x10, "length": 0x20, "pattern": 0xA5A5A5A5}]),
        ("CmdSectionHeader", [{"length": 0x40, "section_uid": 2, "section_type": 1}]),
        ("CmdLoadCmac", [{"address": 0x1000, "data": D, "memory_id": 3}]),
        ("CmdLoadHashLocking", [{"address": 0x1000, "data": D, "memory_id": 3}]),
        ("CmdReset", [{}]),
    ]
    roundtrip.check_classes(ctx, "C05.cmd-roundtrip", CMD, table, floor=14)
    # a fuse programming command counts its data in 32-bit words: data that is not whole words is refused by the constructor (otherwise
    # export writes bytes that the word count in the header does not cover and parse returns different data)
    rtf = roundtrip.RoundTrip(ctx, CMD, "CmdProgFuses")
    built, data, parsed = rtf.run({"address": 0x10, "data": bytes(range(1, 6))})
    refused = isinstance(built, tuple) and built and built[0] == "raise"
    ctx.chk.decide(refused or (isinstance(built, dict) and built == parsed), "C05.fuse-words", f"{CMD}::CmdProgFuses", "5 bytes of fuse data are refused (or round-trip)",
                   f"CmdProgFuses(0x10, 5 bytes) is accepted, exports {bytes(data).hex() if isinstance(data, (bytes, bytearray)) else data} and parses back to data {parsed.get('data') if isinstance(parsed, dict) else parsed}",
                   "len(data) % 4 == 0 or an error", A.loc(CMD, rtf.cls.node))
    # the container header (block size and certificate offset are re-derived by parse from the hash type and compared with the file)
    from ..engines import ordereval as _oe
    H = ctx.enum_model(ctx.cls("spsdk/crypto/hash.py", "EnumHashAlgorithm"))

    def lv(c: ast.Call, ev):
        if norm(c.func) == "get_hash_length" and len(c.args) == 1:
            return {"sha256": 32, "sha384": 48, "sha512": 64}.get(ev.ev(c.args[0]).label.lower(), 0)
        if norm(c.func) == "datetime.now" and not c.args:
            return _oe.Obj(_now=1)
        if isinstance(c.func, ast.Attribute) and c.func.attr == "timestamp" and not c.args:
            o = ev.ev(c.func.value)
            if isinstance(o, _oe.Obj) and "_now" in o.__dict__:
                return 1234567.0  # "now" is a leaf (a time stamp of 0 counts as "not given" in this constructor)
        return _oe.NOT_MODELLED
    roundtrip.check_classes(ctx, "C05.header-roundtrip", IMG, [("SecureBinary31Header", [
        {"firmware_version": 5, "hash_type": H.SHA256, "description": "hello", "timestamp": 0x1122334455, "is_nxp_container": False, "flags": 0,
         "__setup1": "obj.block_count = 7; obj.image_total_length = 0x1234"},
        {"firmware_version": 0x7FFF, "hash_type": H.SHA384, "description": None, "timestamp": 1, "is_nxp_container": True, "flags": 1}])], None, lv, floor=1)


def rule_padding_checks(ctx) -> None:
    """C05.padding-check: every check of reserved padding words in the SB3.1 command parsers refuses exactly the non-zero paddings: the
    raising test over the names pad0, pad1, ... is evaluated on every 0/non-zero pattern (a chained `a != b != c != 0` is false for
    (1, 1, 1) and for (0, 0, 5))."""
    import itertools as _it
    ctx.m(CMD)
    n = 0
    funcs = {q: f for q, f in ctx.prog.functions.items() if f.module.relpath == CMD}
    for c_ in ctx.prog.classes.values():
        if c_.module.relpath == CMD:
            for fl in c_.methods.values():
                for f in fl:
                    funcs[f.qual] = f
    for q, f in sorted(funcs.items()):
        for st in ast.walk(f.node):
            if not (isinstance(st, ast.If) and A.always_raises(st.body)):
                continue
            pads = sorted({x.id for x in ast.walk(st.test) if isinstance(x, ast.Name) and x.id.startswith("pad") and x.id[3:].isdigit()})
            if len(pads) < 2:
                continue
            n += 1
            ctx.chk.analysed(q)
            wrong = []
            for vals in _it.product((0, 1, 5), repeat=len(pads)):
                try:
                    got = bool(ordereval.Evaluator(dict(zip(pads, vals))).ev(st.test))
                except ordereval.Unsupported as ex:
                    raise AnalysisError(f"C05.padding-check: `{norm(st.test)}` left the fragment: {ex}")
                if got != any(vals):
                    wrong.append(vals)
            ctx.chk.decide(not wrong, "C05.padding-check", f"{q} `{norm(st.test)[:50]}`", f"refuses exactly the non-zero paddings ({3 ** len(pads)} patterns)",
                           f"`{norm(st.test)}` is wrong for the paddings {wrong[:4]}", "not pad0 == pad1 == pad2 == 0", A.loc(CMD, st))
    ctx.chk.floor("C05.padding-check", 3)


def rule_timestamp_agreement(ctx) -> None:
    """C05.timestamp-agreement: the ROM derives the key-derivation key from the timestamp it reads in the container header, so the value
    that SecureBinary31.__init__ hands to the key derivation (SecureBinary31Commands) and the value that ends in the header object are
    the same number - for a given timestamp, for 0 and for none.  The constructor and the header's own constructor are interpreted
    (the two "now" expressions are distinct symbolic constants)."""
    IMG = "spsdk/sbfile/sb31/images.py"
    sb = ctx.cls(IMG, "SecureBinary31")
    hdr = ctx.cls(IMG, "SecureBinary31Header")
    eh = ctx.enum_model(ctx.cls("spsdk/crypto/hash.py", "EnumHashAlgorithm"))
    if eh is None:
        raise AnalysisError("C05.timestamp-agreement: EnumHashAlgorithm does not fold to an enum model")
    fn = ctx.own(IMG, "SecureBinary31", "__init__")
    probs: List[str] = []
    n = 0
    for ts in (None, 0, 1, 0x27C0E97C):
        seen: Dict[str, Any] = {}

        def leaves(c: ast.Call, ev, seen=seen):
            text = norm(c)
            if "datetime.now()" in text and (norm(c.func) in ("int", "round") or text.endswith((".timestamp()", ".total_seconds()"))):
                return 700000001 if "datetime(2000" in text else 1700000002
            if norm(c.func) == "SecureBinary31Commands":
                seen["kdf"] = {k.arg: ev.ev(k.value) for k in c.keywords if k.arg == "timestamp"}.get("timestamp", "<not passed>")
                return ordereval.Obj(_commands=True)
            return ordereval.NOT_MODELLED
        me = ordereval.Obj(_cls=sb)
        env = {"self": me, "family": "fam", "cert_block": ordereval.Obj(_cb=True), "firmware_version": 1, "signature_provider": ordereval.Obj(signature_length=64), "pck": b"P" * 32,
               "kdk_access_rights": 0, "description": None, "is_nxp_container": False, "flags": 0, "timestamp": ts, "is_encrypted": True}
        sym_map = {"EnumHashAlgorithm": eh}
        try:
            out = ordereval.Evaluator(env, ctx.fold_sym(fn, sym_map), opaque_return=False, call_value=ctx.model_calls(leaves, sym_map, classes={"SecureBinary31Header": hdr, "SecureBinary31": sb})).run(A.body_of(fn.node))
        except ordereval.Unsupported as ex:
            raise AnalysisError(f"C05.timestamp-agreement: {fn.qual} left the fragment: {ex}")
        n += 1
        h = getattr(getattr(me, "sb_header", None), "timestamp", "<no header>")
        if out.kind == "raise" or h != seen.get("kdf") or (ts and h != ts):
            probs.append(f"timestamp={ts!r}: header carries {h!r}, key derivation uses {seen.get('kdf')!r} ({out.kind})")
    ctx.chk.analysed(fn.qual)
    ctx.chk.decide(not probs, "C05.timestamp-agreement", fn.qual, f"the header's timestamp is the timestamp of the key derivation ({n} models)", "; ".join(probs)[:500], "", A.loc(IMG, fn.node))


def run(ctx) -> None:
    ctx.chk.explain("C05: PackSym on the SB3.1 header and the command layouts; walk of the export call tree proving no accumulating state without reset (idempotent export); "
                    "shape of the hash chain (record layout, link update, processing order, container order and sequencing); length formulas evaluated for both hash sizes; "
                    "chunking evaluated as a partition on all lengths around the chunk boundaries; tag/name registries vs enum and all device databases; KDF record layout.")
    ctx.rule(rule_wire)
    ctx.rule(rule_idempotent)
    ctx.rule(rule_chain)
    ctx.rule(rule_formulas)
    ctx.rule(rule_partition)
    ctx.rule(rule_registry)
    ctx.rule(rule_pck_probe)
    ctx.rule(rule_roundtrip)
    ctx.rule(rule_padding_checks)
    ctx.rule(rule_timestamp_agreement)
    ctx.rule(c09.rule_kdf, "C05")
    ctx.rule(c03.rule_key_hash, "C05")  # block 0 carries the certificate block: its root key table entries are the hashes the ROM recomputes
    ctx.chk.assumptions = ["hash/CMAC/AES values are those of the cryptography package (C09)", "not decided: signature validity, certificate block contents (C03), per-command payload semantics"]


MANIFEST = {
    "level": "Static structural decision: the export call tree is walked to prove the 'any number of export() calls' quantifier (no state survives from one export to the next), "
             "the hash-chain shape and container order are decided on the AST, the chunking is decided as a partition on a boundary-complete set of lengths, registries are "
             "checked exhaustively against the enum and all 140 device databases.",
    "note": "Trusted: struct, the evaluators, PyYAML. Not decided: hash/CMAC/signature values, ROM acceptance at value level.",
    "technique": "static analysis: call-tree state-accumulation walk, writer/reader struct symmetry, abstract evaluation of length formulas and chunking, registry/data lint, finite-model evaluation of the block chain, partition and export (symbolic hash/cipher leaves), symbolic-path part lists and event order, export/parse round trip of every SB3.1 command class and of the container header interpreted on model objects (E19), timestamp agreement (constructor and header constructor interpreted), key-hash construction borrowed from C03, KDF record evaluated on all parameter combinations",
}
