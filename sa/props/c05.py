"""C05 Secure Binary 3.1 (hash chain shape, idempotent export, wire symmetry, registry, KDF layout, partition)."""
from __future__ import annotations

import ast
import struct
from typing import Any, Dict, List

from ..core import astutil as A
from ..core.devdb import DevDB
from ..core.loader import AnalysisError
from ..core.report import norm
from ..core.symtab import struct_items
from ..engines import idempotent, ordereval, wire
from . import c09

IMG = "spsdk/sbfile/sb31/images.py"
CMD = "spsdk/sbfile/sb31/commands.py"
CONST = "spsdk/sbfile/sb31/constants.py"

WIRE_PAIRS = [
    (IMG, "SecureBinary31Header", "export", "parse"),
    (CMD, "BaseCmd", "export", "header_parse"),
    (CMD, "CmdLoadBase", "export", "_extract_data"),
    (CMD, "CmdErase", "export", "parse"),
    (CMD, "CmdCopy", "export", "parse"),
    (CMD, "CmdLoadKeyBlob", "export", "parse"),
    (CMD, "CmdConfigureMemory", "export", "parse"),
    (CMD, "CmdFillMemory", "export", "parse"),
    (CMD, "CmdFwVersionCheck", "export", "parse"),
    (CMD, "CmdSectionHeader", "export", "parse"),
]


def rule_wire(ctx) -> None:
    for rp, cn, w, r in WIRE_PAIRS:
        wire.check_pair(ctx, "C05.wire", rp, cn, w, r)
    ctx.chk.floor("C05.wire", len(WIRE_PAIRS))
    if ctx.tier == "thorough":
        wire.sweep_modules(ctx, "C05.wire", [IMG, CMD], {(a, b, c, d) for a, b, c, d in WIRE_PAIRS})


def rule_idempotent(ctx) -> None:
    chk, prog = ctx.chk, ctx.prog
    total = 0
    for rp, cn in ((IMG, "SecureBinary31"), (IMG, "SecureBinary31Commands"), (IMG, "SecureBinary31Header")):
        cls = ctx.cls(rp, cn)
        findings, visited = idempotent.walk(prog, cls, "export")
        chk.analysed(*visited)
        total += len(visited)
        if findings:
            seen = set()
            for attr, node, fn, chain in findings:
                key = (attr, fn.qual)
                if key in seen:
                    continue
                seen.add(key)
                chk.bad("C05.idempotent-export", f"{rp}::{cn}.export -> {attr}", f"`{norm(node)[:100]}` in {fn.name} accumulates into `{attr}` without a reset earlier on the export path",
                        "a second export() must start from the same state: recompute instead of accumulating, or reset first", A.loc(fn.module.relpath, node))
        else:
            chk.ok("C05.idempotent-export", f"{rp}::{cn}.export", f"no accumulating store without a prior reset on the export path ({len(visited)} methods walked: {[v.split('::')[1] for v in visited][:8]})")
    if total < 8:
        raise AnalysisError(f"C05.idempotent-export: only {total} methods walked from the export entries")
    # embedded positive example
    t = ast.parse("class K:\n    def export(self):\n        self.n += 1\n        self.h = f(self.h)\n        self.ok = 0\n        self.ok += 2\n")
    fake = type("F", (), {"node": t.body[0].body[0]})()
    ev = idempotent.events(fake)  # type: ignore[arg-type]
    if [k for k, _n, _x in ev] != ["acc", "acc", "plain", "acc"]:  # += ; self-dependent store ; plain ; +=
        raise AnalysisError("C05.idempotent-export: embedded positive example no longer matches")


def rule_chain(ctx) -> None:
    chk = ctx.chk
    pb = ctx.own(IMG, "SecureBinary31Commands", "_process_block")
    packs = [c for c in A.calls_in(pb.node, "pack")]
    if len(packs) != 1:
        raise AnalysisError("C05.chain-shape: _process_block packs the block record exactly once")
    args = [norm(a) for a in packs[0].args[1:]]
    fmt = packs[0].args[0]
    fmt_ok = isinstance(fmt, ast.JoinedStr) and norm(fmt) == "f'<L{len(self.final_hash)}s{len(encrypted_block)}s'"
    chk.decide(args == ["block_number", "self.final_hash", "encrypted_block"] and fmt_ok, "C05.chain-shape", pb.qual + " record", "block record = number | hash of the next block | (encrypted) data",
               f"pack({norm(fmt)}, {args})", "pack('<L{hash}s{data}s', block_number, self.final_hash, encrypted_block)", A.loc(IMG, packs[0]))
    # final_hash <- hash of that very record, with the container's hash type
    st = [n for n in A.walk_no_nested(pb.node) if isinstance(n, ast.Assign) and norm(n.targets[0]) == "self.final_hash"]
    v = norm(A.inline_locals(pb.node, st[0].value)) if len(st) == 1 else ""
    rec_name = norm(A.enclosing_stmt(packs[0]).targets[0]) if isinstance(A.enclosing_stmt(packs[0]), ast.Assign) else "?"
    ok = bool(st) and st[0].lineno > packs[0].lineno and v.startswith("get_hash(pack(") and v.endswith(", self.hash_type)")
    r = A.returns_in(pb.node)
    chk.decide(ok and bool(r) and norm(r[-1].value) == rec_name, "C05.chain-shape", pb.qual + " link", "final_hash becomes the hash (container hash type) of the record just built, and that record is returned", v[:120], "self.final_hash = get_hash(full_block, self.hash_type)", A.loc(IMG, pb.node))
    # same block number feeds the key derivation and the record
    gk = [c for c in A.calls_in(pb.node, "get_block_key")]
    chk.decide(bool(gk) and [norm(a) for a in gk[0].args] == ["block_number"], "C05.chain-shape", pb.qual + " key", "block key is derived from the block's own number", norm(gk[0]) if gk else "", "get_block_key(block_number)", A.loc(IMG, pb.node))
    enc = [c for c in A.calls_in(pb.node, "aes_cbc_encrypt")]
    chk.decide(bool(enc) and [norm(a) for a in enc[0].args] == ["block_key", "block_data"] and not enc[0].keywords, "C05.chain-shape", pb.qual + " cipher", "AES-CBC(block key, block data) with the zero IV", norm(enc[0]) if enc else "", "aes_cbc_encrypt(block_key, block_data)", A.loc(IMG, pb.node))
    # blocks processed last-to-first, numbered from 1, re-reversed
    pc = ctx.own(IMG, "SecureBinary31Commands", "process_cmd_blocks_to_export")
    comp = [n for n in A.walk_no_nested(pc.node) if isinstance(n, ast.ListComp)]
    ok = False
    if comp:
        it = norm(comp[0].generators[0].iter)
        elt = norm(comp[0].elt)
        tgt = norm(comp[0].generators[0].target)
        ok = it == "reversed(list(enumerate(data_blocks, start=1)))" and elt == "self._process_block(block_number, block_data)" and tgt == "(block_number, block_data)"
    fin = norm(A.inline_locals(pc.node, A.returns_in(pc.node)[-1].value)) if A.returns_in(pc.node) else ""
    chk.decide(ok and fin.startswith("b''.join(reversed("), "C05.chain-shape", pc.qual, "blocks are processed from the last to the first (numbers start at 1) and emitted in forward order", f"iter {norm(comp[0].generators[0].iter) if comp else ''} -> {fin[:60]}", "reversed(list(enumerate(data_blocks, start=1))) ... b''.join(reversed(processed))", A.loc(IMG, pc.node))
    bc = [n for n in A.walk_no_nested(pc.node) if isinstance(n, ast.Assign) and norm(n.targets[0]) == "self.block_count"]
    chk.decide(bool(bc) and norm(bc[0].value) == "len(data_blocks)", "C05.chain-shape", pc.qual + " count", "block_count is the number of blocks emitted", norm(bc[0]) if bc else "", "self.block_count = len(data_blocks)", A.loc(IMG, pc.node))
    # container: header | hash of block 1 | cert block | signature over everything before | blocks
    ex = ctx.own(IMG, "SecureBinary31", "export")
    adds = [norm(n.value) for n in A.body_of(ex.node) if isinstance(n, ast.AugAssign) and norm(n.target) == "final_data"]
    want = ["self.sb_header.export()", "self.sb_commands.final_hash", "cert_block_data", "self.signature_provider.get_signature(final_data)", "sb3_commands_data"]
    chk.decide(adds == want, "C05.chain-shape", ex.qual + " order", "header | hash of data block 1 | certificate block | signature over all of that | data blocks", f"{adds}", f"{want}", A.loc(IMG, ex.node))
    body = A.body_of(ex.node)
    def line_of(txt: str) -> int:
        for s in body:
            if txt in norm(s):
                return s.lineno
        return -1
    l_cmd, l_upd, l_hdr, l_hash = line_of("self.sb_commands.export()"), line_of("self.sb_header.update("), line_of("final_data += self.sb_header.export()"), line_of("final_data += self.sb_commands.final_hash")
    chk.decide(0 < l_cmd < l_upd < l_hdr < l_hash, "C05.chain-shape", ex.qual + " sequencing", "commands are exported (chain computed) before the header is updated and before final_hash is read", f"lines cmd={l_cmd} update={l_upd} header={l_hdr} hash={l_hash}", "sb_commands.export() < sb_header.update() < sb_header.export() < read final_hash", A.loc(IMG, ex.node))
    upd = ctx.own(IMG, "SecureBinary31Header", "update")
    stores = [norm(n) for n in A.body_of(upd.node) if isinstance(n, (ast.Assign, ast.AugAssign))]
    want_u = ["hash_size = get_hash_length(self.hash_type)", "self.block_count = commands.block_count", "self.image_total_length = self.HEADER_SIZE + hash_size + cert_block.expected_size", "self.image_total_length += 2 * hash_size"]
    # semantic form: total = HEADER_SIZE + hash + cert block + signature (2 * hash size)
    cex = None
    for H in (32, 48):
        for cb in (100, 333):
            def sym(x, H=H, cb=cb):
                t = norm(x)
                if t == "get_hash_length(self.hash_type)":
                    return H
                if t == "cert_block.expected_size":
                    return cb
                if t == "commands.block_count":
                    return 3
                if t == "self.HEADER_SIZE":
                    return 60
                return None
            ev = ordereval.Evaluator({"self.image_total_length": 777, "self.block_count": 0}, sym)
            try:
                ev.run(A.body_of(upd.node))
            except ordereval.Unsupported as e:
                raise AnalysisError(f"C05.header-lengths: update left the fragment: {e}")
            got = (ev.env.get("self.image_total_length"), ev.env.get("self.block_count"))
            if got != (60 + H + cb + 2 * H, 3) and cex is None:
                cex = (H, cb, got)
    chk.decide(cex is None, "C05.header-lengths", upd.qual, "total length of block 0 = header + hash + certificate block + signature (2 x hash size), independent of its previous value; block count taken from the commands",
               f"hash {cex[0]}, cert block {cex[1]}, previous total 777: (total, count) = {cex[2]}" if cex else "", "60 + H + cb + 2H", A.loc(IMG, upd.node))


def rule_formulas(ctx) -> None:
    chk, prog = ctx.chk, ctx.prog
    hdr = ctx.cls(IMG, "SecureBinary31Header")
    fmt = prog.fold(hdr.consts.get("HEADER_FORMAT"), hdr.module, hdr)
    size = prog.fold(hdr.consts.get("HEADER_SIZE"), hdr.module, hdr)
    chk.decide(isinstance(fmt, str) and size == struct.calcsize(fmt), "C05.header-lengths", f"{IMG}::SecureBinary31Header.HEADER_SIZE", f"HEADER_SIZE = calcsize({fmt}) = {size}", f"{size}", "", A.loc(IMG, hdr.node))
    cbo = ctx.own(IMG, "SecureBinary31Header", "cert_block_offset")
    bs = ctx.own(IMG, "SecureBinary31Header", "block_size")
    cmds = ctx.cls(IMG, "SecureBinary31Commands")
    chunk = prog.fold(cmds.consts.get("DATA_CHUNK_LENGTH"), cmds.module, cmds)
    for H in (32, 48):
        sym = lambda x, H=H: H if norm(x) == "get_hash_length(self.hash_type)" else None  # noqa: E731
        v1 = ordereval.Evaluator({}, sym, opaque_return=False).run(A.body_of(cbo.node)).value
        v2 = ordereval.Evaluator({}, sym, opaque_return=False).run(A.body_of(bs.node)).value
        chk.decide(v1 == size + H, "C05.header-lengths", f"{cbo.qual} (hash {H})", "certificate block starts right after header + hash of block 1", f"{v1}", f"{size + H}", A.loc(IMG, cbo.node))
        chk.decide(v2 == 4 + chunk + H, "C05.header-lengths", f"{bs.qual} (hash {H})", "block size = number (4) + hash + DATA_CHUNK_LENGTH", f"{v2}", f"{4 + chunk + H}", A.loc(IMG, bs.node))
    pa = ctx.own(IMG, "SecureBinary31Header", "parse")
    acc = [prog.fold(n.test.comparators[0], pa.module) for n in A.body_of(pa.node) if isinstance(n, ast.If) and A.always_raises(n.body) and norm(n.test).startswith("block_size not in")]
    chk.decide(acc == [[4 + chunk + 32, 4 + chunk + 48]], "C05.header-lengths", pa.qual + " block sizes", "parser accepts exactly the two block sizes the writer can produce", f"{acc}", f"[[{4 + chunk + 32}, {4 + chunk + 48}]]", A.loc(IMG, pa.node))
    kl = ctx.own(IMG, "SecureBinary31Commands", "_get_key_length")
    d = [n for n in ast.walk(kl.node) if isinstance(n, ast.Dict)]
    m = {norm(k).split(".")[-1]: prog.fold(v, kl.module) for k, v in zip(d[0].keys, d[0].values)} if d else {}
    chk.decide(m == {"SHA256": 128, "SHA384": 256}, "C05.header-lengths", kl.qual, "SHA-256 containers use 128-bit block keys, SHA-384 containers 256-bit", f"{m}", "", A.loc(IMG, kl.node))


def rule_partition(ctx) -> None:
    chk, prog = ctx.chk, ctx.prog
    fn = ctx.own(IMG, "SecureBinary31Commands", "get_cmd_blocks_to_export")
    d = A.single_def(fn.node, "data_blocks")
    if d is None:
        raise AnalysisError("C05.partition: `data_blocks` is not defined by a single expression")
    e = A.inline_locals(fn.node, d, keep=["total"])
    cex = None
    n = 0
    C = 4
    for L in range(1, 3 * C + 2):
        total = bytes(range(1, L + 1))
        sym = lambda x: C if norm(x) in ("self.DATA_CHUNK_LENGTH", "SecureBinary31Commands.DATA_CHUNK_LENGTH", "cls.DATA_CHUNK_LENGTH") else None  # noqa: E731
        try:
            blocks = ordereval.Evaluator({"total": total}, sym).ev(e)
        except ordereval.Unsupported as ex:
            raise AnalysisError(f"C05.partition: chunking expression left the fragment: {ex}")
        n += 1
        ok = isinstance(blocks, tuple) and b"".join(blocks) == total and all(len(b) == C for b in blocks[:-1]) and all(len(b) > 0 for b in blocks) and len(blocks) == -(-L // C)
        if not ok and cex is None:
            cex = (L, [len(b) for b in blocks] if isinstance(blocks, tuple) else blocks)
    chk.exhaustive_rules.add("C05.partition")
    chk.decide(cex is None, "C05.partition", fn.qual, f"the stream is cut into ceil(len/chunk) non-empty consecutive chunks that concatenate to the stream ({n} lengths around the chunk boundaries)",
               f"stream of {cex[0]} bytes with chunk {C}: chunk lengths {cex[1]}" if cex else "", "consecutive non-empty chunks, all full but the last", A.loc(IMG, fn.node))
    pad = [n2 for n2 in A.body_of(fn.node) if isinstance(n2, ast.Assign) and norm(n2.targets[0]) == "data_blocks[-1]"]
    ok = bool(pad) and norm(pad[0].value) in ("align_block(data_blocks[-1], alignment=self.DATA_CHUNK_LENGTH)", "align_block(data_blocks[-1], self.DATA_CHUNK_LENGTH)")
    chk.decide(ok, "C05.partition", fn.qual + " padding", "the last chunk is padded to the chunk length", norm(pad[0]) if pad else "", "", A.loc(IMG, fn.node))
    tot = A.single_def(fn.node, "total")
    sh = A.single_def(fn.node, "section_header")
    ok = tot is not None and norm(A.inline_locals(fn.node, tot)) == "CmdSectionHeader(length=len(b''.join([command.export() for command in self.commands]))).export() + b''.join([command.export() for command in self.commands])"
    chk.decide(ok, "C05.partition", fn.qual + " stream", "stream = section header (length of the command bytes) followed by the commands in order", norm(A.inline_locals(fn.node, tot))[:150] if tot is not None else "", "", A.loc(IMG, fn.node))


def rule_registry(ctx) -> None:
    chk, prog = ctx.chk, ctx.prog
    m = ctx.m(CMD)
    consts = prog.module_consts(m)
    t2c, n2c = consts.get("TAG_TO_CLASS"), consts.get("CFG_NAME_TO_CLASS")
    if not isinstance(t2c, ast.Dict) or not isinstance(n2c, ast.Dict):
        raise AnalysisError("C05.registry: registries not found")
    tagmap = {norm(k).split(".")[-1]: norm(v) for k, v in zip(t2c.keys, t2c.values)}
    namemap = {prog.fold(k, m): norm(v) for k, v in zip(n2c.keys, n2c.values)}
    enum = ctx.cls(CONST, "EnumCmdTag")
    members = {k: prog.fold(v, enum.module, enum) for k, v in enum.consts.items()}
    members = {k: v for k, v in members.items() if isinstance(v, tuple) and k != "NONE"}
    chk.decide(set(tagmap) == set(members), "C05.registry", f"{CMD}::TAG_TO_CLASS", f"covers all {len(members)} command tags", f"difference {sorted(set(tagmap) ^ set(members))}", "", A.loc(CMD, t2c))
    chk.decide(sorted(tagmap.values()) == sorted(namemap.values()), "C05.registry", f"{CMD}::CFG_NAME_TO_CLASS", "configuration names map onto the same set of classes", f"{sorted(set(tagmap.values()) ^ set(namemap.values()))}", "", A.loc(CMD, n2c))
    tags = [v[0] for v in members.values()]
    chk.decide(len(set(tags)) == len(tags), "C05.registry", f"{CONST}::EnumCmdTag", "tags unique", f"{tags}", "", A.loc(CONST, enum.node))
    # each class constructs with its own tag and parse checks it
    for tag, cname in sorted(tagmap.items()):
        cls = ctx.cls(CMD, cname)
        init = prog.find_method(cls, "__init__")
        sup = [c for c in A.calls_in(init.node) if isinstance(c.func, ast.Attribute) and c.func.attr == "__init__" and norm(c.func.value) == "super()"]
        ctag = None
        if sup:
            kw = {k.arg: norm(k.value) for k in sup[0].keywords}
            ctag = kw.get("cmd_tag") or (norm(sup[0].args[0]) if sup[0].args and "EnumCmdTag" in norm(sup[0].args[0]) else None)
        chk.decide(ctag == f"EnumCmdTag.{tag}", "C05.registry", f"{CMD}::{cname}", f"registered under {tag} and constructed with the same tag", f"constructor tag {ctag}", f"EnumCmdTag.{tag}", A.loc(CMD, cls.node))
        parse = cls.method("parse")
        if parse is not None:
            hp = [c for c in A.calls_in(parse.node, "header_parse")]
            if hp:
                kw = {k.arg: norm(k.value) for k in hp[0].keywords}
                ptag = kw.get("cmd_tag") or (norm(hp[0].args[0]) if hp[0].args else None)
                chk.decide(ptag == f"EnumCmdTag.{tag}", "C05.registry", f"{CMD}::{cname}.parse", "parse verifies its own tag", f"header_parse tag {ptag}", f"EnumCmdTag.{tag}", A.loc(CMD, parse.node))
    pc = ctx.func(CMD, "parse_command")
    offs = [prog.fold(k.value, m) for c in A.calls_in(pc.node, "unpack_from") for k in c.keywords if k.arg == "offset"]
    chk.decide(offs == [12], "C05.registry", pc.qual, "dispatch reads the command tag at offset 12 (4th word of '<4L')", f"{offs}", "[12]", A.loc(CMD, pc.node))
    # database: every supported command name has a class
    db = DevDB(ctx.repo)
    n = 0
    for feat in ("sb31", "devhsm"):
        for dev, rev, f in db.iter_features(feat):
            sc = f.get("supported_commands")
            if not isinstance(sc, list):
                continue
            n += 1
            missing = [c for c in sc if c not in namemap]
            if missing:
                chk.bad("C05.registry", f"spsdk/data/devices/{dev}/database.yaml {feat}.supported_commands ({rev})", f"unknown command names {missing}", "names from CFG_NAME_TO_CLASS", f"spsdk/data/devices/{dev}/database.yaml")
    chk.ok("C05.registry", "device database supported_commands", f"{n} (device, revision, feature) lists name only registered commands")
    chk.exhaustive_rules.add("C05.registry")


def rule_pck_probe(ctx) -> None:
    """C05.pck-size: the part common key from the configuration is used at its own length (128 or 256 bit), never zero-extended."""
    chk, prog = ctx.chk, ctx.prog
    IM = "spsdk/sbfile/sb31/images.py"
    lf = ctx.own(IM, "SecureBinary31", "load_from_config")
    loops = [n for n in ast.walk(lf.node) if isinstance(n, ast.For) and "PCK_SIZES" in norm(n.iter)]
    if len(loops) != 1:
        raise AnalysisError("C05.pck-size: the PCK size probing loop was not found")
    lp = loops[0]
    sizes = prog.fold(lp.iter, lf.module, lf.cls)
    if isinstance(lp.iter, ast.Call) and norm(lp.iter.func) in ("sorted", "reversed"):
        raise AnalysisError("C05.pck-size: probing order is computed; model not applicable")
    trs = [s for s in lp.body if isinstance(s, ast.Try)]
    if not isinstance(sizes, list) or len(trs) != 1 or len(lp.body) != 1:
        raise AnalysisError(f"C05.pck-size: unexpected loop shape (sizes {sizes})")
    tr = trs[0]
    loads = [c for c in A.calls_in(ast.Module(body=tr.body, type_ignores=[]), "load_hex_string")]
    if len(loads) != 1 or norm(A.arg_of(loads[0], 1, "expected_size")) != f"{norm(lp.target)} // 8":
        raise AnalysisError("C05.pck-size: load_hex_string(.., size // 8, ..) not found in the probing loop")
    exits_on_success = any(isinstance(s, (ast.Break, ast.Return)) for s in tr.body) or any(isinstance(s, (ast.Break, ast.Return)) for s in tr.orelse)
    handler_swallows = all(not A.always_raises(h.body) and not any(isinstance(x, (ast.Break, ast.Return)) for x in h.body) for h in tr.handlers)
    # model: load_hex_string(value, n) accepts a hex value of at most n bytes (shorter values are zero-extended) and raises otherwise
    probs = []
    for key_bits in (128, 256):
        chosen = None
        for sz in sizes:
            if key_bits <= sz:
                chosen = sz
                if exits_on_success:
                    break
        if chosen != key_bits:
            probs.append(f"a {key_bits}-bit key is loaded as a {chosen}-bit key (zero-extended)")
    chk.decide(not probs and handler_swallows, "C05.pck-size", lf.qual, f"probing {sizes} {'stops at the first' if exits_on_success else 'keeps the last'} size that loads: 128- and 256-bit keys are each used at their own length",
               "; ".join(probs) or "the failure handler leaves the loop", "the smallest size that accepts the value wins", A.loc(IM, lp))


def run(ctx) -> None:
    ctx.chk.explain("C05: PackSym on the SB3.1 header and the command layouts; walk of the export call tree proving no accumulating state without reset (idempotent export); "
                    "shape of the hash chain (record layout, link update, processing order, container order and sequencing); length formulas evaluated for both hash sizes; "
                    "chunking evaluated as a partition on all lengths around the chunk boundaries; tag/name registries vs enum and all device databases; KDF record layout.")
    ctx.rule(rule_wire)
    ctx.rule(rule_idempotent)
    ctx.rule(rule_chain)
    ctx.rule(rule_formulas)
    ctx.rule(rule_partition)
    ctx.rule(rule_registry)
    ctx.rule(rule_pck_probe)
    ctx.rule(c09.rule_kdf, "C05")
    ctx.chk.assumptions = ["hash/CMAC/AES values are those of the cryptography package (C09)", "not decided: signature validity, certificate block contents (C03), per-command payload semantics"]


MANIFEST = {
    "level": "Static structural decision: the export call tree is walked to prove the 'any number of export() calls' quantifier (no state survives from one export to the next), "
             "the hash-chain shape and container order are decided on the AST, the chunking is decided as a partition on a boundary-complete set of lengths, registries are "
             "checked exhaustively against the enum and all 140 device databases.",
    "note": "Trusted: struct, the evaluators, PyYAML. Not decided: hash/CMAC/signature values, ROM acceptance at value level.",
    "technique": "static analysis: call-tree state-accumulation walk, writer/reader struct symmetry, abstract evaluation of length formulas and chunking, registry/data lint",
}
