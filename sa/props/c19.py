"""C19 BD command files mean what they say (E11 OpDispatch, E12 lex chain, E10 KeyFlow, E3 handlers, E6 refusal)."""
from __future__ import annotations

import ast
import re
from typing import Any, Dict, FrozenSet, List, Optional, Set, Tuple

from ..core import astutil as A
from ..core.loader import AnalysisError
from ..core.report import norm
from ..core.symtab import UNKNOWN, ClassInfo, FuncInfo
from ..engines import ordereval, regexlang
from ..engines.ordereval import Obj

PARSER = "spsdk/sbfile/sb2/sly_bd_parser.py"
LEXER = "spsdk/sbfile/sb2/sly_bd_lexer.py"
HELPER = "spsdk/sbfile/sb2/sb_21_helper.py"
IMAGES = "spsdk/sbfile/sb2/images.py"

BIN_REF = {"+": ast.Add, "-": ast.Sub, "*": ast.Mult, "/": ast.FloorDiv, "%": ast.Mod, "<<": ast.LShift, ">>": ast.RShift,
           "&": ast.BitAnd, "|": ast.BitOr, "^": ast.BitXor}
CMP_REF = {"<": ast.Lt, "<=": ast.LtE, ">": ast.Gt, ">=": ast.GtE, "==": ast.Eq, "!=": ast.NotEq}
BOOL_REF = {"&&": ast.And, "||": ast.Or}
# C operator precedence, lowest to highest, for the binary operators of the BD language
PREC_REF = [{"LOR"}, {"LAND"}, {"OR"}, {"XOR"}, {"AND"}, {"EQ", "NE"}, {"GT", "GE", "LT", "LE"}, {"LSHIFT", "RSHIFT"},
            {"PLUS", "MINUS"}, {"TIMES", "DIVIDE", "MOD"}]
INT_SIZE_REF = {"w": 0xFFFFFFFF, "h": 0xFFFF, "b": 0xFF}
OP_ALPHABET = "+-*/%~^<>|&=!.(){},;:?$\"a1 "


# ------------------------------------------------------------------------------- grammar model
class Grammar:
    def __init__(self, ctx):
        prog = ctx.prog
        self.ctx = ctx
        self.pcls: ClassInfo = ctx.cls(PARSER, "BDParser")
        self.lcls: ClassInfo = ctx.cls(LEXER, "BDLexer")
        self.rules: List[Tuple[str, List[str], FuncInfo]] = []  # (nonterminal, symbols, action)
        for name, fl in self.pcls.methods.items():
            for f in fl:
                for d in f.node.decorator_list:
                    if isinstance(d, ast.Call) and isinstance(d.func, ast.Name) and d.func.id == "_":
                        for a in d.args:
                            v = prog.fold(a, f.module)
                            if not isinstance(v, str):
                                raise AnalysisError(f"C19: production of {name} does not fold to a string")
                            self.rules.append((name, v.split(), f))
                        ctx.chk.analysed(f.qual + "@" + str(f.node.lineno))
        if len(self.rules) < 100:
            raise AnalysisError(f"C19: only {len(self.rules)} grammar productions found (expected > 100)")
        self.nts = {r[0] for r in self.rules}
        # lexer tokens in definition order
        self.tokens: List[Tuple[str, str, bool]] = []  # (name, regex, is_function)
        for st in self.lcls.node.body:
            if isinstance(st, ast.Assign) and len(st.targets) == 1 and isinstance(st.targets[0], ast.Name) and st.targets[0].id.isupper():
                v = prog.fold(st.value, self.lcls.module)
                if isinstance(v, str):
                    self.tokens.append((st.targets[0].id, v, False))
            elif isinstance(st, ast.FunctionDef):
                for d in st.decorator_list:
                    if isinstance(d, ast.Call) and isinstance(d.func, ast.Name) and d.func.id == "_" and d.args:
                        v = prog.fold(d.args[0], self.lcls.module)
                        if isinstance(v, str) and st.name.isupper():
                            self.tokens.append((st.name, v, True))
        self.reserved: Dict[str, str] = {}
        rv = prog.fold(self.lcls.consts.get("reserved"), self.lcls.module, self.lcls)
        if not isinstance(rv, dict):
            raise AnalysisError("C19: BDLexer.reserved does not fold to a dict")
        self.reserved = rv
        self.kw_of_token = {v: k for k, v in rv.items()}
        tl = prog.fold(self.lcls.consts.get("tokens"), self.lcls.module, self.lcls)
        self.token_names: Set[str] = set(tl) if isinstance(tl, list) else set()
        if not self.token_names:
            # tokens = [...] + list(reserved.values())
            tn = self.lcls.consts.get("tokens")
            if isinstance(tn, ast.BinOp) and isinstance(tn.left, ast.List):
                base = prog.fold(tn.left, self.lcls.module, self.lcls)
                if isinstance(base, list):
                    self.token_names = set(base) | set(rv.values())
        if not self.token_names:
            raise AnalysisError("C19: BDLexer.tokens does not fold")
        lit = prog.fold(self.lcls.consts.get("literals"), self.lcls.module, self.lcls)
        self.literals = set()
        lt = self.lcls.consts.get("literals")
        if isinstance(lt, ast.Set):
            self.literals = {x.value for x in lt.elts if isinstance(x, ast.Constant)}
        self._lit_cache: Dict[str, Optional[str]] = {}

    def literal_of(self, token: str) -> Optional[str]:
        """The single string a string-pattern token denotes (None if not a single literal)."""
        if token in self._lit_cache:
            return self._lit_cache[token]
        res = None
        for name, rx, is_fn in self.tokens:
            if name == token and not is_fn:
                try:
                    lang = regexlang.Lang(rx, "fullmatch", 0, OP_ALPHABET)
                    words = regexlang.enumerate_lang(lang, 4, 3)
                    if len(words) == 1:
                        res = words[0]
                except regexlang.Unsupported:
                    res = None
        if res is None and token in self.kw_of_token:
            res = self.kw_of_token[token]
        self._lit_cache[token] = res
        return res

    def rules_of(self, nt: str):
        return [r for r in self.rules if r[0] == nt]


# --------------------------------------------------------------------------------- op table
def _dispatch_branches(fn: FuncInfo, var_expr: str):
    """`op = token[1]` ... decisions on `op == "<lit>"` -> (op, {lit: [returning/raising paths taken when op is that literal]}, paths
    taken when op is none of the tested literals).  Built on guarded paths, so an if-chain, an if/elif/else ladder, inverted guards
    and an early-exit layout of the same dispatch give the same table; a second branch for a literal is infeasible and never seen."""
    var = None
    for st in A.body_of(fn.node):
        if isinstance(st, ast.Assign) and isinstance(st.targets[0], ast.Name) and norm(st.value) == var_expr:
            var = st.targets[0].id
    if var is None:
        return None, {}, []
    by_lit: Dict[str, list] = {}
    other = []
    pre = f"{var} == "
    for q in A.gpaths(fn.node):
        pos = [c for c, p in q.conds if p and c.startswith(pre)]
        if not pos:
            other.append(q)
        for c in pos:
            try:
                by_lit.setdefault(ast.literal_eval(c[len(pre):]), []).append(q)
            except (ValueError, SyntaxError):
                pass
    return var, by_lit, other


def rule_op_table(ctx, g: Grammar) -> None:
    chk = ctx.chk
    n_branches = 0
    for nt, ref_sets in (("expr", [BIN_REF]), ("bool_expr", [CMP_REF, BOOL_REF])):
        ref: Dict[str, Any] = {}
        for r in ref_sets:
            ref.update(r)
        # the action that serves the binary productions
        acts = {}
        for name, syms, f in g.rules_of(nt):
            if len(syms) == 3 and syms[0] == nt and syms[2] == nt:
                acts.setdefault(f.node.lineno, (f, []))[1].append(syms[1])
        if not acts:
            raise AnalysisError(f"C19.op-table: no binary productions for {nt}")
        import operator as _op
        PY = {ast.Add: _op.add, ast.Sub: _op.sub, ast.Mult: _op.mul, ast.FloorDiv: _op.floordiv, ast.Mod: _op.mod, ast.LShift: _op.lshift, ast.RShift: _op.rshift,
              ast.BitAnd: _op.and_, ast.BitOr: _op.or_, ast.BitXor: _op.xor, ast.Lt: _op.lt, ast.LtE: _op.le, ast.Gt: _op.gt, ast.GtE: _op.ge, ast.Eq: _op.eq, ast.NotEq: _op.ne,
              ast.And: lambda x, y: x and y, ast.Or: lambda x, y: x or y}
        pairs = [(13, 5), (-9, 4), (6, 3), (0, 7), (2, 0), (4, 4), (0, 0)]
        for _ln, (f, toks) in acts.items():
            # the action evaluated on model tokens: for every operator literal the grammar accepts the result must be the reference
            # operation on (operand 0, operand 1) - an if-chain, a table of operator functions or a match all evaluate alike
            def run_action(items, **attrs):
                tok_o = Obj(_items=tuple(items), **attrs)
                try:
                    return ordereval.Evaluator({"self": Obj(), "token": tok_o}, ctx.fold_sym(f), opaque_return=False).run(A.body_of(f.node))
                except ordereval.Unsupported as ex:
                    raise AnalysisError(f"C19.op-table: {f.qual} left the fragment: {ex}")
            for tok in toks:
                lit = g.literal_of(tok)
                construct = f"{PARSER}::BDParser.{nt} `{nt} {tok} {nt}`"
                if lit is None:
                    raise AnalysisError(f"C19.op-table: token {tok} does not denote a single literal")
                if lit not in ref:
                    raise AnalysisError(f"C19.op-table: no reference semantics for operator {lit!r}")
                n_branches += 1
                pyf = PY[ref[lit]]
                probs = []
                for x, y in pairs:
                    if ref[lit] in (ast.FloorDiv, ast.Mod) and y == 0:
                        continue
                    if ref[lit] in (ast.LShift, ast.RShift) and (y < 0 or y > 64):
                        continue
                    out = run_action([x, lit, y], **{f"{nt}0": x, f"{nt}1": y})
                    want_v = pyf(x, y)
                    if not (out.kind == "return" and out.value == want_v and type(out.value) is type(want_v)):
                        probs.append(f"{x} {lit} {y} evaluates to {out.value!r} ({out.kind}), expected {want_v!r}")
                chk.decide(not probs, "C19.op-table", construct, f"{lit!r} -> {ref[lit].__name__}(token.{nt}0, token.{nt}1) on {len(pairs)} operand pairs",
                           "; ".join(probs[:2]), f"token.{nt}0 {lit} token.{nt}1 with Python operator {ref[lit].__name__}", A.loc(PARSER, f.node))
            # parenthesised form: the inner value is returned
            out = run_action(["(", 4711, ")"], **{f"{nt}": 4711})
            chk.decide(out.kind == "return" and out.value == 4711, "C19.op-table", f"{PARSER}::BDParser.{nt} `LPAREN {nt} RPAREN`",
                       "parenthesised expression returns its inner value", f"{out.kind} {out.value!r}", "return token[1]", A.loc(PARSER, f.node))
    chk.floor("C19.op-table", 18)
    # integer size suffixes
    for name, syms, f in g.rules_of("expr"):
        if syms == ["expr", "PERIOD", "INT_SIZE"]:
            for ch, want in INT_SIZE_REF.items():
                V = 0x1234_5678_9ABC_DEF1
                try:
                    out = ordereval.Evaluator({"self": Obj(), "token": Obj(_items=(V, ".", ch), INT_SIZE=ch, expr=V, expr0=V)}, ctx.fold_sym(f), opaque_return=False).run(A.body_of(f.node))
                except ordereval.Unsupported as ex:
                    raise AnalysisError(f"C19.int-size: {f.qual} left the fragment: {ex}")
                got_m = out.value if out.kind == "return" else None
                chk.decide(got_m == V & want, "C19.int-size", f"{PARSER}::BDParser.expr `.{ch}`", f"suffix .{ch} masks with {hex(want)}",
                           f"suffix .{ch}: {hex(V)} becomes {hex(got_m) if isinstance(got_m, int) else got_m}", f"{hex(want)} (word/half-word/byte = 32/16/8 bits)", A.loc(PARSER, f.node))
    # unary
    for name, syms, f in g.rules_of("unary_expr"):
        pass
    un = {tuple(s) for n, s, f in g.rules_of("unary_expr")}
    fn = [f for n, s, f in g.rules_of("unary_expr")]
    if not fn:
        raise AnalysisError("C19.unary: unary_expr rule missing")
    f = fn[0]
    for sign, val, want in (("-", 7, -7), ("+", 7, 7), ("-", -3, 3)):
        def sym(x, sign=sign, val=val):
            t = norm(x)
            if t == "token[0]":
                return {"-": 1001, "+": 1002}[sign]
            if isinstance(x, ast.Constant) and x.value in ("-", "+"):
                return {"-": 1001, "+": 1002}[x.value]
            if t == "token.expr" or t == "token[1]":
                return val
            return None
        try:
            out = ordereval.Evaluator({}, sym, opaque_return=False).run(A.body_of(f.node))
        except ordereval.Unsupported as e:
            raise AnalysisError(f"C19.unary: unary_expr left the fragment: {e}")
        chk.decide(out.kind == "return" and out.value == want, "C19.unary", f"{PARSER}::BDParser.unary_expr `{sign} expr`", f"{sign}({val}) = {want}",
                   f"{sign}({val}) evaluates to {out.value}", f"{want}", A.loc(PARSER, f.node))
    # logical not
    for name, syms, f in g.rules_of("bool_expr"):
        if syms == ["LNOT", "bool_expr"]:
            r = A.returns_in(f.node)
            chk.decide(len(r) == 1 and norm(r[0].value) == "not token.bool_expr", "C19.unary", f"{PARSER}::BDParser.bool_expr `LNOT bool_expr`",
                       "! negates", norm(r[0]) if r else "", "return not token.bool_expr", A.loc(PARSER, f.node))


# ---------------------------------------------------------------------------- lexer chain
def rule_lex_chain(ctx, g: Grammar) -> None:
    chk = ctx.chk
    lits = [(name, g.literal_of(name)) for name, rx, is_fn in g.tokens if not is_fn]
    lits = [(n, l) for n, l in lits if l is not None and n not in g.kw_of_token]
    if len(lits) < 30:
        raise AnalysisError(f"C19.lex-chain: only {len(lits)} literal tokens recognised")
    # reference literal of each operator token the parser dispatches on
    want = {"PLUS": "+", "MINUS": "-", "TIMES": "*", "DIVIDE": "/", "MOD": "%", "NOT": "~", "XOR": "^", "LSHIFT": "<<", "RSHIFT": ">>",
            "LOR": "||", "OR": "|", "LAND": "&&", "AND": "&", "LE": "<=", "LT": "<", "GE": ">=", "GT": ">", "EQ": "==", "NE": "!=", "LNOT": "!",
            "RANGE": "..", "ASSIGN": "=", "LPAREN": "(", "RPAREN": ")", "LBRACE": "{", "RBRACE": "}", "COMMA": ",", "PERIOD": ".", "SEMI": ";",
            "COLON": ":", "QUESTIONMARK": "?", "DOLLAR": "$"}
    got = dict(lits)
    for tok, lit in want.items():
        chk.decide(got.get(tok) == lit, "C19.lex-literal", f"{LEXER}::BDLexer.{tok}", f"pattern denotes exactly {lit!r}",
                   f"pattern denotes {got.get(tok)!r}", f"{lit!r}", LEXER)
    # SLY tries the patterns in definition order: an earlier token that matches a proper prefix of a later literal shadows it
    order = [n for n, _rx, _f in g.tokens]
    n_pairs = 0
    for i, (a, la) in enumerate(lits):
        for b, lb in lits[i + 1:]:
            n_pairs += 1
            if lb.startswith(la) and lb != la:
                chk.bad("C19.lex-order", f"{LEXER}::BDLexer {a} before {b}", f"{a} ({la!r}) is defined before {b} ({lb!r}) and always wins; {lb!r} is never produced",
                        "longer operators must be defined first (SLY matches in definition order)", LEXER)
    # function tokens defined earlier must not swallow a prefix of a later literal
    for idx, (name, rx, is_fn) in enumerate(g.tokens):
        if not is_fn or name in ("IDENT", "INT_LITERAL", "INT_SIZE"):
            continue
        try:
            lang = regexlang.Lang(rx.replace("(.|\\s)*?", "[^#]*"), "match", 0, OP_ALPHABET + "#")
        except regexlang.Unsupported:
            continue
        for b, lb in lits:
            if order.index(b) < idx:
                continue
            st = lang.initial()
            for k, ch in enumerate(lb):
                st = lang.step(st, ch)
                # accepted as a full token only if the match may end here (mode 'match' accepts any suffix)
            # exact prefix acceptance needs fullmatch automaton
            fm = None
            try:
                fm = regexlang.Lang(rx.replace("(.|\\s)*?", "[^#]*"), "fullmatch", 0, OP_ALPHABET + "#")
            except regexlang.Unsupported:
                continue
            st = fm.initial()
            for k, ch in enumerate(lb):
                st = fm.step(st, ch)
                if fm.accepting(st):
                    chk.bad("C19.lex-order", f"{LEXER}::BDLexer {name} before {b}", f"{name} matches {lb[:k + 1]!r}, a prefix of {b} {lb!r}", "earlier pattern shadows the operator", LEXER)
                    break
    chk.ok("C19.lex-order", f"{LEXER}::BDLexer", f"{n_pairs} ordered pairs of literal tokens: no earlier literal is a proper prefix of a later one")
    # every terminal a production uses is a lexer token or literal
    missing = set()
    n_sym = 0
    for nt, syms, f in g.rules:
        for s in syms:
            n_sym += 1
            if s in g.nts or s == "":
                continue
            if s.startswith("'"):
                if s.strip("'") not in g.literals:
                    missing.add(s)
            elif s not in g.token_names:
                missing.add(s)
    chk.decide(not missing, "C19.terminals", f"{PARSER}::BDParser", f"{n_sym} grammar symbols: every terminal is a lexer token/literal, every other symbol a rule",
               f"unknown grammar symbols {sorted(missing)}", "", PARSER)
    # reserved words map to the token type of the same meaning (keyword -> KEYWORD)
    bad = {k: v for k, v in g.reserved.items() if v != k.upper()}
    chk.decide(not bad, "C19.reserved", f"{LEXER}::BDLexer.reserved", f"{len(g.reserved)} keywords map to their own token type", f"keyword/token mismatch {bad}", "keyword.upper()", LEXER)


def rule_precedence(ctx, g: Grammar) -> None:
    prec = ctx.prog.fold(g.pcls.consts.get("precedence"), g.pcls.module, g.pcls)
    if not isinstance(prec, tuple):
        raise AnalysisError("C19.precedence: BDParser.precedence does not fold")
    binary = [(lvl[0], set(lvl[1:])) for lvl in prec if set(lvl[1:]) & set().union(*PREC_REF)]
    got = [s for _a, s in binary]
    ctx.chk.decide(got == PREC_REF and all(a == "left" for a, _s in binary), "C19.precedence", f"{PARSER}::BDParser.precedence",
                   "binary operator levels equal the C order (|| < && < | < ^ < & < ==,!= < relational < shifts < +,- < *,/,%), all left associative",
                   f"levels (lowest first): {[sorted(s) for s in got]} assoc {[a for a, _ in binary]}", f"{[sorted(s) for s in PREC_REF]} all 'left'", PARSER)
    # unary operators bind tighter than every binary one
    names = [set(l[1:]) for l in prec]
    idx_un = [i for i, s in enumerate(names) if s & {"LNOT", "NOT"}]
    idx_bin = [i for i, s in enumerate(names) if s & set().union(*PREC_REF)]
    ctx.chk.decide(bool(idx_un) and min(idx_un) > max(idx_bin), "C19.precedence", f"{PARSER}::BDParser.precedence unary", "unary !/~ bind tighter than all binary operators",
                   f"unary level index {idx_un}, binary levels up to {max(idx_bin)}", "", PARSER)


# -------------------------------------------------------------------------------- key flow
class AV:
    """Abstract value of a semantic action. 'dict': set of alternatives (frozensets of keys); 'cmd': {name: set of alternatives};
    'str': set of strings; 'top'; 'bot'."""
    def __init__(self, kind: str, data: Any = None):
        self.kind, self.data = kind, data

    def __repr__(self) -> str:
        return f"{self.kind}:{self.data}"

    def copy(self) -> "AV":
        if self.kind in ("dict", "str"):
            return AV(self.kind, set(self.data))
        if self.kind == "cmd":
            return AV("cmd", {k: set(v) for k, v in self.data.items()})
        return AV(self.kind, self.data)


EMPTY = frozenset()


def join(a: AV, b: AV) -> AV:
    if a.kind == "bot":
        return b.copy()
    if b.kind == "bot":
        return a.copy()
    if a.kind == b.kind and a.kind in ("dict", "str"):
        return AV(a.kind, set(a.data) | set(b.data))
    if a.kind == b.kind == "cmd":
        d = {k: set(v) for k, v in a.data.items()}
        for k, v in b.data.items():
            d[k] = d.get(k, set()) | v
        return AV("cmd", d)
    if a.kind == "dict" and a.data <= {EMPTY} and b.kind == "cmd":
        return b.copy()
    if b.kind == "dict" and b.data <= {EMPTY} and a.kind == "cmd":
        return a.copy()
    return AV("top")


def cross(a: Set[FrozenSet[str]], b: Set[FrozenSet[str]]) -> Set[FrozenSet[str]]:
    return {x | y for x in (a or {EMPTY}) for y in (b or {EMPTY})}


class KeyFlow:
    """Path-sensitive abstract interpretation of the grammar's semantic actions (dict-building fragment)."""

    def __init__(self, g: Grammar):
        self.g = g
        self.memo: Dict[str, AV] = {}
        self.active: Set[str] = set()

    def nt(self, name: str) -> AV:
        if name in self.memo:
            return self.memo[name]
        if name in self.active:
            return AV("bot")
        self.active.add(name)
        v = AV("bot")
        seen = set()
        for nt, syms, f in self.g.rules_of(name):
            key = (f.node.lineno, tuple(syms))
            if key in seen:
                continue
            seen.add(key)
            v = join(v, self.action(f, syms))
        self.active.discard(name)
        self.memo[name] = v
        return v

    def sym_value(self, s: str) -> AV:
        if s in self.g.nts:
            return self.nt(s)
        lit = self.g.literal_of(s)
        if lit is not None:
            return AV("str", {lit})
        return AV("top")

    def action(self, f: FuncInfo, syms: List[str]) -> AV:
        res = [AV("bot")]
        g = self.g

        def tok_name(e: ast.expr) -> Optional[str]:
            if isinstance(e, ast.Attribute) and isinstance(e.value, ast.Name) and e.value.id == "token":
                a = e.attr
                return a if (a in g.nts or a in g.token_names) else a.rstrip("0123456789")
            return None

        def ev(e: ast.expr, env: Dict[str, AV], refine: Dict[str, List[Tuple[str, str]]]) -> AV:
            if isinstance(e, ast.Constant) and isinstance(e.value, str):
                return AV("str", {e.value})
            if isinstance(e, ast.Name):
                return env[e.id].copy() if e.id in env else AV("top")
            tn = tok_name(e)
            if tn is not None:
                if tn == "empty":
                    return AV("dict", {EMPTY})
                v = self.sym_value(tn).copy()
                if v.kind == "dict":
                    for how, k in refine.get(tn, []):
                        v.data = {a for a in v.data if (k in a) == (how == "has")}
                return v
            if isinstance(e, ast.Subscript) and norm(e.value) == "token" and isinstance(e.slice, ast.Constant) and isinstance(e.slice.value, int):
                i = e.slice.value
                return self.sym_value(syms[i]).copy() if i < len(syms) else AV("top")
            if isinstance(e, ast.Dict):
                flat: Set[str] = set()
                cmd: Dict[str, Set[FrozenSet[str]]] = {}
                for k, v in zip(e.keys, e.values):
                    if k is None:
                        return AV("top")
                    kv = ev(k, env, refine)
                    if kv.kind != "str":
                        return AV("top")
                    inner = ev(v, env, refine) if isinstance(v, (ast.Dict, ast.Name)) else None
                    if isinstance(v, ast.Dict) or (inner is not None and inner.kind == "dict" and not isinstance(k, ast.Constant)):
                        # {<statement name>: {operands}} - the operand dictionary written in place or built up in a local
                        for name in kv.data:
                            cmd[name] = set(inner.data) if inner.kind == "dict" else {EMPTY}
                    else:
                        flat |= kv.data
                if cmd and not flat:
                    return AV("cmd", cmd)
                if cmd and flat:
                    return AV("top")
                return AV("dict", {frozenset(flat)})
            if isinstance(e, ast.Call) and isinstance(e.func, ast.Attribute) and e.func.attr == "get" and e.args and isinstance(e.args[0], ast.Constant):
                base = ev(e.func.value, env, refine)
                if base.kind == "cmd" and e.args[0].value in base.data:
                    return AV("dict", set(base.data[e.args[0].value]))
                return AV("top")
            if isinstance(e, ast.BinOp) and isinstance(e.op, ast.Add):
                return join(ev(e.left, env, refine), ev(e.right, env, refine))
            return AV("top")

        def add_alts(target: ast.expr, alts: Set[FrozenSet[str]], env, refine) -> None:
            if isinstance(target, ast.Subscript) and isinstance(target.value, ast.Name):
                d = env.get(target.value.id)
                kv = ev(target.slice, env, refine)
                if d is not None and d.kind == "cmd" and kv.kind == "str":
                    for name in kv.data:
                        if name in d.data:
                            d.data[name] = cross(d.data[name], alts)
                    return
            if isinstance(target, ast.Name):
                d = env.get(target.id)
                if d is not None and d.kind == "dict":
                    d.data = cross(d.data, alts)

        def refinements(test: ast.expr) -> Dict[str, List[Tuple[str, str]]]:
            out: Dict[str, List[Tuple[str, str]]] = {}
            conj = test.values if isinstance(test, ast.BoolOp) and isinstance(test.op, ast.And) else [test]
            for c in conj:
                if isinstance(c, ast.Compare) and len(c.ops) == 1 and isinstance(c.comparators[0], ast.Constant) and c.comparators[0].value is None:
                    l = c.left
                    if isinstance(l, ast.Call) and isinstance(l.func, ast.Attribute) and l.func.attr == "get" and l.args and isinstance(l.args[0], ast.Constant):
                        tn = tok_name(l.func.value)
                        if tn is not None:
                            how = "has" if isinstance(c.ops[0], ast.IsNot) else "lacks" if isinstance(c.ops[0], ast.Is) else None
                            if how:
                                out.setdefault(tn, []).append((how, l.args[0].value))
            return out

        def run(stmts: List[ast.stmt], env: Dict[str, AV], refine: Dict[str, List[Tuple[str, str]]]) -> None:
            for i, st in enumerate(stmts):
                if isinstance(st, ast.Expr) and isinstance(st.value, ast.Call):
                    c = st.value
                    if norm(c.func) == "self.error":
                        return
                    if isinstance(c.func, ast.Attribute) and c.func.attr == "update" and c.args:
                        v = ev(c.args[0], env, refine)
                        if v.kind == "dict":
                            add_alts(c.func.value, set(v.data), env, refine)
                    continue
                if isinstance(st, (ast.Assign, ast.AnnAssign)):
                    tgt = st.targets[0] if isinstance(st, ast.Assign) else st.target
                    if st.value is None:
                        continue
                    if isinstance(tgt, ast.Name):
                        env[tgt.id] = ev(st.value, env, refine)
                    elif isinstance(tgt, ast.Subscript):
                        kv = ev(tgt.slice, env, refine)
                        if kv.kind == "str":
                            if isinstance(tgt.value, ast.Subscript):
                                add_alts(tgt.value, {frozenset(kv.data)}, env, refine)
                            elif isinstance(tgt.value, ast.Name):
                                d = env.get(tgt.value.id)
                                if d is not None and d.kind == "dict":
                                    d.data = cross(d.data, {frozenset(kv.data)})
                    continue
                if isinstance(st, ast.If):
                    rest = list(stmts[i + 1:])
                    pos = refinements(st.test)
                    for branch, extra in ((list(st.body), pos), (list(st.orelse), {})):
                        env2 = {k: v.copy() for k, v in env.items()}
                        ref2 = {k: list(v) for k, v in refine.items()}
                        for k, v in extra.items():
                            ref2.setdefault(k, []).extend(v)
                        run(branch + rest, env2, ref2)
                    return
                if isinstance(st, ast.For):
                    rest = list(stmts[i + 1:])
                    env2 = {k: v.copy() for k, v in env.items()}
                    run(list(st.body) + rest, env2, refine)
                    run(rest, env, refine)
                    return
                if isinstance(st, ast.Return):
                    if st.value is not None:
                        res[0] = join(res[0], ev(st.value, env, refine))
                    return

        run(A.body_of(f.node), {}, {})
        return res[0]


# keys a statement can carry that the handler deliberately does not read, one reason each
KEYFLOW_EXCEPTIONS = {
    ("load", "length"): "for file/blob loads the data length defines the extent; the range end is advisory",
    ("encrypt", "length"): "same as load: the data length defines the extent",
    ("encrypt", "pattern"): "pattern source is refused by the handler (raises for anything but file/values)",
    ("encrypt", "load_opt"): "encrypt always loads through the key blob range; memory option is not part of the command",
    ("keystore_to_nv", "length"): "the command has no length operand",
    ("keystore_from_nv", "length"): "the command has no length operand",
    ("keywrap", "keyblobs"): "injected by load_from_config",
}


def handler_reads(ctx, helper: ClassInfo, fn: FuncInfo, depth: int = 0) -> Tuple[Set[str], Set[str]]:
    """(all keys read, keys required by subscript) from `cmd_args` in a handler, following self._x(cmd_args)."""
    allk: Set[str] = set()
    req: Set[str] = set()
    params = fn.params()
    arg = params[1] if len(params) > 1 else "cmd_args"
    for n in A.walk_no_nested(fn.node):
        if isinstance(n, ast.Subscript) and isinstance(n.value, ast.Name) and n.value.id == arg and isinstance(n.slice, ast.Constant):
            allk.add(n.slice.value)
            req.add(n.slice.value)
        if isinstance(n, ast.Call) and isinstance(n.func, ast.Attribute) and n.func.attr == "get" and isinstance(n.func.value, ast.Name) \
                and n.func.value.id == arg and n.args and isinstance(n.args[0], ast.Constant):
            allk.add(n.args[0].value)
        if isinstance(n, ast.Call) and isinstance(n.func, ast.Attribute) and isinstance(n.func.value, ast.Name) and n.func.value.id == "self" \
                and any(isinstance(a, ast.Name) and a.id == arg for a in n.args) and depth < 3:
            sub = ctx.prog.find_method(helper, n.func.attr)
            if sub is not None:
                a2, _r2 = handler_reads(ctx, helper, sub, depth + 1)
                allk |= a2
    return allk, req


def command_table(ctx, g: Grammar) -> Dict[str, Set[str]]:
    kf = KeyFlow(g)
    table: Dict[str, Set[str]] = {}
    stmt_nts = set()
    for nt, syms, f in g.rules_of("statement") + g.rules_of("in_from_stmt"):
        for s in syms:
            if s in g.nts and s not in ("statement", "from_stmt", "if_stmt", "empty", "in_from_stmt"):
                stmt_nts.add(s)
    if not stmt_nts:
        raise AnalysisError("C19.key-flow: no statement non-terminals found")
    for nt in sorted(stmt_nts):
        v = kf.nt(nt)
        if v.kind == "cmd":
            for k, alts in v.data.items():
                table[k] = table.get(k, set()) | set().union(*alts) if alts else table.get(k, set())
        elif v.kind != "bot":
            raise AnalysisError(f"C19.key-flow: value of statement non-terminal {nt} is not a command dictionary ({v.kind})")
    return table


def rule_handlers_keyflow(ctx, g: Grammar) -> None:
    chk = ctx.chk
    prog = ctx.prog
    helper = ctx.cls(HELPER, "SB21Helper")
    init = ctx.own(HELPER, "SB21Helper", "__init__")
    cmds_node = None
    for st in A.walk_no_nested(init.node):
        if isinstance(st, ast.Assign) and norm(st.targets[0]) == "self.cmds" and isinstance(st.value, ast.Dict):
            cmds_node = st.value
    if cmds_node is None:
        raise AnalysisError("C19.handlers: SB21Helper.cmds literal not found")
    registry: Dict[str, str] = {}
    for k, v in zip(cmds_node.keys, cmds_node.values):
        if isinstance(k, ast.Constant) and isinstance(v, ast.Attribute):
            registry[k.value] = v.attr
    table = command_table(ctx, g)
    chk.extra["bd_command_table"] = {k: sorted(v) for k, v in sorted(table.items())}
    if len(table) < 10:
        raise AnalysisError(f"C19.handlers: only {len(table)} command names derived from the grammar: {sorted(table)}")
    for cmd, keys in sorted(table.items()):
        construct = f"BD statement `{cmd}`"
        if cmd not in registry:
            chk.bad("C19.handlers", construct, f"no handler for command {cmd!r} in SB21Helper.cmds (KeyError instead of a command)", "every statement the grammar accepts has a handler", A.loc(HELPER, cmds_node))
            continue
        chk.ok("C19.handlers", construct, f"handled by SB21Helper.{registry[cmd]}")
        h = prog.find_method(helper, registry[cmd])
        if h is None:
            chk.bad("C19.handlers", construct, f"handler {registry[cmd]} is not a method of SB21Helper", "", A.loc(HELPER, cmds_node))
            continue
        chk.analysed(h.qual)
        reads, req = handler_reads(ctx, helper, h)
        for k in sorted(keys):
            if (cmd, k) in KEYFLOW_EXCEPTIONS:
                chk.report(f"C19.key-flow exception ({cmd}, {k}): {KEYFLOW_EXCEPTIONS[(cmd, k)]}")
                continue
            chk.decide(k in reads, "C19.key-flow", f"{construct} operand `{k}`", f"read by SB21Helper.{registry[cmd]}",
                       f"the parser produces operand `{k}` for `{cmd}` but SB21Helper.{registry[cmd]} never reads it (operand silently dropped)",
                       f"cmd_args[{k!r}] / cmd_args.get({k!r}) in the handler", A.loc(HELPER, h.node))
        injected = {"keyblobs"}
        for k in sorted(req - keys - injected):
            chk.bad("C19.key-flow", f"{construct} required `{k}`", f"handler requires cmd_args[{k!r}] which no production of `{cmd}` can produce", "", A.loc(HELPER, h.node))
    chk.floor("C19.handlers", 10)
    chk.floor("C19.key-flow", 20)


# argument routing inside handlers: ctor parameter <- cmd_args key
ROUTES = {
    "_fill_memory": ("CmdFill", {"address": {"address"}, "pattern": {"pattern"}, "length": {"length"}}),
    "_erase_cmd_handler": ("CmdErase", {"address": {"address"}, "length": {"length"}, "flags": {"flags"}, "mem_id": {"mem_opt"}}),
    "_enable": ("CmdMemEnable", {"address": {"address"}, "size": {"size"}, "mem_id": {"mem_opt"}}),
    "_jump": ("CmdJump", {"address": {"address"}, "argument": {"argument"}, "spreg": {"spreg"}}),
    "_call": ("CmdCall", {"address": {"address"}, "argument": {"argument"}}),
    "_version_check": ("CmdVersionCheck", {"ver_type": {"ver_type"}, "version": {"fw_version"}}),
    "_keystore_to_nv": ("CmdKeyStoreRestore", {"address": {"address"}, "controller_id": {"mem_opt"}}),
    "_keystore_from_nv": ("CmdKeyStoreBackup", {"address": {"address"}, "controller_id": {"mem_opt"}}),
    "_prog": ("CmdProg", {"address": {"address"}, "mem_id": {"load_opt"}}),
    "_load": ("CmdLoad", {"address": {"address"}, "mem_id": {"load_opt"}}),
}


def _keys_in(fn: FuncInfo, e: ast.expr, arg: str) -> Set[str]:
    e2 = A.inline_locals_multi(fn.node, e)
    out = set()
    for n in ast.walk(e2):
        if isinstance(n, ast.Subscript) and isinstance(n.value, ast.Name) and n.value.id == arg and isinstance(n.slice, ast.Constant):
            out.add(n.slice.value)
        if isinstance(n, ast.Call) and isinstance(n.func, ast.Attribute) and n.func.attr == "get" and isinstance(n.func.value, ast.Name) and n.func.value.id == arg \
                and n.args and isinstance(n.args[0], ast.Constant):
            out.add(n.args[0].value)
    return out


def rule_routing(ctx, g: Grammar) -> None:
    prog = ctx.prog
    helper = ctx.cls(HELPER, "SB21Helper")
    n = 0
    for hname, (ctor, routes) in ROUTES.items():
        fn = ctx.own(HELPER, "SB21Helper", hname)
        arg = fn.params()[1]
        calls = [c for c in A.calls_in(fn.node, ctor)]
        if not calls:
            raise AnalysisError(f"C19.handler-routing: no {ctor}(...) call in {fn.qual}")
        k = prog.resolve(fn.module, ctor)
        if not isinstance(k, ClassInfo):
            raise AnalysisError(f"C19.handler-routing: {ctor} does not resolve to a class")
        init = prog.find_method(k, "__init__")
        pnames = init.params()[1:] if init else []
        for c in calls:
            bound: Dict[str, ast.expr] = {}
            for i, a in enumerate(c.args):
                if i < len(pnames):
                    bound[pnames[i]] = a
            for kw in c.keywords:
                if kw.arg:
                    bound[kw.arg] = kw.value
            for p, want in routes.items():
                if p not in bound:
                    if p in ("length", "flags", "size", "spreg", "argument"):
                        ctx.chk.bad("C19.handler-routing", f"{fn.qual} -> {ctor}.{p}", f"{ctor}(...) is built without `{p}`", f"{p} <- cmd_args[{sorted(want)[0]!r}]", A.loc(HELPER, c))
                    continue
                got = _keys_in(fn, bound[p], arg)
                n += 1
                ctx.chk.decide(got == want, "C19.handler-routing", f"{fn.qual} -> {ctor}.{p}", f"parameter `{p}` is computed from operand {sorted(want)}",
                               f"{ctor} parameter `{p}` is computed from operands {sorted(got)}: {norm(bound[p])[:80]}", f"operand {sorted(want)}", A.loc(HELPER, c))
    ctx.chk.floor("C19.handler-routing", 20)


def rule_handler_model(ctx, g: Grammar) -> None:
    """C19.handler-model: every statement handler of SB21Helper evaluated as a whole function on model operand dictionaries; command
    constructors, file loading and the numeric helpers of spsdk.utils.misc are leaves.  What comes out must be the one command the
    statement prescribes, with the stated operands, the documented defaults for omitted operands, the load -> program switch for the
    fuse / IFR memory (id 4), the 4 / 8 byte split of a programmed blob and the refusal of operands that do not fit."""
    import struct as _struct
    prog = ctx.prog
    helper = ctx.cls(HELPER, "SB21Helper")
    Obj = ordereval.Obj

    def swap32(x: int) -> int:
        return int.from_bytes(x.to_bytes(4, "big"), "little")

    def nbytes(v: int) -> int:
        n_ = max(1, (v.bit_length() + 7) // 8)
        return n_ if n_ <= 2 else -(-n_ // 4) * 4

    def leaves(c: ast.Call, ev):
        f = norm(c.func)
        name = A.call_name(c)
        if name and name.startswith("Cmd") and name[3:4].isupper():
            k = prog.resolve(helper.module, name)
            init = prog.find_method(k, "__init__") if isinstance(k, ClassInfo) else None
            pn = init.params()[1:] if init else []
            bound = {}
            for i, a_ in enumerate(c.args):
                bound[pn[i] if i < len(pn) else f"#{i}"] = ev.ev(a_)
            for kw in c.keywords:
                bound[kw.arg or "**"] = ev.ev(kw.value)
            return (name, tuple(sorted(bound.items(), key=lambda kv: kv[0])))
        if f == "value_to_int" and len(c.args) == 1:
            v = ev.ev(c.args[0])
            if isinstance(v, (bytes, bytearray)):
                return int.from_bytes(v, "big")
            if isinstance(v, str):
                try:
                    return int(v, 0)
                except ValueError:
                    raise ordereval.ModelRaise(ordereval.Outcome("raise", None, c))
            return v
        if f == "load_binary":
            return b"FILE:" + str(ev.ev(c.args[0])).encode()
        if f == "self.get_mem_id" and len(c.args) == 1:
            v = ev.ev(c.args[0])
            return int(v, 0) if isinstance(v, str) else v
        if f == "get_bytes_cnt_of_int" and len(c.args) == 1 and not c.keywords:
            return nbytes(ev.ev(c.args[0]))
        if f == "value_to_bytes" and len(c.args) == 1 and [k.arg for k in c.keywords] == ["byte_cnt"]:
            return ev.ev(c.args[0]).to_bytes(ev.ev(c.keywords[0].value), "big")
        if f == "swap32" and len(c.args) == 1:
            v = ev.ev(c.args[0])
            if not 0 <= v <= 0xFFFFFFFF:
                raise ordereval.ModelRaise(ordereval.Outcome("raise", None, c))
            return swap32(v)
        if f in ("struct.pack", "pack") and c.args:
            try:
                return _struct.pack(ev.ev(c.args[0]), *[x for a_ in c.args[1:] for x in (ev.ev(a_.value) if isinstance(a_, ast.Starred) else (ev.ev(a_),))])
            except _struct.error:
                raise ordereval.ModelRaise(ordereval.Outcome("raise", "struct.error", c))
        if f in ("ExtMemId.from_tag", "VersionCheckType.from_tag") and len(c.args) == 1:
            return (f.split(".")[0], ev.ev(c.args[0]))
        if f == "KeyBlob":
            kinit = prog.find_method(kbc, "__init__")
            kpn = kinit.params()[1:] if kinit else []
            kw = {kpn[i]: ev.ev(a_) for i, a_ in enumerate(c.args) if i < len(kpn)}
            kw.update({k.arg: ev.ev(k.value) for k in c.keywords})
            return Obj(_kb=tuple(sorted(kw.items())), KEY_FLAG_ADE=ADE, KEY_FLAG_VLD=VLD, **kw)
        if f in ("struct.unpack", "unpack") and len(c.args) == 2:
            try:
                return tuple(_struct.unpack(ev.ev(c.args[0]), bytes(ev.ev(c.args[1]))))
            except _struct.error:
                raise ordereval.ModelRaise(ordereval.Outcome("raise", "struct.error", c))
        if isinstance(c.func, ast.Attribute) and c.func.attr in ("encrypt_image", "export") and isinstance(c.func.value, ast.Name):
            o = ev.env.get(c.func.value.id)
            if isinstance(o, Obj) and "_kb" in o.__dict__:
                kw = {k.arg: ev.ev(k.value) for k in c.keywords}
                kw.update({f"#{i}": ev.ev(a_) for i, a_ in enumerate(c.args)})
                return (c.func.attr, o.__dict__["_kb"], tuple(sorted(kw.items())))
        if f == "align_block" and len(c.args) == 2 and not c.keywords:
            d_ = bytes(ev.ev(c.args[0]))
            return d_ + bytes(-len(d_) % ev.ev(c.args[1]))
        if f == "bytes.fromhex" and len(c.args) == 1:
            return bytes.fromhex(ev.ev(c.args[0]))
        if f == "str" and len(c.args) == 1:
            return "s"
        return ordereval.NOT_MODELLED
    kbc = prog.resolve(helper.module, "KeyBlob")
    ADE = prog.fold(kbc.consts.get("KEY_FLAG_ADE"), kbc.module, kbc) if isinstance(kbc, ClassInfo) else None
    VLD = prog.fold(kbc.consts.get("KEY_FLAG_VLD"), kbc.module, kbc) if isinstance(kbc, ClassInfo) else None
    if not isinstance(ADE, int) or not isinstance(VLD, int):
        raise AnalysisError("C19.handler-model: KeyBlob.KEY_FLAG_ADE / KEY_FLAG_VLD do not fold")
    calls = ctx.model_calls(leaves, classes={"SB21Helper": helper})
    Z = "ZF"

    def cmd(name, **kw):
        return (name, tuple(sorted(kw.items(), key=lambda kv: kv[0])))

    def prog_cmd(address, mem, w1, w2):
        return cmd("CmdProg", address=address, data_word1=w1, data_word2=w2, mem_id=mem)
    RAISE = "raise"
    cases = [
        # load
        ("_load", {"file": "a.bin", "address": 0x1000}, cmd("CmdLoad", address=0x1000, data=b"FILE:a.bin", mem_id=0, zero_filling=Z)),
        ("_load", {"file": "a.bin", "address": "0x20", "load_opt": 9}, cmd("CmdLoad", address=0x20, data=b"FILE:a.bin", mem_id=9, zero_filling=Z)),
        ("_load", {"values": "1,aabbccdd,0", "address": 8}, cmd("CmdLoad", address=8, data=_struct.pack("<3L", 1, 0xAABBCCDD, 0), mem_id=0, zero_filling=Z)),
        ("_load", {"values": "ffffffff", "address": 8, "load_opt": 2}, cmd("CmdLoad", address=8, data=_struct.pack("<L", 0xFFFFFFFF), mem_id=2, zero_filling=Z)),
        ("_load", {"values": "100000000", "address": 8}, RAISE),
        ("_load", {"values": "aabbccdd", "address": 8, "load_opt": 4}, prog_cmd(8, 4, swap32(0xAABBCCDD), 0)),
        ("_load", {"pattern": 0x55, "address": 8, "load_opt": 4}, prog_cmd(8, 4, 0x55, 0)),
        ("_load", {"pattern": 0x55, "address": 8}, RAISE),
        ("_load", {"pattern": 0, "address": 8, "load_opt": 4}, prog_cmd(8, 4, 0, 0)),  # fuse word 0 is a value, not "no pattern"
        ("_prog", {"pattern": 0, "address": 4, "load_opt": 4}, prog_cmd(4, 4, 0, 0)),
        ("_load", {"address": 8}, RAISE),
        # program
        ("_prog", {"values": "1", "address": 4, "load_opt": 4}, prog_cmd(4, 4, swap32(1), 0)),
        ("_prog", {"values": "aabbccdd", "address": 4}, prog_cmd(4, 4, swap32(0xAABBCCDD), 0)),
        ("_prog", {"values": "aabbccddee", "address": 4, "load_opt": 4}, prog_cmd(4, 4, swap32(0xAA), swap32(0xBBCCDDEE))),
        ("_prog", {"values": "0102030405060708", "address": 4, "load_opt": 4}, prog_cmd(4, 4, swap32(0x01020304), swap32(0x05060708))),
        ("_prog", {"values": "010203040506070809", "address": 4, "load_opt": 4}, RAISE),
        ("_prog", {"pattern": 0x12345678, "address": 4, "load_opt": 4}, prog_cmd(4, 4, 0x12345678, 0)),
        ("_prog", {"pattern": "0xFFFFFFFF", "address": 4, "load_opt": 4}, prog_cmd(4, 4, 0xFFFFFFFF, 0)),
        ("_prog", {"pattern": 0x100000000, "address": 4, "load_opt": 4}, RAISE),
        ("_prog", {"address": 4, "load_opt": 4}, RAISE),
        # erase / enable / call / jump / key store / version check / fill
        ("_erase_cmd_handler", {"address": 0x800, "length": 0x100, "mem_opt": 8}, cmd("CmdErase", address=0x800, length=0x100, flags=0, mem_id=8)),
        ("_erase_cmd_handler", {"address": 0, "flags": 1}, cmd("CmdErase", address=0, length=0, flags=1, mem_id=0)),
        ("_erase_cmd_handler", {"address": "0x10", "length": "0x20", "flags": 2, "mem_opt": "3"}, cmd("CmdErase", address=0x10, length=0x20, flags=2, mem_id=3)),
        ("_enable", {"address": 0x2000, "mem_opt": 9}, cmd("CmdMemEnable", address=0x2000, size=4, mem_id=9)),
        ("_enable", {"address": 0x2000, "size": 16}, cmd("CmdMemEnable", address=0x2000, size=16, mem_id=0)),
        ("_jump", {"address": 0x100}, cmd("CmdJump", address=0x100, argument=0, spreg=None)),
        ("_jump", {"address": 0x100, "argument": 7, "spreg": 0x2000}, cmd("CmdJump", address=0x100, argument=7, spreg=0x2000)),
        ("_call", {"address": 0x100}, cmd("CmdCall", address=0x100, argument=0)),
        ("_call", {"address": "0x100", "argument": 3}, cmd("CmdCall", address=0x100, argument=3)),
        ("_keystore_to_nv", {"address": 0x8000800, "mem_opt": 9}, cmd("CmdKeyStoreRestore", address=0x8000800, controller_id=("ExtMemId", 9))),
        ("_keystore_from_nv", {"address": 0x8000800, "mem_opt": 9}, cmd("CmdKeyStoreBackup", address=0x8000800, controller_id=("ExtMemId", 9))),
        ("_version_check", {"ver_type": 1, "fw_version": 0x16}, cmd("CmdVersionCheck", ver_type=("VersionCheckType", 1), version=0x16)),
        ("_reset", {}, cmd("CmdReset")),
        ("_load", {"values": "-1", "address": 8}, RAISE),
        # fill: the operands reach CmdFill as they were evaluated (a pattern that does not fit 1 / 2 / 4 bytes is CmdFill's to refuse - C04.fill-word)
        ("_fill_memory", {"address": 0x100, "pattern": 0x55, "length": 0x40}, cmd("CmdFill", address=0x100, pattern=0x55, length=0x40, zero_filling=Z)),
        ("_fill_memory", {"address": "0x100", "pattern": "0x11223344"}, cmd("CmdFill", address=0x100, pattern=0x11223344, length=None, zero_filling=Z)),
        ("_fill_memory", {"address": 0, "pattern": 0, "length": 0}, cmd("CmdFill", address=0, pattern=0, length=0, zero_filling=Z)),
        ("_fill_memory", {"address": 0x100, "pattern": 0x1000000A5, "length": 0x40}, cmd("CmdFill", address=0x100, pattern=0x1000000A5, length=0x40, zero_filling=Z)),
        ("_fill_memory", {"address": 0x100, "pattern": -1, "length": 0x40}, cmd("CmdFill", address=0x100, pattern=-1, length=0x40, zero_filling=Z)),
    ]
    # encrypt / keywrap: the key blob with the statement's id (not the first one) supplies range, key and counter
    K0, K1 = "00" * 16, "0102030405060708090a0b0c0d0e0f10"

    def blobs(end1, extra1=None):
        c1 = {"start": 0x1000, "end": end1, "key": K1, "counter": "1122334455667788"}
        c1.update(extra1 or {})
        return ({"keyblob_id": 0, "keyblob_content": ({"start": 0, "end": 0x3FF, "key": K0, "counter": "00" * 8},)},
                {"keyblob_id": 1, "keyblob_content": (c1,)})

    def kb(end1):
        return tuple(sorted({"start_addr": 0x1000, "end_addr": end1, "key": bytes.fromhex(K1), "counter_iv": bytes.fromhex("1122334455667788")}.items()))
    words = _struct.pack("<2L", 1, 2)
    for end1, swap_opt, swap in ((0x13FF, None, False), (0x13FF, {"byteSwap": 1}, True), (0x13FF, {"byteSwap": 0}, False)):
        cases.append(("_encrypt", {"keyblob_id": 1, "keyblobs": blobs(end1, swap_opt), "address": 0x1000, "values": "1,2"},
                      cmd("CmdLoad", address=0x1000, data=("encrypt_image", kb(end1), tuple(sorted({"base_address": 0x1000, "data": words + bytes(512 - 8), "byte_swap": swap}.items()))))))
    for end1 in (0x13FC, 0x13FD, 0x13FE):  # ADE and VLD not both set: the data is loaded as it is
        cases.append(("_encrypt", {"keyblob_id": 1, "keyblobs": blobs(end1), "address": 0x1000, "values": "1,2"}, cmd("CmdLoad", address=0x1000, data=words)))
    cases.append(("_encrypt", {"keyblob_id": 1, "keyblobs": blobs(0x13FF), "address": 0x1000, "file": "x.bin"},
                  cmd("CmdLoad", address=0x1000, data=("encrypt_image", kb(0x13FF), tuple(sorted({"base_address": 0x1000, "data": b"FILE:x.bin" + bytes(512 - 10), "byte_swap": False}.items()))))))
    cases.append(("_encrypt", {"keyblob_id": 7, "keyblobs": blobs(0x13FF), "address": 0x1000, "values": "1,2"}, RAISE))
    cases.append(("_encrypt", {"keyblob_id": 1, "keyblobs": blobs(0x13FF), "address": 0x1000}, RAISE))
    cases.append(("_keywrap", {"keyblob_id": 1, "keyblobs": blobs(0x13FF), "address": 0x2000, "values": "KEK"},
                  cmd("CmdLoad", address=0x2000, data=("export", kb(0x13FF), (("kek", "KEK"),)))))
    cases.append(("_keywrap", {"keyblob_id": 5, "keyblobs": blobs(0x13FF), "address": 0x2000, "values": "KEK"}, RAISE))
    probs: Dict[str, List[str]] = {}
    n = 0
    for hname, args, want in cases:
        fn = ctx.own(HELPER, "SB21Helper", hname)
        me = Obj(_cls=helper, zero_filling=Z, search_paths=("sp",))
        try:
            out = ordereval.Evaluator({"self": me, fn.params()[1]: dict(args)}, ctx.fold_sym(fn), opaque_return=False, call_value=calls).run(A.body_of(fn.node))
        except ordereval.Unsupported as ex:
            raise AnalysisError(f"C19.handler-model: {fn.qual} left the fragment: {ex}")
        n += 1
        got = RAISE if out.kind == "raise" else out.value
        if got != want:
            probs.setdefault(hname, []).append(f"{args} -> {got!r}, the statement prescribes {want!r}")
    handlers = sorted({c_[0] for c_ in cases})
    for hname in handlers:
        ctx.chk.decide(not probs.get(hname), "C19.handler-model", f"{HELPER}::SB21Helper.{hname}", f"produces the prescribed command on every model statement ({sum(1 for c_ in cases if c_[0] == hname)} models)",
                       "; ".join(probs.get(hname, [])[:2])[:600], "", A.loc(HELPER, ctx.own(HELPER, "SB21Helper", hname).node))
    ctx.chk.exhaustive_rules.add("C19.handler-model")
    ctx.chk.floor("C19.handler-model", 11)
    # the length of a programmed blob is the length of the blob ({{ 00 00 00 00 00 00 00 01 }} is 8 bytes), not the magnitude of the number
    fnp = ctx.own(HELPER, "SB21Helper", "_prog")
    wrong = []
    for blob, w1, w2 in (("0000000000000001", 0, swap32(1)), ("0000000100000000", swap32(1), 0), ("00000001", swap32(1), 0)):
        me = Obj(_cls=helper, zero_filling=Z, search_paths=("sp",))
        try:
            out = ordereval.Evaluator({"self": me, fnp.params()[1]: {"values": blob, "address": 0x10, "load_opt": 4}}, ctx.fold_sym(fnp), opaque_return=False, call_value=calls).run(A.body_of(fnp.node))
        except ordereval.Unsupported as ex:
            raise AnalysisError(f"C19.blob-length: {fnp.qual} left the fragment: {ex}")
        if (out.value if out.kind == "return" else out.kind) != prog_cmd(0x10, 4, w1, w2):
            wrong.append(blob)
    ctx.chk.decide(not wrong, "C19.blob-length", f"{HELPER}::SB21Helper._prog", "a programmed blob keeps its leading zero bytes",
                   "the byte count of a programmed blob is taken from the magnitude of its value: leading zero bytes are lost and different 8-byte blobs give the same 4-byte command",
                   "byte count = length of the blob", A.loc(HELPER, fnp.node))


# ------------------------------------------------------------------------------ unsupported
UNSUPPORTED = [
    ("source_def", "source_def IDENT ASSIGN source_value LPAREN source_attr_list RPAREN SEMI"),
    ("section_contents", "LE SOURCE_NAME SEMI"),
    ("load_data", "section_list"),
    ("load_data", "section_list FROM SOURCE_NAME"),
    ("load_target", "GT PERIOD"),
    ("load_target", "empty"),
    ("section_ref", "NOT SECTION_NAME"),
    ("section_ref", "SECTION_NAME"),
    ("symbol_ref", "SOURCE_NAME QUESTIONMARK COLON IDENT"),
    ("call_target", "SOURCE_NAME"),
    ("call_target", "symbol_ref"),
    ("from_stmt", "FROM SOURCE_NAME LBRACE in_from_stmt RBRACE"),
    ("mode_stmt", "MODE int_const_expr"),
    ("message_type", "INFO"),
    ("if_stmt", "IF bool_expr LBRACE statement RBRACE else_stmt"),
    ("bool_expr", "IDENT LPAREN SOURCE_NAME RPAREN"),
    ("expr", "symbol_ref"),
    ("expr", "SIZEOF LPAREN symbol_ref RPAREN"),
    ("expr", "SIZEOF LPAREN IDENT RPAREN"),
]


def all_paths_raise(stmts: List[ast.stmt]) -> bool:
    for st in stmts:
        if isinstance(st, ast.Raise):
            return True
        if isinstance(st, ast.If) and st.orelse and all_paths_raise(st.body) and all_paths_raise(st.orelse):
            return True
        if isinstance(st, ast.If) and not st.orelse:
            continue
    return False


def rule_refuse(ctx, g: Grammar) -> None:
    chk = ctx.chk
    err = ctx.own(PARSER, "BDParser", "error")
    chk.decide(all_paths_raise(A.body_of(err.node)) and all("SPSDKError" in norm(r) for r in A.raises_in(err.node)), "C19.refuse-unsupported", err.qual,
               "error() raises SPSDKError on every path", "error() can return normally (unsupported constructs would be mis-translated)", "raise on every path", A.loc(PARSER, err.node))
    for nt, prod in UNSUPPORTED:
        hit = [(f, syms) for n2, syms, f in g.rules_of(nt) if " ".join(syms) == prod]
        if not hit:
            raise AnalysisError(f"C19.refuse-unsupported: production `{nt} ::= {prod}` not found")
        f = hit[0][0]
        # self.error(...) must be reached unconditionally before any return
        ok = False
        for st in A.body_of(f.node):
            if isinstance(st, ast.Expr) and isinstance(st.value, ast.Call) and norm(st.value.func) == "self.error":
                ok = True
                break
            if isinstance(st, ast.Return):
                break
            if isinstance(st, (ast.If, ast.For, ast.While, ast.Try)):
                if any(isinstance(x, ast.Return) for x in ast.walk(st)):
                    break
        chk.decide(ok, "C19.refuse-unsupported", f"{PARSER}::BDParser.{nt} `{prod}`", "reaches self.error(...) on every path before returning",
                   "unsupported production returns a value without raising", "self.error(token, ...)", A.loc(PARSER, f.node))
    chk.floor("C19.refuse-unsupported", len(UNSUPPORTED) + 1)


# --------------------------------------------------------------------------------- operands
def rule_operands(ctx, g: Grammar) -> None:
    chk = ctx.chk
    # address_or_range: {"address": start, "length": end - start}
    for nt, syms, f in g.rules_of("address_or_range"):
        if syms == ["int_const_expr", "RANGE", "int_const_expr"]:
            r = A.returns_in(f.node)
            if len(r) != 1 or not isinstance(r[0].value, ast.Dict):
                raise AnalysisError("C19.range: address_or_range action shape changed")
            d = {k.value: A.inline_locals(f.node, v) for k, v in zip(r[0].value.keys, r[0].value.values) if isinstance(k, ast.Constant)}
            bad = None
            npts = 0
            for a in range(0, 5):
                for b in range(0, 7):
                    def sym(x, a=a, b=b):
                        t = norm(x)
                        if t in ("token.int_const_expr0", "token[0]"):
                            return a
                        if t in ("token.int_const_expr1", "token[2]"):
                            return b
                        return None
                    ev = ordereval.Evaluator({}, sym)
                    try:
                        got = (ev.ev(d["address"]), ev.ev(d["length"])) if "address" in d and "length" in d else None
                    except ordereval.Unsupported as e:
                        raise AnalysisError(f"C19.range: outside the fragment: {e}")
                    npts += 1
                    if got != (a, b - a) and bad is None:
                        bad = (a, b, got)
            chk.decide(bad is None, "C19.range", f"{PARSER}::BDParser.address_or_range `a..b`", f"address = a, length = b - a on {npts} grid points",
                       f"for a={bad[0]}, b={bad[1]}: (address, length) = {bad[2]}" if bad else "", "(a, b - a)", A.loc(PARSER, f.node))
        if syms == ["int_const_expr"]:
            r = A.returns_in(f.node)
            d = {k.value: norm(A.inline_locals(f.node, v)) for k, v in zip(r[0].value.keys, r[0].value.values) if isinstance(k, ast.Constant)} if r and isinstance(r[0].value, ast.Dict) else {}
            chk.decide(d == {"address": "token.int_const_expr"}, "C19.range", f"{PARSER}::BDParser.address_or_range `a`", "single address", f"{d}", "{'address': token.int_const_expr}", A.loc(PARSER, f.node))
    # simple operand productions: key -> grammar symbol it must carry
    want = {
        ("load_opt", "'@' int_const_expr"): {"load_opt": "token.int_const_expr"},
        ("load_opt", "IDENT"): {"load_opt": "token.IDENT"},
        ("mem_opt", "'@' int_const_expr"): {"mem_opt": "token.int_const_expr"},
        ("mem_opt", "IDENT"): {"mem_opt": "token.IDENT"},
        ("call_target", "int_const_expr"): {"address": "token.int_const_expr"},
        ("call_arg", "LPAREN int_const_expr RPAREN"): {"argument": "token.int_const_expr"},
        ("fw_version", "int_const_expr"): {"fw_version": "token.int_const_expr"},
        ("load_data", "BINARY_BLOB"): {"values": "token.BINARY_BLOB"},
        ("sec_or_nsec", "SEC"): {"ver_type": "0"},
        ("sec_or_nsec", "NSEC"): {"ver_type": "1"},
    }
    for (nt, prod), exp in want.items():
        hit = [f for n2, syms, f in g.rules_of(nt) if " ".join(syms) == prod]
        if not hit:
            raise AnalysisError(f"C19.operands: production `{nt} ::= {prod}` not found")
        f = hit[0]
        r = [x for x in A.returns_in(f.node)]
        got = None
        if r:
            e = A.inline_locals(f.node, r[-1].value)
            if isinstance(e, ast.Dict):
                got = {k.value: norm(v) for k, v in zip(e.keys, e.values) if isinstance(k, ast.Constant)}
        chk.decide(got == exp, "C19.operands", f"{PARSER}::BDParser.{nt} `{prod}`", f"yields {exp}", f"yields {got}", f"{exp}", A.loc(PARSER, f.node))
    # erase all / unsecure all flags
    for prod, exp in (("ERASE mem_opt ALL", {"address": 0, "flags": 1}), ("ERASE UNSECURE ALL", {"address": 0, "flags": 2})):
        hit = [f for n2, syms, f in g.rules_of("erase_stmt") if " ".join(syms) == prod]
        if not hit:
            raise AnalysisError(f"C19.operands: production erase_stmt ::= {prod} not found")
        f = hit[0]
        inner = None
        for n in ast.walk(f.node):
            if isinstance(n, ast.Dict) and any(isinstance(k, ast.Constant) and k.value == "flags" for k in n.keys):
                inner = ctx.prog.fold(n, f.module)
        chk.decide(inner == exp, "C19.operands", f"{PARSER}::BDParser.erase_stmt `{prod}`", f"yields {exp}", f"yields {inner}", f"{exp}", A.loc(PARSER, f.node))
    # jump_sp: spreg is the first operand
    hit = [f for n2, syms, f in g.rules_of("jump_sp_stmt")]
    if hit:
        f = hit[0]
        sp = [norm(st.value) for st in A.walk_no_nested(f.node) if isinstance(st, ast.Assign) and "'spreg'" in norm(st.targets[0])]
        chk.decide(sp == ["token.int_const_expr"], "C19.operands", f"{PARSER}::BDParser.jump_sp_stmt", "spreg <- the expression after jump_sp", f"spreg <- {sp}", "token.int_const_expr", A.loc(PARSER, f.node))
    # load: a pattern without a memory option is a fill
    hit = [f for n2, syms, f in g.rules_of("load_stmt")]
    f = hit[0]
    iff = [n for n in A.body_of(f.node) if isinstance(n, ast.If)]
    ok = False
    if iff:
        t = norm(iff[0].test)
        cmd_true = [norm(s.value) for s in iff[0].body if isinstance(s, ast.Assign)]
        cmd_false = [norm(s.value) for s in iff[0].orelse if isinstance(s, ast.Assign)]
        ok = "token.load_data.get('pattern') is not None" in t and "token.load_opt.get('load_opt') is None" in t and " and " in t and cmd_true == ["'fill'"] and cmd_false == ["'load'"]
    chk.decide(ok, "C19.operands", f"{PARSER}::BDParser.load_stmt fill/load", "pattern source without memory option -> fill, otherwise load",
               norm(iff[0].test) if iff else "decision missing", "pattern is not None and load_opt is None -> 'fill' else 'load'", A.loc(PARSER, f.node))
    # identifiers resolve to the value of the variable of the same name
    for n2, syms, f in g.rules_of("expr"):
        if syms == ["IDENT"]:
            # evaluated on a variable table with a duplicate name: the first variable of that name gives the value, an unknown
            # identifier evaluates to its own text
            vars_ = tuple(Obj(name=n_, value=v_) for n_, v_ in (("a", 1), ("b", 2), ("a", 3)))
            got = {}
            for ident in ("a", "b", "zz"):
                try:
                    out = ordereval.Evaluator({"self": Obj(_variables=vars_), "token": Obj(IDENT=ident, _items=(ident,))}, None, opaque_return=False).run(A.body_of(f.node))
                except ordereval.Unsupported as ex:
                    raise AnalysisError(f"C19.operands: {f.qual} left the fragment: {ex}")
                got[ident] = out.value if out.kind == "return" else out.kind
            chk.decide(got == {"a": 1, "b": 2, "zz": "zz"}, "C19.operands", f"{PARSER}::BDParser.expr `IDENT`", "an identifier evaluates to the value of the (first) variable of that name", f"{got}", "{'a': 1, 'b': 2, 'zz': 'zz'}", A.loc(PARSER, f.node))
    # defined(<identifier>) is true exactly when a variable of that name exists
    seen_defined = 0
    for n2, syms, f in g.rules_of("bool_expr"):
        if syms and syms[0] == "DEFINED":
            seen_defined += 1
            vars_ = tuple(Obj(name=n_, value=v_, t="constant") for n_, v_ in (("a", 1), ("b", 0)))
            got = {}
            for ident in ("a", "b", "zz"):
                try:
                    out = ordereval.Evaluator({"self": Obj(_variables=vars_), "token": Obj(IDENT=ident, _items=("defined", "(", ident, ")"))}, None, opaque_return=False).run(A.body_of(f.node))
                except ordereval.Unsupported as ex:
                    raise AnalysisError(f"C19.operands: {f.qual} left the fragment: {ex}")
                got[ident] = bool(out.value) if out.kind == "return" else out.kind
            chk.decide(got == {"a": True, "b": True, "zz": False}, "C19.operands", f"{PARSER}::BDParser.bool_expr `defined(IDENT)`", "defined(x) is true exactly when a variable named x exists (whatever its value)",
                       f"{got}", "{'a': True, 'b': True, 'zz': False}", A.loc(PARSER, f.node))
    if not seen_defined:
        raise AnalysisError("C19.operands: the defined(IDENT) production was not found")
    for n2, syms, f in g.rules_of("constant_def"):
        if syms[:2] == ["constant_def", "IDENT"]:
            c = [x for x in A.calls_in(f.node, "Variable")]
            ok = bool(c) and norm(c[0].args[0]) == "token.IDENT" and norm(c[0].args[-1]) == "token.bool_expr"
            chk.decide(ok, "C19.operands", f"{PARSER}::BDParser.constant_def", "constant is stored under its own name with its own value", norm(c[0]) if c else "", "Variable(token.IDENT, 'constant', token.bool_expr)", A.loc(PARSER, f.node))


def rule_sections(ctx, g: Grammar) -> None:
    """Each section gets exactly its own statements: the per-section command list is created inside the section loop."""
    fn = ctx.own(IMAGES, "BootImageV21", "load_from_config")
    ctor = [c for c in A.calls_in(fn.node, "BootSectionV2")]
    if not ctor:
        raise AnalysisError("C19.sections: BootSectionV2(...) not found in load_from_config")
    c = ctor[0]
    star = [a.value for a in c.args if isinstance(a, ast.Starred)]
    if not star or not isinstance(star[0], ast.Name):
        raise AnalysisError("C19.sections: command list is not passed as *name")
    var = star[0].id
    loops = [a for a in A.ancestors(c) if isinstance(a, ast.For)]
    if not loops:
        raise AnalysisError("C19.sections: BootSectionV2 is not built in a loop over sections")
    outer = loops[-1]
    inits = [s for s in outer.body if isinstance(s, (ast.Assign, ast.AnnAssign)) and norm(s.targets[0] if isinstance(s, ast.Assign) else s.target) == var]
    fresh = bool(inits) and isinstance(inits[0].value, (ast.List,)) and not inits[0].value.elts
    ctx.chk.decide(fresh, "C19.sections", f"{fn.qual} per-section `{var}`", f"`{var}` is re-created empty at the start of every section iteration",
                   f"`{var}` is not re-initialised inside the section loop: commands of earlier sections leak into later ones", f"{var} = [] inside `for ... in sections`", A.loc(IMAGES, outer))
    # one command object per statement: cmd_fce(value) appended once per (key, value)
    apps = [x for x in A.calls_in(outer, "append") if norm(x.func.value) == var]
    ctx.chk.decide(len(apps) == 1, "C19.sections", f"{fn.qual} append", "each statement appends exactly one command", f"{len(apps)} append sites", "1", A.loc(IMAGES, outer))
    disp = [x for x in A.calls_in(outer, "get_command")]
    key_ok = False
    if len(disp) == 1 and disp[0].args:
        # the argument is the key of the statement dictionary being iterated (`for <key>, <args> in <stmt>.items()`)
        for anc in A.ancestors(disp[0]):
            if isinstance(anc, ast.For) and isinstance(anc.target, ast.Tuple) and len(anc.target.elts) == 2 and isinstance(anc.iter, ast.Call) and A.call_name(anc.iter) == "items":
                key_ok = norm(disp[0].args[0]) == norm(anc.target.elts[0])
                break
    ctx.chk.decide(len(disp) == 1 and key_ok, "C19.sections", f"{fn.qual} dispatch", "handler is selected by the statement's own name", norm(disp[0]) if disp else "", "sb21_helper.get_command(key)", A.loc(IMAGES, outer))
    # the section-level keys the parser emits
    sb = [f for n2, syms, f in g.rules_of("section_block") if "SECTION" in syms]
    keys = set()
    for n in ast.walk(sb[0].node):
        if isinstance(n, ast.Dict):
            keys |= {k.value for k in n.keys if isinstance(k, ast.Constant)}
    ctx.chk.decide({"section_id", "commands"} <= keys, "C19.sections", f"{PARSER}::BDParser.section_block", f"emits keys {sorted(keys)}", f"emits keys {sorted(keys)}", "section_id, options, commands", A.loc(PARSER, sb[0].node))
    reads = {n.slice.value for n in ast.walk(outer) if isinstance(n, ast.Subscript) and isinstance(n.slice, ast.Constant) and isinstance(n.slice.value, str)}
    if "section_id" not in reads:
        ctx.chk.report("C19.sections (report only): load_from_config numbers sections by list position; the parsed `section_id` and `options` are not read")


def rule_delimited_literals(ctx, g: Grammar) -> None:
    """C19.lex-delimited: a quoted literal ends at its first closing quote.  The language of the string-literal pattern (and of the
    character-literal alternative of the integer pattern) is included in  q [^q]* q ; a longer match would swallow everything up to
    the LAST quote of the line (`a = "x"; b = "y";` read as one string), i.e. mis-translate two definitions written on one line."""
    ALPH = "ab1 =;,+\n"
    found = 0
    for name, rx, _is_fn in g.tokens:
        for alt in regexlang.split_alternatives(rx):
            body = alt.strip()
            for q in ('"', "'"):
                if not (body.startswith(q) or body.startswith("\\" + q)):
                    continue
                found += 1
                try:
                    L = regexlang.Lang(body.replace("*?", "*").replace("+?", "+"), "fullmatch", 0, ALPH + q)
                    M = regexlang.Lang(f"{q}[^{q}\n]*{q}" if q == "'" else '"[^"\n]*"', "fullmatch", 0, ALPH + q)
                except regexlang.Unsupported as ex:
                    raise AnalysisError(f"C19.lex-delimited: pattern of {name} not in the regex fragment: {ex}")
                n, cex = regexlang.included(L, M)
                ctx.chk.decide(cex is None, "C19.lex-delimited", f"{LEXER}::BDLexer.{name} {q}...{q}", f"every match of {body!r} is one quoted literal on one line ({n} product states)",
                               f"{body!r} matches {cex!r} as ONE literal", f"{q}[^{q}]*{q}", A.loc(LEXER, g.lcls.node))
    ctx.chk.floor("C19.lex-delimited", 2)
    if found < 2:
        raise AnalysisError("C19.lex-delimited: string / character literal patterns not found")


def rule_keyblob_options(ctx, g: Grammar) -> None:
    """C19.keyblob-options: the option names the language documents for a keyblob block (docs/usage/elf2sb.md, "The keyblob contents
    must define") are the names the encrypt / keywrap handlers look up in the keyblob content: an option spelled as documented must not
    be silently ignored because the handler reads it under another name."""
    import re as _re
    DOC = "docs/usage/elf2sb.md"
    text = ctx.repo.read(DOC)
    m = _re.search(r"The keyblob contents must define:\s*```(.*?)```", text, _re.S)
    if not m:
        raise AnalysisError("C19.keyblob-options: the documented keyblob option list was not found in docs/usage/elf2sb.md")
    documented = {}
    for line in m.group(1).splitlines():
        mm = _re.match(r"\s*(\w+)\s*\[([^\]]*)\]\s*-", line)
        if mm:
            documented[mm.group(1)] = "optional" in mm.group(2)
    if len(documented) < 4:
        raise AnalysisError(f"C19.keyblob-options: only {len(documented)} documented options parsed")
    fn = ctx.own(HELPER, "SB21Helper", "_encrypt")
    read: Set[str] = set()
    for q in A.spaths(fn.node):
        for st in q.sstmts:
            for n in ast.walk(st):
                key = None
                if isinstance(n, ast.Subscript) and isinstance(n.slice, ast.Constant) and isinstance(n.slice.value, str):
                    key, base = n.slice.value, n.value
                elif isinstance(n, ast.Call) and isinstance(n.func, ast.Attribute) and n.func.attr == "get" and n.args and isinstance(n.args[0], ast.Constant) and isinstance(n.args[0].value, str):
                    key, base = n.args[0].value, n.func.value
                if key is not None and "keyblob_content" in norm(base):
                    read.add(key)
    if not read:
        raise AnalysisError("C19.keyblob-options: no option look-up on keyblob_content found in SB21Helper._encrypt")
    for name, optional in sorted(documented.items()):
        ctx.chk.decide(name in read, "C19.keyblob-options", f"{HELPER}::SB21Helper._encrypt option `{name}`", f"documented option `{name}` is looked up under that name",
                       f"`{name}` is documented{' (optional)' if optional else ''} but the handler reads only {sorted(read)}: the option is ignored", f"keyblob_content[0][{name!r}] / .get({name!r})", A.loc(HELPER, fn.node))
    ctx.chk.floor("C19.keyblob-options", 5)
    ctx.chk.units[DOC] = __import__("hashlib").sha256(text.encode()).hexdigest()[:16]


def rule_legacy_mem_names(ctx, g: Grammar) -> None:
    """C19.legacy-mem-names: the memory names of the command-file language (`enable qspi`, `erase sdcard`, `load ifr`) are resolved through
    LEGACY_MEM_ID to labels of the MemId enumeration.  Every entry names a label that exists (otherwise the statement raises instead of
    producing its command), and no two names resolve to the same label (otherwise one of them addresses the wrong memory)."""
    MEM = "spsdk/mboot/memories.py"
    m = ctx.m(MEM)
    table_node = ctx.prog.module_consts(m).get("LEGACY_MEM_ID")
    table = ctx.prog.fold(table_node, m) if table_node is not None else None
    if not isinstance(table, dict) or len(table) < 8:
        raise AnalysisError("C19.legacy-mem-names: LEGACY_MEM_ID does not fold to a dictionary")
    em = ctx.enum_model(ctx.cls(MEM, "MemId"))
    if em is None:
        raise AnalysisError("C19.legacy-mem-names: MemId does not fold to an enum model")
    labels = {mm.label: mm.tag for mm in em.members()}
    seen: Dict[str, str] = {}
    for name, label in table.items():
        ok = label in labels
        dup = seen.get(label)
        ctx.chk.decide(ok and dup is None, "C19.legacy-mem-names", f"{MEM}::LEGACY_MEM_ID[{name!r}]", f"`{name}` resolves to MemId label {label!r} (id {labels.get(label)})",
                       (f"`{name}` names the label {label!r}, which no MemId member has: a statement using it raises" if not ok else f"`{name}` and `{dup}` both resolve to {label!r}: one of them addresses the wrong memory"),
                       "one existing label per name", A.loc(MEM, table_node))
        seen.setdefault(label, name)
    ctx.chk.floor("C19.legacy-mem-names", 10)
    ctx.chk.units[MEM] = m.digest
    # memory id 0 (`internal`) is a valid result of the look-up: its presence is tested with `is (not) None`, never by truth value
    n_sites = 0
    for hname, fl in sorted(ctx.cls(HELPER, "SB21Helper").methods.items()):
        for f in fl:
            for a in [x for x in A.walk_no_nested(f.node) if isinstance(x, ast.Assign) and isinstance(x.value, ast.Call) and A.call_name(x.value) == "get_legacy_str"
                      and isinstance(x.targets[0], ast.Name)]:
                var = a.targets[0].id
                n_sites += 1
                truthy = [t for t in ast.walk(f.node) if isinstance(t, (ast.If, ast.IfExp, ast.While)) and
                          (norm(t.test) == var or norm(t.test) == f"not {var}" or (isinstance(t.test, ast.BoolOp) and any(norm(v) in (var, f"not {var}") for v in t.test.values)))]
                ctx.chk.decide(not truthy, "C19.legacy-mem-names", f"{f.qual} `{var}`", "the looked-up memory id is tested with `is not None`",
                               f"`{norm(truthy[0].test)}` treats memory id 0 (the name `internal`) as not found" if truthy else "", f"if {var} is not None", A.loc(HELPER, truthy[0] if truthy else a))
    if not n_sites:
        raise AnalysisError("C19.legacy-mem-names: no get_legacy_str look-up found in SB21Helper")


def rule_comment_token(ctx) -> None:
    """C19.comment-token: the block-comment token matches every minimal `/* ... */` comment in full (whatever stars it contains) and
    ends at the first terminator - otherwise statements between two comments are swallowed silently."""
    chk = ctx.chk
    g = parse_grammar(ctx) if "parse_grammar" in globals() else None
    m = ctx.m(LEXER)
    rx = None
    for k in ctx.prog.classes.values():
        if k.module is m and k.name == "BDLexer":
            for fn in k.methods.get("COMMENT", []):
                for d in fn.node.decorator_list:
                    if isinstance(d, ast.Call) and d.args and isinstance(d.args[0], ast.Constant) and isinstance(d.args[0].value, str):
                        rx = d.args[0].value
    if rx is None:
        raise AnalysisError("C19.comment-token: COMMENT token pattern not found")
    alts = [a for a in regexlang.split_alternatives(rx) if a.lstrip("(").startswith("/\\*")]
    if len(alts) != 1:
        raise AnalysisError(f"C19.comment-token: block comment alternative not found in {rx!r}")
    blk = alts[0]
    lazy = "*?" in blk or "+?" in blk
    ALPH = "/*a \n#"
    try:
        L = regexlang.Lang(blk.replace("*?", "*").replace("+?", "+"), "fullmatch", 0, ALPH)
        M = regexlang.Lang(r"/\*([^*]|\*+[^*/])*\*+/", "fullmatch", 0, ALPH)
    except regexlang.Unsupported as e:
        raise AnalysisError(f"C19.comment-token: pattern outside the regex fragment: {e}")
    n1, w1 = regexlang.included(M, L)
    n2, w2 = regexlang.included(L, M)
    stops = lazy or w2 is None
    chk.decide(w1 is None and stops, "C19.comment-token", f"{LEXER}::BDLexer.COMMENT", f"every minimal block comment is matched in full and the match ends at the first `*/` ({n1 + n2} product states; {'lazy quantifier' if lazy else 'language equals the minimal comments'})",
               (f"the comment {w1!r} is not matched by the token pattern {blk!r}: lexing continues to a later `*/` and the statements in between are dropped" if w1 is not None else f"the pattern also matches {w2!r}, which runs past the first terminator"),
               "/\\*(.|\\s)*?\\*/", A.loc(LEXER, m.tree))


def rule_blocks_accumulate(ctx, g: Grammar) -> None:
    """C19.blocks-accumulate: the grammar allows any number of options / keyblob blocks in front of the sections
    (pre_section_block -> pre_section_block X_block is left recursive).  The reducing action is interpreted twice in a row on model
    tokens carrying two different blocks: what the second reduction returns still contains what the first block defined (a block must
    not replace its predecessor's entries)."""
    Obj = ordereval.Obj
    n = 0
    for block, first, second, has_both in (
            ("options_block", {"options": {"flags": 8, "buildNumber": 2}}, {"options": {"productVersion": "1.2.3"}},
             lambda d: isinstance(d.get("options"), dict) and d["options"] == {"flags": 8, "buildNumber": 2, "productVersion": "1.2.3"}),
            ("keyblob_block", {"keyblob_id": 0, "keyblob_content": ("a",)}, {"keyblob_id": 1, "keyblob_content": ("b",)},
             lambda d: [k.get("keyblob_id") for k in (d.get("keyblobs") or ()) if isinstance(k, dict)] == [0, 1])):
        rules = [r for r in g.rules if r[0] == "pre_section_block" and r[1] == ["pre_section_block", block]]
        if len(rules) != 1:
            raise AnalysisError(f"C19.blocks-accumulate: production pre_section_block -> pre_section_block {block} not found exactly once")
        fn = rules[0][2]
        state: Dict[str, Any] = {}
        try:
            for blk in (first, second):
                tok = Obj(pre_section_block=state, _items={0: state, 1: blk}, **{block: blk})
                out = ordereval.Evaluator({"self": Obj(_parser=True), fn.params()[1]: tok}, ctx.fold_sym(fn), opaque_return=False).run(A.body_of(fn.node))
                if out.kind != "return" or not isinstance(out.value, dict):
                    raise ordereval.Unsupported(fn.node, f"the action {out.kind}s {out.value!r}")
                state = out.value
        except ordereval.Unsupported as ex:
            raise AnalysisError(f"C19.blocks-accumulate: {fn.qual} left the fragment: {ex}")
        n += 1
        ctx.chk.decide(has_both(state), "C19.blocks-accumulate", f"{fn.qual} ({block})", "two blocks in a row: the entries of both are in the result",
                       f"after `{block}` twice the command file holds {state!r}"[:300], "entries of the first block survive the second", A.loc(PARSER, fn.node))
    ctx.chk.floor("C19.blocks-accumulate", 2)


def run(ctx) -> None:
    ctx.chk.explain("C19: operator dispatch of the BD expression evaluator checked against the language's operator table through the lexer's token regexes (automata), "
                    "definition-order shadowing of lexer patterns, precedence tuple vs C order, abstract interpretation of the grammar's semantic actions to the set of "
                    "operand keys each statement can carry vs the keys its SB21Helper handler reads, handler argument routing, refusal of the frozen unsupported productions.")
    g = Grammar(ctx)
    ctx.chk.units[LEXER] = ctx.prog.mod(LEXER).digest
    ctx.rule(rule_op_table, g)
    ctx.rule(rule_lex_chain, g)
    ctx.rule(rule_precedence, g)
    ctx.rule(rule_handlers_keyflow, g)
    ctx.rule(rule_routing, g)
    ctx.rule(rule_handler_model, g)
    ctx.rule(rule_blocks_accumulate, g)
    ctx.rule(rule_refuse, g)
    ctx.rule(rule_operands, g)
    ctx.rule(rule_sections, g)
    ctx.rule(rule_comment_token)
    ctx.rule(rule_delimited_literals, g)
    ctx.rule(rule_keyblob_options, g)
    ctx.rule(rule_legacy_mem_names, g)
    from . import c04 as _c04
    ctx.rule(lambda c: c.borrow(_c04.rule_setters, "C04.jump-sp", "C19.jump-sp"))
    # a pattern load becomes a FILL whose operand is the stated pattern: the word the command carries is decided by C04's rule
    ctx.rule(lambda c: c.borrow(_c04.rule_fill_word, "C04.fill-word", "C19.fill-word"))
    ctx.chk.assumptions = ["SLY matches lexer patterns in definition order and resolves conflicts with the precedence tuple as documented",
                           "not decided: source/extern resolution, keyblob option semantics, the binary content of the generated commands (C04)"]


MANIFEST = {
    "level": "Static decision of the evaluator's operator table, lexer chain, precedence and statement-to-command operand flow for every program of the grammar: the rules are "
             "finite tables (operators, productions, handlers) and each is checked exhaustively on the source; semantic actions are abstractly interpreted to key sets.",
    "note": "Trusted: SLY semantics (definition-order matching, precedence), Python operator semantics. 19 unsupported productions and 7 key-flow exceptions are frozen with reasons. "
            "Not decided: values inside generated commands, section options (used by HAB BD files).",
    "technique": "static analysis: dispatch-table vs reference operator table, regex automata for token literals, abstract interpretation of grammar actions (key flow), routing dataflow, finite-model evaluation of grammar actions (operator table, size suffixes, identifier lookup), whole-function models of the statement handlers (load/program switch, blob split, defaults, key blob selection), regex automata inclusion for quoted literals, documented option names vs handler look-ups, legacy memory name table vs enum labels, FILL word value model (shared with C04), grammar actions interpreted on model tokens (blocks accumulate)",
}
