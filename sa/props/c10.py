"""C10 Bootloader protocols: status gates, phase agreement, partitions, framing, registries, bounded waits."""
from __future__ import annotations

import ast
from typing import Any, Dict, List, Optional, Set, Tuple

from ..core import astutil as A
from ..core.loader import AnalysisError
from ..core.report import norm
from ..core.symtab import struct_items
from ..engines import mustcheck, ordereval, wire
from ..engines.ordereval import Obj

MB = "spsdk/mboot/mcuboot.py"
MBC = "spsdk/mboot/commands.py"
SER = "spsdk/mboot/protocol/serial_protocol.py"
BULK = "spsdk/mboot/protocol/bulk_protocol.py"
SDP = "spsdk/sdp/sdp.py"
SDPS = "spsdk/sdp/sdps.py"

# methods that guard with isinstance(response, <SpecificResponse>) instead of the status comparison (reported, not armed)
TYPE_GUARD_IDIOM = ("tp_", "wpc_", "dsc_", "el2go_", "nxp_get_id", "ele_")


def _is_success_cmp(e: ast.AST) -> Optional[str]:
    """'==' / '!=' when e compares something.status (or a status variable) with StatusCode.SUCCESS."""
    if isinstance(e, ast.Compare) and len(e.ops) == 1:
        sides = [norm(e.left), norm(e.comparators[0])]
        if any(s == "StatusCode.SUCCESS" for s in sides) and any(s.endswith(".status") or s in ("status", "self.status_code", "self._status_code") for s in sides):
            if isinstance(e.ops[0], ast.Eq):
                return "=="
            if isinstance(e.ops[0], ast.NotEq):
                return "!="
    return None


def _under_success(node: ast.AST, fn_node: ast.AST) -> bool:
    """node is control dependent on a passing status comparison: inside the body of `if <==SUCCESS>` or after `if <!=SUCCESS>: return/raise`."""
    cur = node
    for anc in A.ancestors(node):
        if isinstance(anc, ast.If):
            ops = [_is_success_cmp(x) for x in ast.walk(anc.test)]
            in_body = any(cur is s or any(n is cur for n in ast.walk(s)) for s in anc.body)
            if "==" in ops and in_body and not (isinstance(anc.test, ast.BoolOp) and isinstance(anc.test.op, ast.Or)):
                return True
            if "!=" in ops and not in_body and anc.orelse:
                return True
        # early failure exit before this statement in the same block
        for field in ("body", "orelse"):
            blk = getattr(anc, field, None)
            if isinstance(blk, list) and any(cur is s for s in blk):
                for prev in blk[: [i for i, s in enumerate(blk) if s is cur][0]]:
                    if isinstance(prev, ast.If) and A.is_terminal(prev.body):
                        ops = [_is_success_cmp(x) for x in ast.walk(prev.test)]
                        if "!=" in ops and not (isinstance(prev.test, ast.BoolOp) and isinstance(prev.test.op, ast.And)):
                            return True
        if anc is fn_node:
            break
        cur = anc
    return False


def rule_status_gate(ctx) -> None:
    chk, prog = ctx.chk, ctx.prog
    cls = ctx.cls(MB, "McuBoot")
    n = 0
    for name, lst in sorted(cls.methods.items()):
        fn = lst[0]
        if name.startswith("_"):
            continue
        pcs = [c for c in A.calls_in(fn.node, "_process_cmd")]
        if not pcs:
            continue
        if name.startswith(TYPE_GUARD_IDIOM) or any("isinstance(" in norm(i.test) and "Response" in norm(i.test) for i in ast.walk(fn.node) if isinstance(i, ast.If)) and not any(_is_success_cmp(x) for x in ast.walk(fn.node)):
            chk.report(f"C10.status-gate (report only): {fn.qual} guards with a response-type test instead of the status comparison")
            continue
        chk.analysed(fn.qual)
        cmps = [x for x in ast.walk(fn.node) if _is_success_cmp(x)]
        special = name == "reset" and any("not in [StatusCode.NO_RESPONSE, StatusCode.SUCCESS]" in norm(x) or "not in [StatusCode.SUCCESS, StatusCode.NO_RESPONSE]" in norm(x) for x in ast.walk(fn.node) if isinstance(x, ast.Compare))
        n += 1
        construct = f"{fn.qual}"
        if not cmps and not special:
            chk.bad("C10.status-gate", construct, "the response of _process_cmd is never compared with StatusCode.SUCCESS", "result mirrors the device status", A.loc(MB, fn.node))
            continue
        problems = []
        # every data phase and every optimistic return must depend on the passing branch
        for c in A.calls_in(fn.node):
            if A.call_name(c) in ("_send_data", "_read_data") and isinstance(c.func, ast.Attribute) and norm(c.func.value) == "self":
                # load_image style: data sent without a command (NO_COMMAND) has no status to gate on
                if not pcs or c.lineno < min(p.lineno for p in pcs):
                    continue
                if not _under_success(A.enclosing_stmt(c), fn.node):
                    problems.append(f"data phase `{norm(c)[:60]}` does not depend on a successful command response")
        for r in A.returns_in(fn.node):
            if r.value is None:
                continue
            v = r.value
            txt = norm(v)
            if isinstance(v, ast.Constant) and v.value is True and not _under_success(r, fn.node) and not special:
                problems.append("`return True` does not depend on the status comparison")
        # the boolean results are the comparison itself
        if problems:
            for p in problems:
                chk.bad("C10.status-gate", construct, p, "data phases and positive results are control dependent on `status == StatusCode.SUCCESS`", A.loc(MB, fn.node))
        else:
            chk.ok("C10.status-gate", construct, f"{len(cmps)} status comparison(s); data phases/positive returns depend on the passing branch")
    chk.floor("C10.status-gate", 35)
    # SDP: `if self._process_cmd(...)` / `if not ...: return`
    scls = ctx.cls(SDP, "SDP")
    m = 0
    for name, lst in sorted(scls.methods.items()):
        fn = lst[0]
        if name.startswith("_"):
            continue
        for c in A.calls_in(fn.node, "_process_cmd"):
            m += 1
            st = A.enclosing_stmt(c)
            ok = False
            if isinstance(st, ast.Return) and st.value is c:
                ok = True
            if isinstance(st, ast.If) and any(n2 is c for n2 in ast.walk(st.test)):
                t = st.test
                if t is c:
                    ok = all(not isinstance(x, ast.Call) or A.call_name(x) not in ("_read_data", "_read_status") for s in st.orelse for x in ast.walk(s))
                elif isinstance(t, ast.UnaryOp) and isinstance(t.op, ast.Not) and t.operand is c:
                    ok = A.is_terminal(st.body)
            chk.decide(ok, "C10.status-gate", f"{fn.qual} (SDP)", "reads after the command depend on _process_cmd succeeding", norm(st)[:100], "if self._process_cmd(p): read ... / if not ...: return", A.loc(SDP, c))
    if m < 5:
        raise AnalysisError(f"C10.status-gate: only {m} SDP command sites found")


def rule_phase(ctx) -> None:
    chk = ctx.chk
    cls = ctx.cls(MB, "McuBoot")
    n = 0
    for name, lst in sorted(cls.methods.items()):
        fn = lst[0]
        if name.startswith("_"):
            continue
        packets = [c for c in A.calls_in(fn.node, "CmdPacket")]
        sends = [c for c in A.calls_in(fn.node, "_send_data") if norm(c.func.value) == "self"]
        reads = [c for c in A.calls_in(fn.node, "_read_data") if norm(c.func.value) == "self"]
        if not packets and not sends:
            continue
        flagged = [p for p in packets if len(p.args) > 1 and "HAS_DATA_PHASE" in norm(p.args[1])]
        n += 1
        construct = fn.qual
        real_sends = [s for s in sends if norm(s.args[0]) != "CommandTag.NO_COMMAND"]
        if len(flagged) != len(real_sends):
            chk.bad("C10.phase-agreement", construct, f"{len(flagged)} packet(s) announce a data phase but {len(real_sends)} data-out phase(s) follow", "a method sends data iff its packet carries HAS_DATA_PHASE", A.loc(MB, fn.node))
            continue
        ok = True
        detail = ""
        for p, s in zip(sorted(flagged, key=lambda c: c.lineno), sorted(real_sends, key=lambda c: c.lineno)):
            if norm(p.args[0]) != norm(s.args[0]):
                ok, detail = False, f"packet tag {norm(p.args[0])} but data phase tag {norm(s.args[0])}"
        for r in reads:
            tags = {norm(p.args[0]) for p in packets}
            if norm(r.args[0]) not in tags:
                ok, detail = False, f"data-in phase tag {norm(r.args[0])} is not the tag of a packet of this method ({sorted(tags)})"
        chk.decide(ok, "C10.phase-agreement", construct, f"{len(flagged)} data-out / {len(reads)} data-in phase(s) carry their packet's tag", detail, "phase tag = packet tag", A.loc(MB, fn.node))
    chk.floor("C10.phase-agreement", 40)
    # data-out length announced = len() of the data the chunks are split from
    for name in ("write_memory", "receive_sb_file"):
        fn = ctx.own(MB, "McuBoot", name)
        p = [c for c in A.calls_in(fn.node, "CmdPacket")][0]
        sp = [c for c in A.calls_in(fn.node, "_split_data")]
        src = norm(A.arg_of(sp[0], 0, "data")) if sp else ""
        lens = [norm(a) for a in p.args if norm(a).startswith("len(")]
        snd = [c for c in A.calls_in(fn.node, "_send_data")]
        chunks = norm(snd[0].args[1]) if snd else ""
        ok = lens == [f"len({src})"] and bool(sp) and norm(A.single_def(fn.node, chunks)) == norm(sp[0]) if A.single_def(fn.node, chunks) is not None else False
        chk.decide(bool(ok), "C10.phase-agreement", fn.qual + " length", f"announces len({src}) and sends the chunks split from the same `{src}`", f"announced {lens}, chunks from `{src}` via {chunks}", "", A.loc(MB, fn.node))


def _usb_read_model(ctx, fn, P: int, length: int, fail_at: Optional[int] = None, state: Optional[Dict[str, Any]] = None):
    """Evaluate read_memory's chunked USB branch on a model interface; returns (returned bytes length, [(address, len)] commands).
    The model command layer mirrors McuBoot: _process_cmd sets the status of its response, _read_data the final status of the data phase
    (FAIL, with no data, for the chunk `fail_at`)."""
    cmds: List[Tuple[int, int]] = []
    holder: Dict[str, Any] = {}
    SUCCESS = "SUCCESS"
    state = state if state is not None else {}
    state["status"] = SUCCESS

    def sym(x: ast.expr):
        t = norm(x)
        ev = holder["ev"]
        if isinstance(x, ast.Call):
            f = norm(x.func)
            if f == "isinstance":
                return "UsbDevice" in norm(x.args[1])
            if f == "_clamp_down_memory_id":
                return 0
            if f == "self._get_max_packet_size":
                return P
            if f == "CmdPacket":
                a = [ev.ev(y) if i >= 2 else None for i, y in enumerate(x.args)]
                return Obj(address=a[2], length=a[3])
            if f == "self._process_cmd":
                pk = ev.ev(x.args[0])
                cmds.append((pk.address, pk.length))
                state["status"] = SUCCESS
                return Obj(status=SUCCESS, length=pk.length)
            if f == "self._read_data":
                if fail_at is not None and len(cmds) - 1 == fail_at:
                    state["status"] = "FAIL"
                    return b""
                return bytes(ev.ev(x.args[1]))
        if t == "StatusCode.SUCCESS":
            return SUCCESS
        if t == "StatusCode.NO_RESPONSE":
            return "NO_RESPONSE"
        if t == "self._status_code":
            return state["status"]
        if t == "StatusCode.FAIL":
            return "FAIL"
        if isinstance(x, ast.JoinedStr):
            return ""
        return None
    ev = ordereval.Evaluator({"address": 1000, "length": length, "mem_id": 0, "progress_callback": None, "fast_mode": False}, sym, opaque_return=False)
    holder["ev"] = ev
    out = ev.run(A.body_of(fn.node))
    return out, cmds


def rule_partition(ctx) -> None:
    chk = ctx.chk
    # _split_data
    fn = ctx.own(MB, "McuBoot", "_split_data")
    rets = A.returns_in(fn.node)
    comp = [r for r in rets if isinstance(r.value, ast.ListComp)]
    if not comp:
        raise AnalysisError("C10.partition: _split_data chunking comprehension not found")
    e = A.inline_locals(fn.node, comp[0].value)
    cex = None
    n = 0
    for P in (1, 4):
        for L in range(0, 3 * P + 2):
            data = bytes(range(L))
            sym = lambda x, P=P: P if norm(x) in ("self._get_max_packet_size()", "max_packet_size") else None  # noqa: E731
            try:
                blocks = ordereval.Evaluator({"data": data}, sym).ev(e)
            except ordereval.Unsupported as ex:
                raise AnalysisError(f"C10.partition: _split_data left the fragment: {ex}")
            n += 1
            ok = b"".join(blocks) == data and all(0 < len(b) <= P for b in blocks)
            if not ok and cex is None:
                cex = (P, L, [len(b) for b in blocks])
    chk.exhaustive_rules.add("C10.partition")
    chk.decide(cex is None, "C10.partition", fn.qual, f"chunks are non-empty, at most max_packet_size long and concatenate to the data ({n} cases)", f"packet size {cex[0]}, {cex[1]} bytes: chunk lengths {cex[2]}" if cex else "", "", A.loc(MB, fn.node))
    first = A.body_of(fn.node)[0]
    chk.decide(isinstance(first, ast.If) and norm(first.test) == "not self._interface.need_data_split" and norm(first.body[0]) == "return [data]", "C10.partition", fn.qual + " unsplit", "interfaces that frame themselves get the data in one piece", norm(first)[:80], "", A.loc(MB, fn.node))
    # read_memory over USB-HID: consecutive non-empty reads that cover exactly [address, address+length)
    rm = ctx.own(MB, "McuBoot", "read_memory")
    cex = None
    n = 0
    for P in (4, 7):
        for L in range(0, 3 * P + 2):
            try:
                out, cmds = _usb_read_model(ctx, rm, P, L)
            except ordereval.Unsupported as ex:
                raise AnalysisError(f"C10.partition: read_memory left the fragment: {ex}")
            n += 1
            exp_cmds = [(1000 + i, min(P, L - i)) for i in range(0, L, P)]
            ok = out.kind == "return" and isinstance(out.value, bytes) and len(out.value) == L and [(a, l) for a, l in cmds] == exp_cmds
            if not ok and cex is None:
                cex = (P, L, len(out.value) if isinstance(out.value, bytes) else out.value, cmds)
    chk.decide(cex is None, "C10.partition", rm.qual + " (USB chunked)", f"ReadMemory commands tile [address, address+length) with non-empty chunks of at most the packet size and all bytes are returned ({n} cases incl. exact multiples)",
               f"packet size {cex[0]}, length {cex[1]}: returned {cex[2]} bytes via commands {cex[3]}" if cex else "", "one command per chunk, no zero-length command", A.loc(MB, rm.node))
    # a chunk whose data phase fails (exceptions off) ends the operation: no further command is sent, whose response would reset the
    # status to SUCCESS in front of wrong / partial data
    cex = None
    n = 0
    for P in (4, 7):
        for k in (0, 1, 2):
            st: Dict[str, Any] = {}
            try:
                out, cmds = _usb_read_model(ctx, rm, P, 3 * P + 1, fail_at=k, state=st)
            except ordereval.Unsupported as ex:
                raise AnalysisError(f"C10.faults-surface: read_memory left the fragment: {ex}")
            n += 1
            if not (out.kind == "return" and len(cmds) == k + 1 and st["status"] == "FAIL") and cex is None:
                cex = (P, k, len(cmds), st["status"], len(out.value) if isinstance(out.value, bytes) else out.value)
    chk.decide(cex is None, "C10.faults-surface", rm.qual + " (USB chunked, failing data phase)", f"the operation stops at the chunk whose data phase failed and the failure status stays visible ({n} cases)",
               f"packet size {cex[0]}, data phase of chunk {cex[1]} fails: {cex[2]} commands sent, final status {cex[3]}, {cex[4]} bytes returned" if cex else "", "return at the failing chunk", A.loc(MB, rm.node))
    # SDP._read_data: loops until `length` bytes have arrived whatever the burst size
    rd = ctx.own(SDP, "SDP", "_read_data")
    cex = None
    n = 0
    for burst in (1, 3, 64, 100):
        for L in (0, 1, 5, 63, 64, 65, 130):
            reads: List[int] = []
            holder: Dict[str, Any] = {}

            def sym(x: ast.expr, burst=burst, reads=reads):
                if isinstance(x, ast.Call) and norm(x.func) == "self._interface.read":
                    want = holder["ev"].ev(x.args[0]) if x.args else 64
                    reads.append(want)
                    return Obj(hab=False, raw_data=bytes(min(want, burst)), value=0)
                return None
            ev = ordereval.Evaluator({"length": L}, sym, opaque_return=False)
            holder["ev"] = ev
            try:
                out = ev.run(A.body_of(rd.node))
            except ordereval.Unsupported as ex:
                raise AnalysisError(f"C10.partition: SDP._read_data left the fragment: {ex}")
            n += 1
            ok = out.kind == "return" and isinstance(out.value, bytes) and len(out.value) == L and all(0 < r <= 64 for r in reads)
            if not ok and cex is None:
                cex = (burst, L, len(out.value) if isinstance(out.value, bytes) else out.value, reads[:6])
    chk.decide(cex is None, "C10.partition", rd.qual, f"keeps reading (at most 64 bytes per request) until exactly `length` bytes have arrived, for every burst size of the link ({n} cases)",
               f"link delivers {cex[0]} bytes per read, length {cex[1]}: returned {cex[2]} bytes after requests {cex[3]}" if cex else "", "complete data or an exception", A.loc(SDP, rd.node))
    # SDP / SDPS USB-HID: the payload is cut into ceil(len/report_size) reports, each padded to the report size
    BP = "spsdk/sdp/protocol/bulk_protocol.py"
    cfs, cf = ctx.own(BP, "SDPBulkProtocol", "_create_frames"), ctx.own(BP, "SDPBulkProtocol", "_create_frame")
    cex = None
    n = 0
    for P in (4, 5):
        for L in range(0, 3 * P + 2):
            data = bytes(range(1, L + 1))

            def sym(x: ast.expr, P=P):
                if isinstance(x, ast.Call) and norm(x.func) == "self._create_frame":
                    outer = holder2["ev"]
                    b = A.bind_args(cf.node, x, skip_self=True) or {}
                    env = {k: outer.ev(v) for k, v in b.items()}
                    env.setdefault("offset", 0)
                    inner = ordereval.Evaluator(env, opaque_return=False)
                    o = inner.run(A.body_of(cf.node))
                    if o.kind != "return":
                        raise ordereval.Unsupported(x, "helper did not return")
                    return o.value
                return None
            holder2: Dict[str, Any] = {}
            ev = ordereval.Evaluator({"data": data, "report_id": 9, "report_size": P}, sym, opaque_return=False)
            holder2["ev"] = ev
            try:
                out = ev.run(A.body_of(cfs.node))
            except ordereval.Unsupported as ex:
                raise AnalysisError(f"C10.partition: SDP _create_frames left the fragment: {ex}")
            n += 1
            frames = list(out.value) if out.kind == "return" and isinstance(out.value, (tuple, list)) else None
            want = -(-L // P)
            ok = frames is not None and len(frames) == want and all(isinstance(f, (bytes, bytearray)) and len(f) == P + 1 and f[0] == 9 for f in frames) and b"".join(bytes(f[1:]) for f in frames)[:L] == data
            if not ok and cex is None:
                cex = (P, L, None if frames is None else len(frames), want)
    chk.decide(cex is None, "C10.partition", cfs.qual, f"a payload becomes exactly ceil(len/report size) HID reports, each report id + report size bytes, whose payloads concatenate to the data ({n} cases incl. empty and exact multiples)",
               f"report size {cex[0]}, {cex[1]} bytes: {cex[2]} reports sent, the protocol defines {cex[3]}" if cex else "", "no report beyond the announced byte count", A.loc(BP, cfs.node))
    # a read error inside the loop raises SdpConnectionError
    tr = [t for t in ast.walk(rd.node) if isinstance(t, ast.Try)]
    ok = bool(tr) and all(A.always_raises(h.body) and "SdpConnectionError" in norm(h.body[-1]) for h in tr[0].handlers)
    chk.decide(ok, "C10.faults-surface", rd.qual, "a failing/timeout read raises SdpConnectionError (never a partial success)", "", "", A.loc(SDP, rd.node))


def rule_frame(ctx) -> None:
    chk, prog = ctx.chk, ctx.prog
    cf = ctx.own(SER, "MbootSerialProtocol", "_create_frame")
    cc = ctx.own(SER, "MbootSerialProtocol", "_calc_frame_crc")
    rd = ctx.own(SER, "MbootSerialProtocol", "read")
    from ..engines import bytelayout
    fold = lambda e: prog.fold(e, cf.module, cf.cls)  # noqa: E731

    def canon(fields):
        out = []
        for f in bytelayout.merge_consts(fields):
            d = f.desc()
            if f.kind == "int":
                out.append((f.size, "int", f.order if f.size and f.size > 1 else "-", f.src))
            elif f.kind == "const" and f.value is not None and len(f.value) == 1:
                out.append((1, "int", "-", str(f.value[0])))
            else:
                out.append((f.size, f.kind, f.src))
        return out
    lay = bytelayout.Layout(fold, cf.node).run(A.body_of(cf.node))
    sb = str(fold(ast.parse("self.FRAME_START_BYTE").body[0].value))
    l1 = canon(lay or [])
    want1 = [(1, "int", "-", sb), (1, "int", "-", "frame_type.tag"), (2, "int", "little", "len(data)"), (2, "int", "little", "self._calc_frame_crc(data, frame_type.tag)"), (None, "bytes", "data")]
    l1n = [(sz, k, o, sb if src == "self.FRAME_START_BYTE" else src) if k == "int" else (sz, k, o) for (sz, k, o, *rest) in [x if len(x) == 4 else (x[0], x[1], x[2]) for x in l1] for src in [rest[0] if rest else None]]
    crc_calls = [c for c in ast.walk(cc.node) if isinstance(c, ast.Call) and norm(c.func) == "self._calc_crc"]
    lay2 = None
    if len(crc_calls) == 1:
        L2 = bytelayout.Layout(fold, cc.node)
        L2.run(A.body_of(cc.node))
        lay2 = L2.expr(crc_calls[0].args[0])
    l2 = canon(lay2 or [])
    l2n = [(sz, k, o, sb if src == "self.FRAME_START_BYTE" else src) if k == "int" else (sz, k, o) for (sz, k, o, *rest) in [x if len(x) == 4 else (x[0], x[1], x[2]) for x in l2] for src in [rest[0] if rest else None]]
    want2 = [(1, "int", "-", sb), (1, "int", "-", "frame_type"), (2, "int", "little", "len(data)"), (None, "bytes", "data")]
    # the byte layout read off the syntax is a cross-reference only: the frame and its CRC input are DECIDED by C10.serial-model, which
    # interprets _create_frame / _calc_frame_crc and compares the bytes with the reference frame (an assembly the normal form does not
    # recognise - e.g. a packed header plus bytes(data) - is therefore reported, not alarmed)
    if l1n == want1 and l2n == want2:
        chk.ok("C10.frame", f"{SER}::MbootSerialProtocol frame", "frame = start | type | length(LE16) | crc(LE16) | payload; CRC input = the same fields without the crc (byte layout normal form)")
    else:
        chk.report(f"C10.frame (cross-reference): frame layout normal form {l1n}; CRC input {l2n} - not the recognised shape; the frame bytes are decided by C10.serial-model")
    crc_calls2 = [norm(c) for c in ast.walk(cf.node) if isinstance(c, ast.Call) and norm(c.func) == "self._calc_frame_crc"]
    chk.decide(crc_calls2 == ["self._calc_frame_crc(data, frame_type.tag)"], "C10.frame", cf.qual + " crc", "the frame carries the CRC of its own type and payload", f"{crc_calls2}", "", A.loc(SER, cf.node))
    # reader: 2-byte length, 2-byte crc, payload of that length, CRC recomputed over (payload, frame type) and compared -> raise
    reads = [norm(c.args[0]) for c in A.calls_in(rd.node, "_read")]
    chk.decide(reads == ["2", "2", "_length"], "C10.frame", rd.qual + " fields", "reads length(2), crc(2) and exactly `length` payload bytes", f"{reads}", "['2', '2', '_length']", A.loc(SER, rd.node))
    mustcheck.check_function(ctx, "C10.frame", rd, {"_calc_frame_crc"}, (), 1, label="crc ")
    calc = [c for c in A.calls_in(rd.node, "_calc_frame_crc")]
    chk.decide(bool(calc) and [norm(a) for a in calc[0].args] == ["data", "frame_type"], "C10.frame", rd.qual + " crc input", "CRC is recomputed over the received payload and frame type", norm(calc[0]) if calc else "", "", A.loc(SER, rd.node))
    body = A.body_of(rd.node)
    z = [s for s in body if isinstance(s, ast.If) and norm(s.test) == "not _length" and A.always_raises(s.body) and "McuBootDataAbortError" in norm(s.body[-1])]
    chk.decide(bool(z), "C10.frame", rd.qual + " abort", "a zero-length frame raises McuBootDataAbortError", "", "", A.loc(SER, rd.node))
    # returns only after the CRC guard
    guard_line = min((s.lineno for s in body if isinstance(s, ast.If) and "crc" in norm(s.test) and A.always_raises(s.body)), default=10**9)
    rl = [r.lineno for r in A.returns_in(rd.node)]
    chk.decide(bool(rl) and all(l > guard_line for l in rl), "C10.frame", rd.qual + " order", "both returns come after the CRC guard", f"guard line {guard_line}, returns {rl}", "", A.loc(SER, rd.node))
    # non-ACK frames wait for ACK
    sf = ctx.own(SER, "MbootSerialProtocol", "_send_frame")
    d = {a.arg: norm(v) for a, v in zip(sf.node.args.args[-len(sf.node.args.defaults):], sf.node.args.defaults)}
    chk.decide(d.get("wait_for_ack") == "True" and any(isinstance(s, ast.If) and norm(s.test) == "wait_for_ack" and "self._read_frame_header(FPType.ACK)" in norm(s) for s in A.body_of(sf.node)), "C10.frame", sf.qual, "frames wait for the ACK by default", f"{d}", "", A.loc(SER, sf.node))
    for mname in ("write_data", "write_command"):
        f = ctx.own(SER, "MbootSerialProtocol", mname)
        s = [c for c in A.calls_in(f.node, "_send_frame")]
        chk.decide(bool(s) and len(s[0].args) == 1 and not s[0].keywords, "C10.frame", f.qual, "data and command frames are sent with ACK wait", norm(s[0]) if s else "", "self._send_frame(frame)", A.loc(SER, f.node))
    wd = ctx.own(SER, "MbootSerialProtocol", "write_data")
    c = [x for x in A.calls_in(wd.node, "_create_frame")]
    chk.decide(bool(c) and [norm(a) for a in c[0].args] == ["data", "FPType.DATA"], "C10.frame", wd.qual + " type", "data frames carry FPType.DATA", norm(c[0]) if c else "", "", A.loc(SER, wd.node))
    wc = ctx.own(SER, "MbootSerialProtocol", "write_command")
    c = [x for x in A.calls_in(wc.node, "_create_frame")]
    chk.decide(bool(c) and [norm(a) for a in c[0].args] == ["data", "FPType.CMD"], "C10.frame", wc.qual + " type", "command frames carry FPType.CMD", norm(c[0]) if c else "", "", A.loc(SER, wc.node))
    crc = ctx.own(SER, "MbootSerialProtocol", "_calc_crc")
    chk.decide("CrcAlg.CRC16_XMODEM" in norm(crc.node), "C10.frame", crc.qual, "frame CRC is CRC-16/XMODEM", "", "", A.loc(SER, crc.node))
    # header checks
    rh = ctx.own(SER, "MbootSerialProtocol", "_read_frame_header")
    tests = [norm(s.test) for s in ast.walk(rh.node) if isinstance(s, ast.If) and A.always_raises(s.body)]
    for want in ("header not in [self.FRAME_START_BYTE, FPType.ACK]", "frame_type == FPType.ABORT", "frame_type != expected_frame_type"):
        chk.decide(want in tests, "C10.frame", f"{rh.qual} `{want}`", "invalid header / abort / unexpected frame type raises", f"{tests}", "", A.loc(SER, rh.node))
    # command packets
    wire.check_pair(ctx, "C10.wire", MBC, "CmdHeader", "to_bytes", "from_bytes")


def rule_registry(ctx) -> None:
    chk, prog = ctx.chk, ctx.prog
    m = ctx.m(MBC)
    fn = ctx.func(MBC, "parse_cmd_response")
    d = [n for n in ast.walk(fn.node) if isinstance(n, ast.Dict)]
    if not d:
        raise AnalysisError("C10.response-registry: response map not found")
    known = {norm(k).split(".")[-1]: norm(v) for k, v in zip(d[0].keys, d[0].values)}
    enum = ctx.cls(MBC, "ResponseTag")
    members = [k for k, v in enum.consts.items() if isinstance(prog.fold(v, m, enum), tuple)]
    missing = [x for x in members if x not in known]
    fallback = "GenericResponse" in norm(fn.node)
    chk.decide(not missing or fallback, "C10.response-registry", fn.qual, f"{len(known)} response tags mapped; others fall back to GenericResponse", f"unmapped {missing}", "", A.loc(MBC, fn.node))
    for cn in ("CommandTag", "ResponseTag"):
        e = ctx.cls(MBC, cn)
        tags = [prog.fold(v, m, e)[0] for k, v in e.consts.items() if isinstance(prog.fold(v, m, e), tuple)]
        chk.decide(len(set(tags)) == len(tags) and len(tags) > 5, "C10.response-registry", f"{MBC}::{cn}", f"{len(tags)} unique tags", f"{tags}", "", A.loc(MBC, e.node))
    # status and properties are reported as the device sent them: _process_cmd copies response.status
    pc = ctx.own(MB, "McuBoot", "_process_cmd")
    st = [norm(s) for s in A.walk_no_nested(pc.node) if isinstance(s, ast.Assign) and norm(s.targets[0]) == "self._status_code"]
    chk.decide("self._status_code = response.status" in st, "C10.status-mirror", pc.qual, "status_code mirrors the device's response status", f"{st}", "", A.loc(MB, pc.node))
    r = A.returns_in(pc.node)
    chk.decide(bool(r) and norm(r[-1].value) == "response", "C10.status-mirror", pc.qual + " return", "the response object itself is returned", norm(r[-1]) if r else "", "", A.loc(MB, pc.node))
    gp = ctx.own(MB, "McuBoot", "get_property")
    rr = [norm(x.value) for x in A.returns_in(gp.node)]
    chk.decide("cmd_response.values" in rr, "C10.status-mirror", gp.qual, "property values are the response's values", f"{rr}", "", A.loc(MB, gp.node))
    # timeouts become NO_RESPONSE (failure), never success
    trs = [t for t in ast.walk(pc.node) if isinstance(t, ast.Try)]
    ok = bool(trs) and any(norm(h.type) == "TimeoutError" and any("StatusCode.NO_RESPONSE" in norm(s) for s in h.body) for h in trs[0].handlers)
    chk.decide(ok, "C10.faults-surface", pc.qual, "a missing response is reported as NO_RESPONSE", "", "", A.loc(MB, pc.node))
    exc = [s for s in A.walk_no_nested(pc.node) if isinstance(s, ast.If) and "self._cmd_exception" in norm(s.test)]
    ok = bool(exc) and norm(exc[0].test) == "self._cmd_exception and self._status_code != StatusCode.SUCCESS" and A.always_raises(exc[0].body)
    chk.decide(ok, "C10.faults-surface", pc.qual + " exception mode", "in exception mode every non-success status raises McuBootCommandError", norm(exc[0].test) if exc else "", "", A.loc(MB, pc.node))
    # _send_data: result is failure unless the final response is SUCCESS and all bytes were sent
    sd = ctx.own(MB, "McuBoot", "_send_data")
    last = A.body_of(sd.node)[-1]
    chk.decide(isinstance(last, ast.Return) and norm(last.value) == "total_sent == total_to_send", "C10.faults-surface", sd.qual, "success requires every byte to have been sent", norm(last)[:80], "", A.loc(MB, sd.node))
    iff = [s for s in ast.walk(sd.node) if isinstance(s, ast.If) and norm(s.test) == "response.status != StatusCode.SUCCESS"]
    chk.decide(bool(iff) and isinstance(iff[0].body[-1], ast.Return) and norm(iff[0].body[-1].value) == "False", "C10.faults-surface", sd.qual + " status", "a non-success final response gives False", "", "", A.loc(MB, sd.node))
    # _read_data: partial data is flagged (status / exception), never trimmed silently upward
    rdf = ctx.own(MB, "McuBoot", "_read_data")
    iff = [s for s in A.body_of(rdf.node) if isinstance(s, ast.If) and "len(data) < length" in norm(s.test)]
    ok = bool(iff) and norm(iff[0].test) == "len(data) < length or self.status_code != StatusCode.SUCCESS" and any(isinstance(x, ast.If) and norm(x.test) == "self._cmd_exception" and A.always_raises(x.body) for x in iff[0].body)
    chk.decide(ok, "C10.faults-surface", rdf.qual, "short data or a failure status is detected (exception in exception mode)", norm(iff[0].test) if iff else "", "", A.loc(MB, rdf.node))


def rule_bounded(ctx) -> None:
    chk = ctx.chk
    n = 0
    for rp in (MB, SER, BULK, SDP, SDPS, "spsdk/sdp/protocol/serial_protocol.py", "spsdk/sdp/protocol/bulk_protocol.py"):
        if not ctx.repo.exists(rp):
            continue
        m = ctx.m(rp)
        for w in [x for x in ast.walk(m.tree) if isinstance(x, ast.While)]:
            n += 1
            t = norm(w.test)
            body_txt = norm(ast.Module(body=w.body, type_ignores=[]))
            fn = [a for a in A.ancestors(w) if isinstance(a, ast.FunctionDef)]
            name = fn[0].name if fn else "<module>"
            if "get_property(" in body_txt:
                continue  # enumeration over property indices (ends at the first failing query), not a wait
            bounded = ("timeout" in t.lower() or "overflow" in t or ">" in t or "<" in t or
                       ("True" == t and (".read(" in body_txt or "_read(" in body_txt) and ("break" in body_txt or "return" in body_txt or "raise" in body_txt)))
            chk.decide(bounded, "C10.bounded-wait", f"{rp}::{name} while `{t[:40]}`", "loop exit depends on a timeout object, a shrinking counter or a device read that raises on timeout", f"while {t}: no bounded exit recognised", "", A.loc(rp, w))
    if n < 4:
        raise AnalysisError(f"C10.bounded-wait: only {n} loops found")


def rule_data_phase_model(ctx) -> None:
    """C10.data-phase-model: McuBoot._read_data and _send_data evaluated as whole functions against a scripted model interface.
    Bytes read are returned exactly, completely and in order (cut to the requested length), a response to another command does not
    end the phase, the final status decides success; bytes written reach the interface once, in order, then the final response is read
    and its status is the result."""
    mb = ctx.cls(MB, "McuBoot")
    tags = ctx.enum_model(ctx.cls(MBC, "CommandTag"))
    status = ctx.enum_model(ctx.cls("spsdk/mboot/error_codes.py", "StatusCode"))
    if tags is None or status is None:
        raise AnalysisError("C10.data-phase-model: CommandTag / StatusCode do not fold to enum models")
    READ, OTHER, NOCMD = tags.READ_MEMORY, tags.WRITE_MEMORY, tags.NO_COMMAND
    OKS, FAIL = status.SUCCESS.tag, status.FAIL.tag

    def resp(tag, st):
        return Obj(_resp=True, cmd_tag=tag.tag, status=st)

    def model(fn_name, script, env_extra, cmd_exception):
        written: List[bytes] = []
        queue = list(script)

        def leaves(c: ast.Call, ev):
            f = norm(c.func)
            if f == "self._interface.read" and not c.args:
                if not queue:
                    raise ordereval.Unsupported(c, "the model device has nothing more to send (the loop reads past the final response)")
                return queue.pop(0)
            if f == "self._interface.write_data" and len(c.args) == 1:
                written.append(bytes(ev.ev(c.args[0])))
                return None
            if f == "isinstance" and len(c.args) == 2 and norm(c.args[1]) in ("GenericResponse", "CmdResponse", "(GenericResponse, CmdResponse)"):
                v = ev.ev(c.args[0])
                return isinstance(v, Obj) and "_resp" in v.__dict__
            return ordereval.NOT_MODELLED
        fn = ctx.own(MB, "McuBoot", fn_name)
        me = Obj(_cls=mb, is_opened=True, _interface=Obj(allow_abort=False), _cmd_exception=cmd_exception, _status_code=OKS, enable_data_abort=False, _pause_point=None)
        env = {"self": me, "progress_callback": None}
        env.update(env_extra)
        try:
            out = ordereval.Evaluator(env, ctx.fold_sym(fn), opaque_return=False, call_value=ctx.model_calls(leaves, classes={"McuBoot": mb})).run(A.body_of(fn.node))
        except ordereval.Unsupported as ex:
            raise AnalysisError(f"C10.data-phase-model: {fn.qual} left the fragment: {ex}")
        return out, written, me, len(queue)
    probs = []
    n = 0
    reads = [
        ("two packets, exact length", [b"abcd", b"efgh", resp(READ, OKS)], 8, False, ("return", b"abcdefgh")),
        ("device sends more than requested", [b"abcd", b"efgh", resp(READ, OKS)], 6, False, ("return", b"abcdef")),
        ("a response to another command in between", [b"ab", resp(OTHER, OKS), b"cd", resp(READ, OKS)], 4, False, ("return", b"abcd")),
        ("no data, success", [resp(READ, OKS)], 0, True, ("return", b"")),
        ("final status FAIL, exceptions off", [b"ab", resp(READ, FAIL)], 4, False, ("return", b"ab")),
        ("final status FAIL, exceptions on", [b"ab", resp(READ, FAIL)], 4, True, ("raise", None)),
        ("short data, exceptions on", [b"ab", resp(READ, OKS)], 4, True, ("raise", None)),
    ]
    for label, script, length, exc, want in reads:
        out, _w, me, left = model("_read_data", script, {"cmd_tag": READ, "length": length}, exc)
        n += 1
        got = (out.kind, bytes(out.value) if isinstance(out.value, (bytes, bytearray)) else None)
        if got != want or left:
            probs.append(f"_read_data, {label}: {got} (unread script items {left}), expected {want}")
        elif want[0] == "return" and me._status_code != script[-1].status:
            probs.append(f"_read_data, {label}: status {me._status_code} is not the device's {script[-1].status}")
    # exceptions off, the device closes the data phase with SUCCESS before all requested bytes arrived: partial data must not look like success
    out, _w, me, left = model("_read_data", [b"ab", resp(READ, OKS)], {"cmd_tag": READ, "length": 4}, False)
    n += 1
    short_ok = not (out.kind == "return" and isinstance(out.value, (bytes, bytearray)) and len(out.value) < 4 and me._status_code == OKS)
    ctx.chk.decide(short_ok, "C10.short-read", f"{MB}::McuBoot._read_data", "fewer bytes than requested are not reported with status SUCCESS (exceptions off)",
                   "with cmd_exception off a data phase that ends early with a SUCCESS final response returns the partial data and leaves status_code SUCCESS", "failure status or an exception", A.loc(MB, ctx.own(MB, "McuBoot", "_read_data").node))
    sends = [
        ("two chunks, success", READ, [b"ab", b"cde"], [resp(READ, OKS)], False, ("return", True), [b"ab", b"cde"]),
        ("device reports FAIL, exceptions off", READ, [b"ab", b"cde"], [resp(READ, FAIL)], False, ("return", False), [b"ab", b"cde"]),
        ("device reports FAIL, exceptions on", READ, [b"ab"], [resp(READ, FAIL)], True, ("raise", None), [b"ab"]),
        ("no response expected", NOCMD, [b"ab", b"c"], [], False, ("return", True), [b"ab", b"c"]),
        ("no data", READ, [], [resp(READ, OKS)], False, ("return", True), []),
    ]
    for label, tag, chunks, script, exc, want, want_w in sends:
        out, written, me, left = model("_send_data", script, {"cmd_tag": tag, "data": tuple(chunks)}, exc)
        n += 1
        got = (out.kind, out.value if out.kind == "return" else None)
        if got != want or written != want_w or left:
            probs.append(f"_send_data, {label}: {got}, written {written} (unread {left}), expected {want} and {want_w}")
    # SDP._read_data against a model ROM that serves the stream in the requested portions (a HAB status report may come in between)
    sfn = ctx.own(SDP, "SDP", "_read_data")
    sdp = ctx.cls(SDP, "SDP")
    for length, hab_at in ((0, None), (5, None), (64, None), (65, None), (150, None), (150, 1)):
        stream = bytes((7 * i + 1) & 0xFF for i in range(400))
        state = {"pos": 0, "calls": 0, "asked": []}

        def leaves2(c: ast.Call, ev, state=state, hab_at=hab_at, stream=stream):
            if norm(c.func) == "self._interface.read" and len(c.args) == 1:
                k = ev.ev(c.args[0])
                state["calls"] += 1
                if state["calls"] > 20:
                    raise ordereval.Unsupported(c, "the read loop does not terminate on the model")
                if hab_at is not None and state["calls"] == hab_at + 1:
                    return Obj(hab=True, value=0x56787856, raw_data=b"")
                state["asked"].append(k)
                chunk = stream[state["pos"]:state["pos"] + k]
                state["pos"] += k
                return Obj(hab=False, value=0, raw_data=chunk)
            return ordereval.NOT_MODELLED
        me = Obj(_cls=sdp, _interface=Obj(expect_status=True), _hab_status=0, _status_code=0)
        try:
            out = ordereval.Evaluator({"self": me, "length": length}, ctx.fold_sym(sfn), opaque_return=False,
                                      call_value=ctx.model_calls(leaves2, classes={"SDP": sdp})).run(A.body_of(sfn.node))
        except ordereval.Unsupported as ex:
            raise AnalysisError(f"C10.data-phase-model: {sfn.qual} left the fragment: {ex}")
        n += 1
        ok = out.kind == "return" and isinstance(out.value, (bytes, bytearray)) and bytes(out.value) == stream[:length] and all(0 < k <= 64 for k in state["asked"]) and sum(state["asked"]) == length
        if not ok:
            probs.append(f"SDP._read_data({length}){' with a HAB report' if hab_at is not None else ''}: {out.kind} {bytes(out.value)[:12].hex() if isinstance(out.value, (bytes, bytearray)) else out.value!r}, portions asked {state['asked']}")
    ctx.chk.exhaustive_rules.add("C10.data-phase-model")
    ctx.chk.decide(not probs, "C10.data-phase-model", f"{MB}::McuBoot._read_data/_send_data, {SDP}::SDP._read_data", f"data phases move exactly the scripted bytes, in order, and report the device's final status ({n} scripted devices)",
                   "; ".join(probs[:2])[:700], "", A.loc(MB, ctx.own(MB, "McuBoot", "_read_data").node))


def rule_command_model(ctx) -> None:
    """C10.command-model: every public McuBoot operation that sends a command is evaluated as a whole function against a model of the
    command layer: `_process_cmd` answers with a response of the scripted status (a specific response class on success, a generic one on
    failure - what `parse_cmd_response` produces for an error status), `_send_data` / `_read_data` are scripted and logged.  Obligations
    (the property's "results mirror the device"): a failing command gives a negative result (False / None) and NO data phase; a
    successful command (and data phase) gives a positive one (True / not None); a data-out phase that fails gives a negative result;
    bytes handed over by `_read_data` are what a reading operation returns."""
    mb = ctx.cls(MB, "McuBoot")
    status = ctx.enum_model(ctx.cls("spsdk/mboot/error_codes.py", "StatusCode"))
    if status is None:
        raise AnalysisError("C10.command-model: StatusCode does not fold to an enum model")
    OKS, FAIL = status.SUCCESS.tag, status.FAIL.tag
    DATA = b"12345678"

    def argmodel(a: ast.arg):
        ann = norm(a.annotation) if a.annotation is not None else ""
        return {"int": 0x20, "bytes": b"abcdefgh", "bool": False, "str": "x"}.get(ann)

    def evaluate(fn, cmd_status, send_ok):
        log: List[str] = []

        def leaves(c: ast.Call, ev):
            f = norm(c.func)
            if f == "self._process_cmd":
                log.append("cmd")
                ev.env["self"]._status_code = cmd_status
                return Obj(_resp=True, _specific=cmd_status == OKS, status=cmd_status, value=5, values=(7, 8), raw_size=8, max_packet_size=32, length=8, data=DATA)
            if f == "self._send_data":
                log.append("send")
                return send_ok
            if f == "self._read_data":
                log.append("read")
                return DATA
            if f == "self._split_data" and len(c.args) == 1:
                d = ev.ev(c.args[0])
                return (d[:4], d[4:])
            if f == "CmdPacket":
                for a_ in c.args:
                    ev.ev(a_)
                return Obj(_pkt=True)
            if f in ("_clamp_down_memory_id", "clamp_down_memory_id"):
                return ev.ev(c.args[0] if c.args else c.keywords[0].value)
            if f == "get_property_tag_label" and len(c.args) == 1:
                return (ev.ev(c.args[0]) if not isinstance(ev.ev(c.args[0]), Obj) else 1, "label")
            if f in ("self.close", "self.open", "self._interface.close", "self._interface.open", "time.sleep"):
                return None
            if f == "isinstance" and len(c.args) == 2:
                v = ev.ev(c.args[0])
                if isinstance(v, Obj) and "_resp" in v.__dict__:
                    names = [norm(x) for x in (c.args[1].elts if isinstance(c.args[1], ast.Tuple) else [c.args[1]])]
                    if all(nm.endswith("Response") for nm in names):
                        return True if any(nm in ("GenericResponse", "CmdResponse") for nm in names) else v._specific
            return ordereval.NOT_MODELLED
        me = Obj(_cls=mb, is_opened=True, _interface=Obj(allow_abort=False, need_data_split=True), _cmd_exception=False, _status_code=OKS,
                 enable_data_abort=False, _pause_point=None, reopen=False, max_packet_size=4)
        env: Dict[str, Any] = {"self": me}
        args = fn.node.args
        defaults = dict(zip([a.arg for a in args.args][len(args.args) - len(args.defaults):], args.defaults))
        for a in args.args[1:]:
            env[a.arg] = ordereval.Evaluator({}, ctx.fold_sym(fn)).ev(defaults[a.arg]) if a.arg in defaults else argmodel(a)
        out = ordereval.Evaluator(env, ctx.fold_sym(fn), opaque_return=False, call_value=ctx.model_calls(leaves, classes={"McuBoot": mb}, module=MB)).run(A.body_of(fn.node))
        return out, log

    n = 0
    skipped = []
    for name, lst in sorted(mb.methods.items()):
        fn = lst[0]
        if name.startswith("_") or not list(A.calls_in(fn.node, "_process_cmd")):
            continue
        ret = norm(fn.node.returns) if fn.node.returns is not None else ""
        kind = "bool" if ret == "bool" else "optional" if ret.startswith("Optional[") else None
        if kind is None:
            skipped.append(f"{name} (returns {ret})")
            continue
        has_send = bool(list(A.calls_in(fn.node, "_send_data")))
        has_read = bool(list(A.calls_in(fn.node, "_read_data")))
        try:
            runs = {"fail": evaluate(fn, FAIL, True), "ok": evaluate(fn, OKS, True)}
            if has_send:
                runs["send-fails"] = evaluate(fn, OKS, False)
        except ordereval.Unsupported as ex:
            skipped.append(f"{name} (left the fragment: {str(ex)[:60]})")
            continue
        n += 1
        ctx.chk.analysed(fn.qual)
        probs = []

        def neg(o):
            return o.kind == "return" and (o.value is False if kind == "bool" else o.value is None)

        def pos(o):
            return o.kind == "return" and (o.value is True if kind == "bool" else o.value is not None)
        o, log = runs["fail"]
        if not neg(o):
            probs.append(f"the device answers the command with status FAIL and the call {o.kind}s {o.value!r}")
        elif log.index("cmd") != len(log) - 1 and name != "generate_key_blob":
            probs.append(f"the device answers the command with status FAIL and a data phase follows ({log})")
        o, log = runs["ok"]
        if not pos(o):
            probs.append(f"the device answers SUCCESS{' and the data phase succeeds' if has_send or has_read else ''} and the call {o.kind}s {o.value!r}")
        elif has_read and not has_send and isinstance(o.value, (bytes, bytearray)) and bytes(o.value) != DATA:
            probs.append(f"the data phase delivered {DATA!r} and the call returns {bytes(o.value)!r}")
        elif (has_send and "send" not in log) or (has_read and "read" not in log):
            probs.append(f"the command succeeds and its data phase does not take place ({log})")
        if "send-fails" in runs:
            o, log = runs["send-fails"]
            if not neg(o):
                probs.append(f"the data-out phase fails and the call {o.kind}s {o.value!r}")
        ctx.chk.decide(not probs, "C10.command-model", fn.qual, "negative result without data phase on a failing command; positive result on success; a failing data-out phase is a negative result",
                       "; ".join(probs)[:500], "result mirrors the device status", A.loc(MB, fn.node))
    for s_ in skipped:
        ctx.chk.report(f"C10.command-model (not modelled): McuBoot.{s_}")
    ctx.chk.floor("C10.command-model", 49)


def rule_serial_model(ctx) -> None:
    """C10.serial-model: MbootSerialProtocol.read / write_data / write_command evaluated as whole functions (with every helper they call
    stepped into) against a model UART: a device-to-host byte stream that is consumed by `device.read(n)` (an exhausted stream is the
    device layer's timeout exception) and a log of `device.write`.  Reference = the documented frame (0x5A, type, len16, CRC16/XMODEM
    over start, type, length and payload, payload).  Obligations: a good frame is returned exactly and acknowledged once; EVERY single
    byte corruption of it (each position, two bit patterns), truncation at every position, a zero-length frame, an abort frame, NAK /
    abort / silence instead of the ACK make the call raise - never a return value; the frame written is the reference frame."""
    import binascii
    import struct as _st
    import zlib
    from ..engines import roundtrip
    k = ctx.cls(SER, "MbootSerialProtocol")
    fp = ctx.enum_model(ctx.cls(SER, "FPType"))
    if fp is None:
        raise AnalysisError("C10.serial-model: FPType does not fold to an enum model")
    DATA, CMD, ACK, NAK, ABORT = fp.DATA.tag, fp.CMD.tag, fp.ACK.tag, fp.NACK.tag, fp.ABORT.tag
    START = 0x5A

    def ref_frame(t: int, payload: bytes) -> bytes:
        c = binascii.crc_hqx(_st.pack(f"<BBH{len(payload)}B", START, t, len(payload), *payload), 0)
        return _st.pack("<BBHH", START, t, len(payload), c) + payload

    def run(method: str, stream: bytes, env_extra: Dict[str, Any]):
        st = {"in": bytearray(stream), "out": [], "polls": 0}

        def leaves(c: ast.Call, ev):
            f = norm(c.func)
            if f == "self.device.read" and c.args:
                n_ = ev.ev(c.args[0])
                if not isinstance(n_, int) or len(st["in"]) < n_:
                    raise ordereval.ModelRaise(ordereval.Outcome("raise", "timeout", c))
                out_ = bytes(st["in"][:n_])
                del st["in"][:n_]
                return out_
            if f == "self.device.write" and len(c.args) == 1:
                st["out"].append(bytes(ev.ev(c.args[0])))
                return None
            if f == "to_int" and c.args:
                le = ev.ev(c.args[1]) if len(c.args) > 1 else (ev.ev(c.keywords[0].value) if c.keywords else True)
                return int.from_bytes(ev.ev(c.args[0]), "little" if le else "big")
            if f == "parse_cmd_response" and c.args:
                return Obj(_parsed=bytes(ev.ev(c.args[0])))
            if f == "packet.to_bytes":
                return b"\x07\x00\x00\x01\x20\x00\x00\x00"
            if f == "Timeout":
                return Obj(_timeout=True)
            if isinstance(c.func, ast.Attribute) and c.func.attr == "overflow" and not c.args:
                st["polls"] += 1
                return st["polls"] > 8
            if f == "from_crc_algorithm" and len(c.args) == 1:
                return Obj(_crc=norm(c.args[0]))
            if isinstance(c.func, ast.Attribute) and c.func.attr == "calculate" and len(c.args) == 1:
                o = ev.ev(c.func.value)
                if isinstance(o, Obj) and "_crc" in o.__dict__:
                    d = bytes(ev.ev(c.args[0]))
                    return binascii.crc_hqx(d, 0) if o.__dict__["_crc"] == "CrcAlg.CRC16_XMODEM" else zlib.crc32(o.__dict__["_crc"].encode() + d) & 0xFFFF
            return roundtrip.std_leaves(c, ev)
        fn = ctx.own(SER, "MbootSerialProtocol", method)
        env: Dict[str, Any] = {"self": Obj(_cls=k, device=Obj(timeout=100)), "length": None}
        env.update(env_extra)
        try:
            out = ordereval.Evaluator(env, ctx.fold_sym(fn), opaque_return=False, call_value=ctx.model_calls(leaves, classes={"MbootSerialProtocol": k}, module=SER, max_depth=6)).run(A.body_of(fn.node))
        except ordereval.ModelRaise:
            return ("raise", None), st
        except ordereval.Unsupported as ex:
            raise AnalysisError(f"C10.serial-model: {fn.qual} left the fragment: {ex}")
        v = out.value
        if isinstance(v, Obj):
            v = ("response", v.__dict__.get("_parsed"))
        elif isinstance(v, (bytes, bytearray)):
            v = bytes(v)
        return (out.kind, v if out.kind == "return" else None), st
    probs: List[str] = []
    n = 0
    ack = bytes([START, ACK])
    payload = b"hello"
    good = ref_frame(DATA, payload)
    cmdp = b"\xa0\x00\x00\x02\x00\x00\x00\x00"
    cases = [("a good data frame", good, ("return", payload), [ack]),
             ("not-ready bytes before a good frame", b"\x00\x00" + good, ("return", payload), [ack]),
             ("a good command frame", ref_frame(CMD, cmdp), ("return", ("response", cmdp)), [ack]),
             ("a zero-length frame (abort)", _st.pack("<BBHH", START, DATA, 0, 0), ("raise", None), [ack]),
             ("an abort frame", bytes([START, ABORT]), ("raise", None), None),
             ("a byte that is no frame start", b"\x11\x22" + good, ("raise", None), None)]
    for i in range(len(good)):
        for x in (0x01, 0xFF):
            b = bytearray(good)
            b[i] ^= x
            cases.append((f"byte {i} of a good frame corrupted (^{x:#04x})", bytes(b), ("raise", None), None))
        cases.append((f"a frame truncated after {i} bytes", good[:i], ("raise", None), None))
    for label, stream, want, want_out in cases:
        got, st = run("read", stream, {})
        n += 1
        if got != want or (want_out is not None and (st["out"] != want_out or st["in"])):
            probs.append(f"read(), {label}: {got}, written {[x.hex() for x in st['out']]}, unread {len(st['in'])}; expected {want}")
    for method, extra, t, body in (("write_data", {"data": b"abc"}, DATA, b"abc"), ("write_command", {"packet": Obj(_packet=True)}, CMD, b"\x07\x00\x00\x01\x20\x00\x00\x00")):
        for label, stream, want in (("the device acknowledges", ack, "fall"), ("the device answers NAK", bytes([START, NAK]), "raise"), ("the device aborts", bytes([START, ABORT]), "raise"),
                                    ("the device stays silent", b"", "raise"), ("the device answers garbage", b"\x33\x44", "raise")):
            got, st = run(method, stream, extra)
            n += 1
            kind = "fall" if got[0] in ("fall", "return") and got[1] is None else got[0]
            if kind != want or st["out"][:1] != [ref_frame(t, body)] or len(st["out"]) != 1:
                probs.append(f"{method}(), {label}: {got}, written {[x.hex() for x in st['out']]}; expected {want} and the frame {ref_frame(t, body).hex()}")
    ctx.chk.exhaustive_rules.add("C10.serial-model")
    ctx.chk.analysed(ctx.own(SER, "MbootSerialProtocol", "read").qual)
    ctx.chk.decide(not probs, "C10.serial-model", f"{SER}::MbootSerialProtocol.read/write_data/write_command", f"good frames are delivered exactly and acknowledged once; every corrupted, truncated, aborted or unacknowledged frame raises ({n} scripted streams)",
                   "; ".join(probs[:2])[:700], "0x5A, type, len16, crc16-xmodem(start, type, len, payload), payload; ACK/NAK/ABORT", A.loc(SER, ctx.own(SER, "MbootSerialProtocol", "read").node))


def rule_hid_model(ctx) -> None:
    """C10.hid-model: MbootBulkProtocol.write_data / write_command / read as whole functions against a model HID device.  Reference =
    the documented report (id, 0, len16 little endian, payload; zero length = abort).  The payload handed to the caller is exactly the
    `len` bytes behind the header (the report's padding is cut), a zero-length report raises, an empty read raises, what is written is
    the reference report."""
    import struct as _st
    from ..engines import roundtrip
    k = ctx.cls(BULK, "MbootBulkProtocol")
    rid = ctx.enum_model(ctx.cls(BULK, "ReportId"))
    if rid is None:
        raise AnalysisError("C10.hid-model: ReportId does not fold to an enum model")

    def run(method: str, reads: List[bytes], env_extra: Dict[str, Any]):
        st = {"in": list(reads), "out": []}

        def leaves(c: ast.Call, ev):
            f = norm(c.func)
            if f == "self.device.read":
                return st["in"].pop(0) if st["in"] else b""
            if f == "self.device.write" and len(c.args) == 1:
                st["out"].append(bytes(ev.ev(c.args[0])))
                return None
            if f == "parse_cmd_response" and c.args:
                return Obj(_parsed=bytes(ev.ev(c.args[0])))
            if f == "packet.to_bytes":
                return b"\x07\x00\x00\x01\x20\x00\x00\x00"
            return roundtrip.std_leaves(c, ev)
        fn = ctx.own(BULK, "MbootBulkProtocol", method)
        env: Dict[str, Any] = {"self": Obj(_cls=k, device=Obj(timeout=100), allow_abort=False), "length": None}
        env.update(env_extra)
        try:
            out = ordereval.Evaluator(env, ctx.fold_sym(fn), opaque_return=False, call_value=ctx.model_calls(leaves, classes={"MbootBulkProtocol": k}, module=BULK, max_depth=6)).run(A.body_of(fn.node))
        except ordereval.ModelRaise:
            return ("raise", None), st
        except ordereval.Unsupported as ex:
            raise AnalysisError(f"C10.hid-model: {fn.qual} left the fragment: {ex}")
        v = out.value
        if isinstance(v, Obj):
            v = ("response", v.__dict__.get("_parsed"))
        elif isinstance(v, (bytes, bytearray)):
            v = bytes(v)
        return (out.kind if out.kind != "fall" else "return", v if out.kind == "return" else None), st
    probs: List[str] = []
    n = 0
    pad = b"\xEE" * 20
    for label, report, want in (("a data report with padding", _st.pack("<2BH", rid.DATA_IN.tag, 0, 5) + b"hello" + pad, ("return", b"hello")),
                                ("a data report without padding", _st.pack("<2BH", rid.DATA_IN.tag, 0, 5) + b"hello", ("return", b"hello")),
                                ("a 300-byte data report", _st.pack("<2BH", rid.DATA_IN.tag, 0, 300) + bytes(i & 0xFF for i in range(300)) + pad, ("return", bytes(i & 0xFF for i in range(300)))),
                                ("a command report", _st.pack("<2BH", rid.CMD_IN.tag, 0, 8) + b"\xa0\x00\x00\x02\x00\x00\x00\x00" + pad, ("return", ("response", b"\xa0\x00\x00\x02\x00\x00\x00\x00"))),
                                ("a zero-length report (abort)", _st.pack("<2BH", rid.DATA_IN.tag, 0, 0) + pad, ("raise", None)),
                                ("nothing", b"", ("raise", None))):
        got, st = run("read", [report], {})
        n += 1
        if got != want:
            probs.append(f"read(), {label}: {got if not isinstance(got[1], bytes) or len(got[1]) < 24 else (got[0], got[1][:24].hex() + '...')}; expected {want if not isinstance(want[1], bytes) or len(want[1]) < 24 else want[0]}")
    for method, extra, t, body in (("write_data", {"data": b"abc"}, rid.DATA_OUT.tag, b"abc"), ("write_data", {"data": bytes(range(256)) + b"xyz"}, rid.DATA_OUT.tag, bytes(range(256)) + b"xyz"),
                                   ("write_command", {"packet": Obj(_packet=True)}, rid.CMD_OUT.tag, b"\x07\x00\x00\x01\x20\x00\x00\x00")):
        got, st = run(method, [], extra)
        n += 1
        if got != ("return", None) or st["out"] != [_st.pack("<2BH", t, 0, len(body)) + body]:
            probs.append(f"{method}({len(body)} bytes): {got}, written {[x[:12].hex() for x in st['out']]}; expected one report {(_st.pack('<2BH', t, 0, len(body)) + body)[:12].hex()}")
    ctx.chk.exhaustive_rules.add("C10.hid-model")
    ctx.chk.analysed(ctx.own(BULK, "MbootBulkProtocol", "read").qual)
    ctx.chk.decide(not probs, "C10.hid-model", f"{BULK}::MbootBulkProtocol.read/write_data/write_command", f"payloads are delivered exactly (padding cut), aborts and empty reads raise, reports written are id, 0, len16, payload ({n} scripted reports)",
                   "; ".join(probs[:2])[:700], "id, 0, len16, payload; zero length = abort", A.loc(BULK, ctx.own(BULK, "MbootBulkProtocol", "read").node))


def rule_process_cmd_model(ctx) -> None:
    """C10.process-cmd-model: McuBoot._process_cmd as a whole function: the packet is written once, then one response is read; the
    response is returned and its status becomes the status of the operation; with cmd_exception a non-success status raises; on a closed
    interface nothing is written and the call raises."""
    mb = ctx.cls(MB, "McuBoot")
    status = ctx.enum_model(ctx.cls("spsdk/mboot/error_codes.py", "StatusCode"))
    OKS, FAIL = status.SUCCESS.tag, status.FAIL.tag
    fn = ctx.own(MB, "McuBoot", "_process_cmd")
    probs: List[str] = []
    n = 0
    for label, opened, st_, exc, want in (("success", True, OKS, False, "return"), ("device reports FAIL, exceptions off", True, FAIL, False, "return"), ("device reports FAIL, exceptions on", True, FAIL, True, "raise"),
                                          ("success, exceptions on", True, OKS, True, "return"), ("interface closed", False, OKS, False, "raise")):
        log: List[Any] = []
        resp = Obj(_resp=True, status=st_)
        pkt = Obj(_pkt=True, header=Obj(tag=1))

        def leaves(c: ast.Call, ev, log=log, resp=resp):
            f = norm(c.func)
            if f == "self._interface.write_command" and len(c.args) == 1:
                log.append(("write", ev.ev(c.args[0])))
                return None
            if f == "self._interface.read" and not c.args:
                log.append(("read", None))
                return resp
            if f == "isinstance" and len(c.args) == 2 and norm(c.args[1]) in ("CmdResponse", "GenericResponse"):
                v = ev.ev(c.args[0])
                return isinstance(v, Obj) and "_resp" in v.__dict__
            if f == "CommandTag.get_label":
                return "label"
            return ordereval.NOT_MODELLED
        me = Obj(_cls=mb, is_opened=opened, _interface=Obj(), _cmd_exception=exc, _status_code=OKS, status_string="x")
        try:
            out = ordereval.Evaluator({"self": me, "cmd_packet": pkt}, ctx.fold_sym(fn), opaque_return=False, call_value=ctx.model_calls(leaves, classes={"McuBoot": mb})).run(A.body_of(fn.node))
            got = out.kind
            val = out.value
        except ordereval.ModelRaise:
            got, val = "raise", None
        except ordereval.Unsupported as ex:
            raise AnalysisError(f"C10.process-cmd-model: {fn.qual} left the fragment: {ex}")
        n += 1
        want_log = [("write", pkt), ("read", None)] if opened else []
        if got != want or log != want_log or (want == "return" and (val is not resp or me._status_code != st_)):
            probs.append(f"{label}: {got}, interface calls {[x[0] for x in log]}, status {me._status_code}; expected {want}, one write then one read, status {st_}")
    ctx.chk.decide(not probs, "C10.process-cmd-model", fn.qual, f"packet written once, one response read and returned, status mirrored ({n} models)", "; ".join(probs[:2])[:600], "", A.loc(MB, fn.node))


def rule_response_model(ctx) -> None:
    """C10.response-model: parse_cmd_response interpreted (the response classes' own constructors stepped into) on model response
    packets: for every known response tag the object has the class the registry names and carries status, command tag, length and
    values exactly as the packet holds them; an unknown tag still yields a response with the packet's status."""
    import struct as _st
    from ..engines import roundtrip
    classes = {c.name: c for c in ctx.prog.classes.values() if c.module.relpath == MBC}
    fn = ctx.func(MBC, "parse_cmd_response")
    rt = ctx.enum_model(ctx.cls(MBC, "ResponseTag"))
    if rt is None:
        raise AnalysisError("C10.response-model: ResponseTag does not fold to an enum model")
    calls = ctx.model_calls(roundtrip.std_leaves, classes=classes, module=MBC, max_depth=6)

    def pkt(tag, *params):
        return _st.pack(f"<4B{len(params)}I", tag, 0, 0, len(params), *params)
    cases = [("GENERIC", "GenericResponse", (10203, 0x04), {"status": 10203, "cmd_tag": 4}),
             ("GENERIC", "GenericResponse", (0, 0x03), {"status": 0, "cmd_tag": 3}),
             ("READ_MEMORY", "ReadMemoryResponse", (0, 0x1234), {"status": 0, "length": 0x1234}),
             ("READ_MEMORY", "ReadMemoryResponse", (10200, 0), {"status": 10200, "length": 0}),
             ("GET_PROPERTY", "GetPropertyResponse", (0, 11, 22), {"status": 0, "values": (11, 22)}),
             ("GET_PROPERTY", "GetPropertyResponse", (10300,), {"status": 10300, "values": ()}),
             ("FLASH_READ_ONCE", "FlashReadOnceResponse", (0, 4, 0xA1B2C3D4), {"status": 0, "length": 4, "values": (0xA1B2C3D4,)}),
             ("FLASH_READ_RESOURCE", "FlashReadResourceResponse", (0, 64), {"status": 0, "length": 64}),
             ("KEY_BLOB_RESPONSE", "ReadMemoryResponse", (0, 72), {"status": 0, "length": 72}),
             ("KEY_PROVISIONING_RESPONSE", "KeyProvisioningResponse", (0, 48), {"status": 0, "length": 48}),
             ("TRUST_PROVISIONING_RESPONSE", "TrustProvisioningResponse", (0, 7, 8, 9), {"status": 0, "values": (7, 8, 9)}),
             (None, "CmdResponse", (5,), {"status": 5})]
    probs: List[str] = []
    n = 0
    for tname, cname, params, want in cases:
        tag = rt.__dict__[tname].tag if tname else 0xBB
        data = pkt(tag, *params)
        try:
            env_r: Dict[str, Any] = {"data": data}
            a_ = fn.node.args  # the callers pass the packet only: every other parameter takes its declared default
            for p_, d_ in zip(a_.args[len(a_.args) - len(a_.defaults):], a_.defaults):
                env_r[p_.arg] = ordereval.Evaluator({}, ctx.fold_sym(fn)).ev(d_)
            out = ordereval.Evaluator(env_r, ctx.fold_sym(fn), opaque_return=False, call_value=calls).run(A.body_of(fn.node))
        except ordereval.ModelRaise:
            out = ordereval.Outcome("raise", None, fn.node)
        except ordereval.Unsupported as ex:
            raise AnalysisError(f"C10.response-model: parse_cmd_response left the fragment on a {tname or 'unknown'} packet: {ex}")
        n += 1
        v = out.value
        got_cls = v.__dict__["_cls"].name if isinstance(v, Obj) and "_cls" in v.__dict__ else None
        got = {k_: (tuple(v.__dict__[k_]) if isinstance(v.__dict__.get(k_), (tuple, list)) else v.__dict__.get(k_)) for k_ in want} if isinstance(v, Obj) else {}
        hdr_ok = isinstance(v, Obj) and isinstance(v.__dict__.get("header"), Obj) and v.header.__dict__.get("tag") == tag and v.header.__dict__.get("params_count") == len(params)
        if out.kind != "return" or got_cls != cname or got != want or not hdr_ok:
            probs.append(f"{tname or 'unknown tag'} packet with parameters {params}: {out.kind} {got_cls} {got}; the packet says {cname} {want}")
    ctx.chk.analysed(fn.qual)
    ctx.chk.exhaustive_rules.add("C10.response-model")
    ctx.chk.decide(not probs, "C10.response-model", fn.qual, f"responses carry class, status, command tag, length and values exactly as the packet holds them ({n} model packets, every registered tag)",
                   "; ".join(probs[:2])[:600], "", A.loc(MBC, fn.node))


def rule_sdp_status_rearm(ctx) -> None:
    """C10.sdp-status-rearm: on the serial SDP link the reader tells a HAB status word from data by the flag `expect_status`; SDP._read_data
    clears it for the data phase.  Every frame written to the device therefore re-arms it: a method of the protocol class that calls
    `self.device.write` directly assigns `self.expect_status = True` on every path before the write, and no method writes otherwise than
    through such a method - otherwise the status word of the command that follows a read is taken for data and dropped."""
    SP = "spsdk/sdp/protocol/serial_protocol.py"
    k = ctx.cls(SP, "SDPSerialProtocol")
    clears = [n for n in ast.walk(ctx.own(SDP, "SDP", "_read_data").node) if isinstance(n, ast.Assign) and norm(n.targets[0]).endswith(".expect_status") and norm(n.value) == "False"]
    reads = [n for n in ast.walk(ctx.own(SP, "SDPSerialProtocol", "read").node) if isinstance(n, ast.Attribute) and n.attr == "expect_status"]
    if not clears or not reads:
        raise AnalysisError("C10.sdp-status-rearm: the expect_status protocol (cleared by SDP._read_data, read by SDPSerialProtocol.read) was not found")
    n = 0
    for name, fl in sorted(k.methods.items()):
        for f in fl:
            writes = [c for c in A.calls_in(f.node) if norm(c.func) == "self.device.write"]
            if not writes:
                continue
            n += 1
            ctx.chk.analysed(f.qual)
            bad = None
            for q in A.gpaths(f.node):
                armed = False
                for st in q.stmts:
                    if isinstance(st, ast.Assign) and norm(st.targets[0]) == "self.expect_status" and norm(st.value) == "True":
                        armed = True
                    if any(norm(c.func) == "self.device.write" for c in A.calls_in(st)) and not armed:
                        bad = st
                        break
                if bad is not None:
                    break
            ctx.chk.decide(bad is None, "C10.sdp-status-rearm", f.qual, "expect_status is set before the frame is written, on every path",
                           f"`{norm(bad)[:80]}` writes to the device without re-arming expect_status: after a read, the next command's HAB status word is treated as data" if bad is not None else "",
                           "self.expect_status = True; self.device.write(data)", A.loc(SP, bad if bad is not None else f.node))
    ctx.chk.floor("C10.sdp-status-rearm", 1)


def run(ctx) -> None:
    ctx.chk.explain("C10: for every McuBoot/SDP operation the command response must flow into the StatusCode.SUCCESS comparison and every data phase / positive return must be control "
                    "dependent on the passing branch; data phases agree with the HAS_DATA_PHASE flag and the packet tag; chunking (_split_data, USB chunked read, SDP read loop) is "
                    "evaluated by the checker's evaluator on a finite interface model for all lengths around the packet boundaries and several burst sizes; serial framing fields, "
                    "CRC input and the CRC guard are checked; response registry and status mirroring; every wait loop has a bounded exit.")
    ctx.rule(rule_status_gate)
    ctx.rule(rule_phase)
    ctx.rule(rule_partition)
    ctx.rule(rule_frame)
    ctx.rule(rule_registry)
    ctx.rule(rule_bounded)
    ctx.rule(rule_data_phase_model)
    ctx.rule(rule_command_model)
    ctx.rule(rule_serial_model)
    ctx.rule(rule_hid_model)
    ctx.rule(rule_process_cmd_model)
    ctx.rule(rule_response_model)
    ctx.rule(rule_sdp_status_rearm)
    ctx.chk.assumptions = ["device reads raise on timeout (interfaces/device/base.py contract)", "the interface models used for the loop evaluation return at most the requested number of bytes",
                           "not decided: arbitrary fault histories, exact bytes on the wire, USB-HID report framing"]


MANIFEST = {
    "level": "Static decision of the structural clauses behind 'results mirror the device, faults surface': status gating of all core operations, phase/flag/tag agreement, "
             "chunk tiling and read-until-complete loops decided on finite interface models (complete around packet boundaries), frame field/CRC agreement with a dominating CRC guard, "
             "bounded waits. Histories and fault sequences as such are not enumerated.",
    "note": "Trusted: the evaluator, device-layer timeout contract. 14 trust-provisioning style methods use a response-type guard and are reported, not armed.",
    "technique": "static analysis: control-dependence (status gate) analysis, flag/tag agreement, abstract evaluation of chunking/read loops on finite models, must-check on the CRC guard, whole-function models of the mboot and SDP data phases against scripted model devices, status re-arm typestate on guarded paths, whole-function models of every public McuBoot operation against a scripted command layer (negative result and no data phase on a failing command), of the serial frame reader/writer against a model UART (every single-byte corruption / truncation / NAK / abort raises) and of the USB-HID report reader/writer, USB chunk model with a failing data phase, parse_cmd_response and the response constructors interpreted on model packets of every registered tag",
}
