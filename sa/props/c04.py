"""C04 Secure Binary 2.x (wire symmetry, command routing, registry, must-check, counter, loops, twins)."""
from __future__ import annotations

import ast
from typing import Any, Dict, List, Optional, Set, Tuple

from ..core import astutil as A
from ..core.loader import AnalysisError
from ..core.report import norm
from ..core.symtab import UNKNOWN, ClassInfo, FuncInfo, struct_items
from ..engines import bitprov, mustcheck, ordereval, wire
from ..engines.ordereval import Obj

CMD = "spsdk/sbfile/sb2/commands.py"
HDR = "spsdk/sbfile/sb2/headers.py"
SEC = "spsdk/sbfile/sb2/sections.py"
IMG = "spsdk/sbfile/sb2/images.py"
MISC = "spsdk/sbfile/misc.py"

CMD_CLASSES = ["CmdLoad", "CmdFill", "CmdJump", "CmdCall", "CmdErase", "CmdMemEnable", "CmdProg", "CmdVersionCheck", "CmdKeyStoreBackupRestore"]
HEADER_FIELDS = {"tag": 8, "flags": 16, "address": 32, "count": 32, "data": 32}


# --------------------------------------------------------------------------------- routing
def _setter_fields(prog, cls: ClassInfo, attr: str) -> Optional[Set[str]]:
    st = prog.find_method(cls, attr, kind="setter")
    if st is None:
        return None
    out = set()
    for n in A.walk_no_nested(st.node):
        if isinstance(n, (ast.Assign, ast.AugAssign)):
            t = n.targets[0] if isinstance(n, ast.Assign) else n.target
            d = A.dotted(t)
            if d and (d.startswith("self._header.") or d.startswith("self.header.")):
                out.add(d.split(".")[-1])
    return out


def _expand_self_attrs(fn_node: ast.AST, e: ast.expr) -> ast.expr:
    """Inline locals (all definitions) and plain attributes set earlier in the same function (self._x = ...)."""
    e = A.inline_locals_multi(fn_node, e)
    attr_defs: Dict[str, List[ast.expr]] = {}
    for n in A.walk_no_nested(fn_node):
        if isinstance(n, ast.Assign):
            d = A.dotted(n.targets[0])
            if d and d.startswith("self.") and d.count(".") == 1:
                attr_defs.setdefault(d, []).append(n.value)

    class T(ast.NodeTransformer):
        def visit_Attribute(self, node: ast.Attribute) -> ast.AST:
            d = A.dotted(node)
            if d in attr_defs and isinstance(node.ctx, ast.Load):
                parts = [A.inline_locals_multi(fn_node, v) for v in attr_defs[d]]
                return ast.Tuple(elts=parts, ctx=ast.Load())
            return self.generic_visit(node)
    return T().visit(A.clone(e))


def init_routes(prog, cls: ClassInfo) -> Dict[str, Set[str]]:
    init = prog.find_method(cls, "__init__")
    if init is None:
        return {}
    params = set(init.params()[1:])
    out: Dict[str, Set[str]] = {}
    for n in A.walk_no_nested(init.node):
        if not isinstance(n, (ast.Assign, ast.AugAssign)):
            continue
        t = n.targets[0] if isinstance(n, ast.Assign) else n.target
        d = A.dotted(t)
        if not d or not d.startswith("self."):
            continue
        fields: Optional[Set[str]] = None
        if d.startswith("self._header.") or d.startswith("self.header."):
            fields = {d.split(".")[-1]}
        elif d.count(".") == 1:
            fields = _setter_fields(prog, cls, d[5:])
        if not fields:
            continue
        val = _expand_self_attrs(init.node, n.value)
        used = {x for x in A.names_in(val) if x in params}
        for p in used:
            out.setdefault(p, set()).update(fields)
    return out


def parse_routes(prog, cls: ClassInfo) -> Tuple[Dict[str, Set[str]], Optional[ast.Call]]:
    parse = prog.find_method(cls, "parse")
    init = prog.find_method(cls, "__init__")
    if parse is None or init is None:
        return {}, None
    ctor = [c for c in A.calls_in(parse.node) if isinstance(c.func, ast.Name) and c.func.id in ("cls", cls.name)]
    if not ctor:
        return {}, None
    b = A.bind_args(init.node, ctor[-1], skip_self=True)
    if b is None:
        return {}, ctor[-1]
    out: Dict[str, Set[str]] = {}
    for p, e in b.items():
        if e in init.node.args.defaults or e in init.node.args.kw_defaults:
            continue
        val = A.inline_locals_multi(parse.node, e, _stack=("header",))
        fields = {a.split(".")[-1] for a in A.attrs_in(val) if a.startswith("header.") and a.count(".") == 1}
        if fields:
            out[p] = fields
    return out, ctor[-1]


def rule_image_routes(ctx) -> None:
    """C04.image-routes: a constructor argument of BootImageV20 / BootImageV21 that is stored in a header field is rebuilt by parse()
    from that same header field - otherwise the parsed image silently carries the constructor's default (e.g. the flags word)."""
    chk, prog = ctx.chk, ctx.prog
    n = 0
    for cname in ("BootImageV20", "BootImageV21"):
        cls = ctx.cls(IMG, cname)
        init = prog.find_method(cls, "__init__")
        parse = prog.find_method(cls, "parse")
        if init is None or parse is None:
            raise AnalysisError(f"C04.image-routes: {cname}.__init__ / parse not found")
        chk.analysed(init.qual, parse.qual)
        params = {a.arg for a in init.node.args.args + init.node.args.kwonlyargs}
        hdr = [c for c in A.calls_in(init.node, "ImageHeaderV2")]
        if not hdr:
            raise AnalysisError(f"C04.image-routes: {cname}.__init__ does not build an ImageHeaderV2")
        stored = {k.arg: k.value.id for k in hdr[0].keywords if k.arg and isinstance(k.value, ast.Name) and k.value.id in params}
        ctors = [c for c in A.calls_in(parse.node) if isinstance(c.func, ast.Name) and c.func.id in ("cls", cname)]
        if not ctors:
            raise AnalysisError(f"C04.image-routes: {cname}.parse does not construct the class")
        ctor = ctors[-1]
        pr: Dict[str, Set[str]] = {}
        for k in ctor.keywords:  # (the positional parameters in front of *sections are not header fields)
            if k.arg:
                val = A.inline_locals_multi(parse.node, k.value, _stack=("header",))
                pr[k.arg] = {a.split(".")[-1] for a in A.attrs_in(val) if a.startswith("header.") and a.count(".") == 1}
        for field, param in sorted(stored.items()):
            n += 1
            chk.decide(field in pr.get(param, set()), "C04.image-routes", f"{IMG}::{cname} `{param}`", f"header field `{field}` is given back to the constructor as `{param}` by parse",
                       f"constructor stores `{param}` in header.{field}, parse rebuilds it from {sorted(pr.get(param, set())) or 'nothing (the default is used)'}",
                       f"{param}=header.{field}", A.loc(IMG, ctor))
    chk.floor("C04.image-routes", 7)


def rule_roundtrip(ctx) -> None:
    """C04.cmd-roundtrip: the SB2 command classes interpreted on model objects (E19): parse(export(x)) has the fields of x and exports to
    the same bytes (header packing, checksum, flag and memory-id bit fields included - the property setters are interpreted too)."""
    from ..engines import roundtrip
    vct = ctx.enum_model(ctx.cls(CMD, "VersionCheckType"))
    table = [
        ("CmdNop", [{}]),
        ("CmdReset", [{}]),
        ("CmdJump", [{"address": 0x100, "argument": 7, "spreg": 0x2000}, {"address": 0x100, "argument": 7, "spreg": None}]),
        ("CmdCall", [{"address": 0x100, "argument": 7}]),
        ("CmdErase", [{"address": 0x100, "length": 0x40, "flags": 1, "mem_id": 0x108}, {"address": 0, "length": 0, "flags": 0, "mem_id": 0}]),
        ("CmdMemEnable", [{"address": 0x100, "size": 4, "mem_id": 9}]),
        ("CmdVersionCheck", [{"ver_type": vct.NON_SECURE_VERSION, "version": 0x16}, {"ver_type": vct.SECURE_VERSION, "version": 1}]),
        ("CmdProg", [{"address": 0x100, "mem_id": 4, "data_word1": 0x11223344, "data_word2": 0x55667788}]),
        ("CmdLoad", [{"address": 0x100, "data": bytes(range(1, 21)), "mem_id": 2}, {"address": 0x100, "data": bytes(range(32)), "mem_id": 0}]),
        ("CmdFill", [{"address": 0x100, "pattern": 0xA5, "length": 0x20}, {"address": 0x100, "pattern": 0x11223344, "length": None}, {"address": 0x100, "pattern": 0x1234, "length": 8}]),
    ]
    ext = ctx.enum_model(ctx.cls("spsdk/mboot/memories.py", "ExtMemId"))
    if ext is None or not ext.members():
        raise AnalysisError("C04.cmd-roundtrip: ExtMemId does not fold to an enum model")
    some = ext.members()[min(1, len(ext.members()) - 1)]
    table += [("CmdKeyStoreBackup", [{"address": 0x100, "controller_id": some}]), ("CmdKeyStoreRestore", [{"address": 0x100, "controller_id": some}])]
    roundtrip.check_classes(ctx, "C04.cmd-roundtrip", CMD, table, floor=12)
    # the image header: versions, flags, block counts and the nonce come back; time stamps are a leaf (pack/unpack_timestamp are decided
    # by C04.timestamp), the header padding is random filler that parse does not keep (not content)
    from ..engines import ordereval as _oe

    def lv(c: ast.Call, ev):
        f = norm(c.func)
        if f == "pack_timestamp" and len(c.args) == 1:
            return ev.ev(c.args[0])._ts
        if f == "unpack_timestamp" and len(c.args) == 1:
            return _oe.Obj(_ts=ev.ev(c.args[0]))
        if f == "datetime.now" and not c.args:
            return _oe.Obj(_ts=0)
        if f == "datetime.fromtimestamp" and len(c.args) == 1:
            return _oe.Obj(_ts=ev.ev(c.args[0]))
        if isinstance(c.func, ast.Attribute) and c.func.attr == "timestamp" and not c.args:
            o = ev.ev(c.func.value)
            if isinstance(o, _oe.Obj) and "_ts" in o.__dict__:
                return o._ts
        return _oe.NOT_MODELLED
    hdr_models = [{"version": "2.1", "product_version": "1.2.3", "component_version": "4.5.6", "build_number": 9, "flags": 0x8008, "nonce": bytes(range(16)),
                   "timestamp": _oe.Obj(_ts=0x11223344), "padding": bytes(8),
                   "__setup1": "obj.image_blocks = 0x101; obj.first_boot_tag_block = 0x22; obj.first_boot_section_id = 3; obj.offset_to_certificate_block = 0xA0; "
                               "obj.header_blocks = 6; obj.max_section_mac_count = 17"},
                  {"version": "2.0", "product_version": "999.999.999", "component_version": "0.0.1", "build_number": 0, "flags": 0x08, "nonce": bytes(range(16, 32)),
                   "timestamp": _oe.Obj(_ts=1), "padding": bytes(8)}]
    roundtrip.check_classes(ctx, "C04.header-roundtrip", HDR, [("ImageHeaderV2", hdr_models, {"ignore": ("padding",), "reexport": False})],
                            {"BcdVersion3": ctx.cls(MISC, "BcdVersion3")}, lv, floor=1)


def rule_fill_word(ctx) -> None:
    """C04.fill-word: the 32-bit word a FILL command carries is the given pattern repeated to fill the word (byte x4, half word x2; a
    3-byte value is a word with a zero top byte), for every pattern width and at every width boundary; a wider pattern is refused.
    CmdFill.__init__ is interpreted on model patterns (E19's object construction), the header word is read from the model object."""
    from ..engines import ordereval as _oe
    from ..engines import roundtrip
    rt = roundtrip.RoundTrip(ctx, CMD, "CmdFill")
    probs = []
    pats = [0, 1, 0xA5, 0xFE, 0xFF, 0x100, 0x1234, 0xFFFE, 0xFFFF, 0x10000, 0xABCDEF, 0xFFFFFF, 0x1000000, 0x11223344, 0xFFFFFFFF, 0x100000000]
    for pat in pats:
        try:
            obj = rt.ev("CmdFill(address=address, pattern=pattern, length=length)", {"address": 0x100, "pattern": pat, "length": 8})
            got = rt.ev("obj._header.data", {"obj": obj})
            got_p = rt.ev("obj.pattern", {"obj": obj})
        except _oe.ModelRaise:
            got, got_p = "raise", None
        if pat > 0xFFFFFFFF:
            want, want_p = "raise", None
        elif pat <= 0xFF:
            want = pat * 0x01010101
            want_p = bytes([pat]) * 4
        elif pat <= 0xFFFF:
            want = pat * 0x00010001
            want_p = pat.to_bytes(2, "big") * 2
        else:
            want = pat
            want_p = pat.to_bytes(4, "big")
        if got != want or (want_p is not None and isinstance(got_p, (bytes, bytearray)) and bytes(got_p) != want_p):
            probs.append(f"pattern {pat:#x}: fill word {got if isinstance(got, str) else hex(got)} pattern bytes {bytes(got_p).hex() if isinstance(got_p, (bytes, bytearray)) else got_p}, expected {want if isinstance(want, str) else hex(want)}")
    ctx.chk.exhaustive_rules.add("C04.fill-word")
    ctx.chk.decide(not probs, "C04.fill-word", f"{CMD}::CmdFill.__init__", f"the fill word is the pattern repeated over the word, at every width and width boundary ({len(pats)} patterns)",
                   "; ".join(probs[:3]), "byte x4 / half word x2 / word", A.loc(CMD, rt.cls.node))


def rule_routes(ctx) -> None:
    chk, prog = ctx.chk, ctx.prog
    n = 0
    for cname in CMD_CLASSES:
        cls = ctx.cls(CMD, cname)
        ir = init_routes(prog, cls)
        pr, ctor = parse_routes(prog, cls)
        chk.analysed(f"{CMD}::{cname}.__init__", f"{CMD}::{cname}.parse")
        if not ir or not pr:
            raise AnalysisError(f"C04.cmd-routes: could not derive routes for {cname} (init {ir}, parse {pr})")
        for p in sorted(set(ir) & set(pr)):
            n += 1
            chk.decide(ir[p] == pr[p], "C04.cmd-routes", f"{CMD}::{cname} `{p}`", f"constructor stores `{p}` in header field(s) {sorted(ir[p])}; parse rebuilds it from the same field(s)",
                       f"constructor stores `{p}` in header {sorted(ir[p])} but parse rebuilds it from header {sorted(pr[p])}", "the same header field(s) on both sides", A.loc(CMD, ctor) if ctor else "")
        for p in sorted(set(ir) - set(pr)):
            if p in ("zero_filling",):
                continue
            chk.bad("C04.cmd-routes", f"{CMD}::{cname} `{p}`", f"`{p}` is stored in header {sorted(ir[p])} by the constructor but parse never passes it back", "parse reconstructs every stored operand", A.loc(CMD, ctor) if ctor else "")
    chk.floor("C04.cmd-routes", 20)
    # tag check in parse equals the tag the constructor registers and the registry key
    m = ctx.m(CMD)
    reg = prog.module_consts(m).get("_CMD_CLASS")
    if not isinstance(reg, ast.Dict):
        raise AnalysisError("C04.registry: _CMD_CLASS literal not found")
    registry = {norm(k).split(".")[-1]: norm(v) for k, v in zip(reg.keys, reg.values)}
    enum = ctx.cls(CMD, "EnumCmdTag")
    members = [k for k, v in enum.consts.items() if isinstance(prog.fold(v, m, enum), tuple)]
    chk.decide(set(members) == set(registry), "C04.registry", f"{CMD}::_CMD_CLASS", f"covers all {len(members)} EnumCmdTag members", f"members {sorted(set(members) ^ set(registry))} differ", "one class per tag", A.loc(CMD, reg))
    for tag, cname in sorted(registry.items()):
        cls = ctx.cls(CMD, cname)
        init = prog.find_method(cls, "__init__")
        parse = prog.find_method(cls, "parse")
        sup = [c for c in A.calls_in(init.node) if isinstance(c.func, ast.Attribute) and c.func.attr == "__init__" and norm(c.func.value) == "super()"]
        ctag = norm(sup[0].args[0]) if sup and sup[0].args else ""
        if ctag == "self.cmd_id()":
            cid = prog.find_method(cls, "cmd_id")
            r = A.returns_in(cid.node) if cid else []
            ctag = norm(r[0].value) if r else ctag
        checks = [norm(n2.test) for n2 in A.walk_no_nested(parse.node) if isinstance(n2, ast.If) and A.always_raises(n2.body) and "header.tag" in norm(n2.test)]
        ptag = checks[0] if checks else ""
        if "cls.cmd_id()" in ptag:
            ptag = ptag.replace("cls.cmd_id()", ctag)
        ok = ctag == f"EnumCmdTag.{tag}" and ptag == f"header.tag != EnumCmdTag.{tag}"
        chk.decide(ok, "C04.registry", f"{CMD}::{cname}", f"registered under {tag}, constructed with {ctag}, parse rejects other tags", f"registry key {tag}, constructor tag {ctag}, parse check `{ptag}`", f"EnumCmdTag.{tag} everywhere", A.loc(CMD, cls.node))
    pc = ctx.func(CMD, "parse_command")
    # dispatch: key = data[1]; either a scan of _CMD_CLASS comparing `<key>.tag` with it, or a lookup in a table derived as {k.tag: v for k, v in _CMD_CLASS.items()}
    tagkey = None
    for n2 in ast.walk(pc.node):
        if isinstance(n2, ast.Compare) and len(n2.ops) == 1 and isinstance(n2.ops[0], ast.Eq):
            l, r = norm(A.inline_locals(pc.node, n2.left)), norm(A.inline_locals(pc.node, n2.comparators[0]))
            if {l, r} == {"cmd_tag.tag", "data[1]"}:
                loops = [a for a in A.ancestors(n2) if isinstance(a, ast.For) and norm(a.iter) == "_CMD_CLASS.items()"]
                if loops:
                    tagkey = "scan"
    if tagkey is None:
        derived = {k: v for k, v in prog.module_consts(m).items() if isinstance(v, ast.DictComp) and len(v.generators) == 1 and norm(v.generators[0].iter) == "_CMD_CLASS.items()"}
        for name, dc in derived.items():
            tg = dc.generators[0].target
            if isinstance(tg, ast.Tuple) and len(tg.elts) == 2 and norm(dc.key) == f"{norm(tg.elts[0])}.tag" and norm(dc.value) == norm(tg.elts[1]) and not dc.generators[0].ifs:
                for c in ast.walk(pc.node):
                    if isinstance(c, ast.Call) and norm(c.func) == f"{name}.get" and c.args and norm(A.inline_locals(pc.node, c.args[0])) == "data[1]":
                        tagkey = "table"
                    if isinstance(c, ast.Subscript) and norm(c.value) == name and norm(A.inline_locals(pc.node, c.slice)) == "data[1]":
                        tagkey = "table"
    rets = [norm(r.value) for r in A.returns_in(pc.node) if r.value is not None]
    raises = [e for _p, e in A.paths(A.body_of(pc.node)) if e == "raise"]
    ok = tagkey is not None and rets == ["cmd.parse(data)"] and bool(raises)
    chk.decide(ok, "C04.registry", pc.qual, f"dispatch on the header's tag byte (offset 1) over _CMD_CLASS ({tagkey}), unknown tags raise", f"dispatch form {tagkey}, returns {rets}, raising paths {len(raises)}", "", A.loc(CMD, pc.node))
    # tags unique
    tags = [prog.fold(enum.consts[k], m, enum)[0] for k in members]
    chk.decide(len(set(tags)) == len(tags), "C04.registry", f"{CMD}::EnumCmdTag", "command tags are unique", f"{tags}", "", A.loc(CMD, enum.node))


def rule_setters(ctx) -> None:
    """Setter guards equal the width of the header item they feed; optional SP presence is `is None`."""
    chk, prog = ctx.chk, ctx.prog
    n = 0
    for cname in CMD_CLASSES:
        cls = ctx.cls(CMD, cname)
        for attr, lst in cls.methods.items():
            for f in lst:
                if not f.is_setter:
                    continue
                fields = _setter_fields(prog, cls, attr) or set()
                guards = [s for s in A.body_of(f.node) if isinstance(s, ast.If) and A.always_raises(s.body)]
                if not guards or len(fields) != 1:
                    continue
                w = HEADER_FIELDS.get(next(iter(fields)))
                if w is None:
                    continue
                vals = [-2, -1, 0, 1, (1 << w) - 2, (1 << w) - 1, 1 << w, (1 << w) + 1]
                cex = None
                for v in vals:
                    out = ordereval.Evaluator({"value": v}).run(guards, stop_at_unsupported=True)
                    want = "raise" if (v < 0 or v >= (1 << w)) else "fall"
                    if out.kind != want and cex is None:
                        cex = (v, out.kind, want)
                n += 1
                chk.decide(cex is None, "C04.setter-guards", f"{f.qual}.setter", f"accepts exactly 0..2**{w}-1 (the width of header.{next(iter(fields))})",
                           f"value {cex[0]:#x} -> {cex[1]}" if cex else "", f"{cex[2]}" if cex else "", A.loc(CMD, f.node))
    chk.floor("C04.setter-guards", 6)
    # CmdJump.spreg: None means "no SP"; every integer (0 included) is an SP value
    f = ctx.own(CMD, "CmdJump", "spreg", kind="setter")
    cex = None
    for v, want in ((None, (0, 0)), (0, (2, 0)), (5, (2, 5)), (0x20000000, (2, 0x20000000))):
        ev = ordereval.Evaluator({"value": v, "self._header.flags": 99, "self._header.count": 99})
        try:
            ev.run(A.body_of(f.node))
        except ordereval.Unsupported as e:
            raise AnalysisError(f"C04.jump-sp: setter left the fragment: {e}")
        got = (ev.env.get("self._header.flags"), ev.env.get("self._header.count"))
        if got != want and cex is None:
            cex = (v, got, want)
    chk.decide(cex is None, "C04.jump-sp", f"{f.qual}.setter", "SP None -> (flags 0, count 0); any integer incl. 0 -> (flags 2, count SP)", f"spreg={cex[0]!r} -> (flags, count) = {cex[1]}" if cex else "", f"{cex[2]}" if cex else "", A.loc(CMD, f.node))
    g = ctx.own(CMD, "CmdJump", "spreg")
    cex = None
    for fl, cnt, want in ((0, 7, None), (2, 0, 0), (2, 9, 9)):
        out = ordereval.Evaluator({"self._header.flags": fl, "self._header.count": cnt}, opaque_return=False).run(A.body_of(g.node))
        if out.value != want and cex is None:
            cex = (fl, cnt, out.value, want)
    chk.decide(cex is None, "C04.jump-sp", g.qual, "getter returns the count exactly when the SP flag is set", f"{cex}", "", A.loc(CMD, g.node))
    p = ctx.own(CMD, "CmdJump", "parse")
    c = [x for x in A.calls_in(p.node) if isinstance(x.func, ast.Name) and x.func.id == "cls"]
    a3 = norm(c[-1].args[2]) if c and len(c[-1].args) > 2 else ""
    chk.decide(a3 in ("header.count if header.flags else None", "header.count if header.flags == 2 else None", "header.count if header.flags & 2 else None"), "C04.jump-sp", p.qual,
               "parse passes the SP only when the flag is set", a3, "header.count if header.flags else None", A.loc(CMD, p.node))


def rule_memid(ctx) -> None:
    """Memory-id placement: constructor encoders and parse decoders are inverse on the field width (E2)."""
    chk, prog = ctx.chk, ctx.prog
    m = ctx.m(CMD)
    fold = lambda e, c=None: prog.fold(e, m, c)  # noqa: E731
    base = ctx.cls(CMD, "CmdBaseClass")
    gd, gg, gm = ctx.func(CMD, "get_device_id"), ctx.func(CMD, "get_group_id"), ctx.func(CMD, "get_memory_id")
    try:
        dev = bitprov.BitEval({"mem_id": bitprov.var_bits("m", 16)}, fold).ev(A.returns_in(gd.node)[0].value)
        grp = bitprov.BitEval({"mem_id": bitprov.var_bits("m", 16)}, fold).ev(A.returns_in(gg.node)[0].value)
        back = bitprov.BitEval({"device_id": dev, "group_id": grp}, fold).ev(A.returns_in(gm.node)[0].value)
    except (bitprov.Top, bitprov.SymbolicShift) as e:
        raise AnalysisError(f"C04.memid: outside the bit-provenance fragment: {e}")
    fmap = bitprov.field_of(back, "m")
    ok = all(fmap.get(i) == (i, False) for i in range(12)) and all(back[i] == 0 for i in range(12, bitprov.W))
    chk.decide(ok, "C04.memid", f"{CMD}::get_memory_id(get_device_id, get_group_id)", "recombining device and group id reproduces bits 0..11 of the memory id", f"{sorted(fmap.items())[:14]}", "identity on bits 0..11", A.loc(CMD, gm.node))
    # per class: flags placement vs extraction
    for cname in ("CmdLoad", "CmdErase", "CmdMemEnable", "CmdProg", "CmdKeyStoreBackupRestore"):
        cls = ctx.cls(CMD, cname)
        cf = lambda e, cls=cls: prog.fold(e, m, cls)  # noqa: E731
        init = prog.find_method(cls, "__init__")
        parse = prog.find_method(cls, "parse")
        for idname, width in (("device_id", 8), ("group_id", 4)):
            enc = None
            for n2 in A.walk_no_nested(init.node):
                if isinstance(n2, (ast.Assign, ast.AugAssign)) and "flags" in norm(n2.targets[0] if isinstance(n2, ast.Assign) else n2.target):
                    for sub in ast.walk(n2.value):
                        if isinstance(sub, ast.BinOp) and isinstance(sub.op, ast.BitAnd) and isinstance(sub.left, ast.BinOp) and isinstance(sub.left.op, ast.LShift) \
                                and idname.split("_")[0].upper() in norm(sub.right):
                            enc = sub
            dec = None
            for n2 in A.walk_no_nested(parse.node):
                if isinstance(n2, ast.BinOp) and isinstance(n2.op, ast.RShift) and idname.split("_")[0].upper() in norm(n2.right) and "flags" in norm(n2.left):
                    dec = n2
            if enc is None and dec is None:
                continue
            if enc is None or dec is None:
                chk.bad("C04.memid", f"{CMD}::{cname} {idname}", f"encoder {'missing' if enc is None else 'present'}, decoder {'missing' if dec is None else 'present'}", "both sides place the id in flags", A.loc(CMD, cls.node))
                continue
            try:
                src = enc.left.left  # the id expression that is shifted
                env = {}
                for nm in A.names_in(src):
                    env[nm] = bitprov.var_bits("id", width)
                sym = lambda x, width=width: bitprov.var_bits("id", width) if norm(x) in ("controller_id.tag", "self.mem_id") else None  # noqa: E731
                placed = bitprov.BitEval(env, cf, sym).ev(enc)
                symd = lambda x, placed=placed: placed if norm(x) in ("header.flags", "self.header.flags") else None  # noqa: E731
                got = bitprov.BitEval({}, cf, symd).ev(dec)
            except (bitprov.Top, bitprov.SymbolicShift) as e:
                raise AnalysisError(f"C04.memid: {cname}.{idname} outside the fragment: {e}")
            fm = bitprov.field_of(got, "id")
            ok = all(fm.get(i) == (i, False) for i in range(width)) and all(not isinstance(got[i], tuple) for i in range(width, bitprov.W))
            chk.decide(ok, "C04.memid", f"{CMD}::{cname} {idname}", f"parse extracts exactly the {width} bits the constructor placed in flags", f"encoder `{norm(enc)}` / decoder `{norm(dec)}`: recovered bits {sorted(fm.items())}", "decode(encode(id)) = id", A.loc(CMD, enc))


# ------------------------------------------------------------------------------ must-check
def rule_mustcheck(ctx) -> None:
    chk, prog = ctx.chk, ctx.prog
    sites = [
        (CMD, "CmdHeader", "parse", {"crc"}, (), 0),
        (CMD, "CmdLoad", "parse", {"calculate"}, (), 1),
        (SEC, "BootSectionV2", "parse", {"hmac"}, (), 2),
        (SEC, "CertSectionV2", "parse", {"hmac"}, (), 2),
        (IMG, "BootImageV20", "parse", {"hmac", "verify_data"}, ("header.flags == 8",), 2),
        (IMG, "BootImageV21", "parse", {"verify_data", "get_hash"}, ("header.flags & BootImageV21.FLAGS_SHA_PRESENT_BIT",), 2),
    ]
    for rp, cn, mn, prims, allowed, floor in sites:
        fn = ctx.own(rp, cn, mn)
        if cn == "CmdHeader":
            # the checksum comparison: `if crc != obj.crc: raise`
            ifs = [s for s in A.body_of(fn.node) if isinstance(s, ast.If) and A.always_raises(s.body) and norm(s.test) in ("crc != obj.crc", "obj.crc != crc")]
            last = A.body_of(fn.node)[-1]
            chk.decide(bool(ifs) and isinstance(last, ast.Return) and ifs[0].lineno < last.lineno, "C04.must-check", fn.qual + " checksum", "header checksum mismatch raises before the header is returned",
                       "checksum comparison missing or after the return", "if crc != obj.crc: raise", A.loc(rp, fn.node))
            continue
        mustcheck.check_function(ctx, "C04.must-check", fn, prims, allowed, floor)
    chk.floor("C04.must-check", 10)
    # header tag / flags / mark checks in CertSectionV2.parse
    fn = ctx.own(SEC, "CertSectionV2", "parse")
    tests = [norm(s.test) for s in A.body_of(fn.node) if isinstance(s, ast.If) and A.always_raises(s.body)]
    for want in ("header.tag != EnumCmdTag.TAG", "header.flags != EnumSectionFlag.CLEARTEXT.tag | EnumSectionFlag.LAST_SECT.tag", "header.address != cls.SECT_MARK"):
        chk.decide(want in tests, "C04.must-check", f"{fn.qual} `{want}`", "section header field is verified", f"check `{want}` missing (present: {tests[3:]})", "", A.loc(SEC, fn.node))
    # the checksum function itself: writer and checker share CmdHeader.crc over bytes 1..SIZE-1 seeded 0x5A
    crc = ctx.own(CMD, "CmdHeader", "crc")
    cex = None
    raw = tuple(range(3, 3 + 16))
    def sym(x):
        if isinstance(x, ast.Call) and A.call_name(x) == "_raw_data":
            return raw
        return None
    out = ordereval.Evaluator({"self": Obj(SIZE=16)}, sym, opaque_return=False).run(A.body_of(crc.node))
    want = (0x5A + sum(raw[1:])) & 0xFF
    chk.decide(out.kind == "return" and out.value == want, "C04.checksum", crc.qual, "checksum = (0x5A + sum of bytes 1..SIZE-1) mod 256", f"{out.value}", f"{want}", A.loc(CMD, crc.node))
    ex = ctx.own(CMD, "CmdHeader", "export")
    r = A.returns_in(ex.node)
    chk.decide(bool(r) and norm(r[0].value) == "self._raw_data(self.crc)", "C04.checksum", ex.qual, "export embeds its own checksum", norm(r[0]) if r else "", "self._raw_data(self.crc)", A.loc(CMD, ex.node))


# ----------------------------------------------------------------------------------- counter
def _increments(fn: FuncInfo, skip_loops: bool) -> Tuple[List[ast.Call], List[ast.Call]]:
    outer, inner = [], []
    for c in A.calls_in(fn.node, "increment"):
        if isinstance(c.func, ast.Attribute) and norm(c.func.value) == "counter":
            in_loop = any(isinstance(a, (ast.For, ast.While)) for a in A.ancestors(c) if a is not fn.node)
            (inner if in_loop else outer).append(c)
    return outer, inner


def rule_counter(ctx) -> None:
    chk = ctx.chk
    ex = ctx.own(SEC, "BootSectionV2", "export")
    pa = ctx.own(SEC, "BootSectionV2", "parse")
    eo, ei = _increments(ex, True)
    po, pi = _increments(pa, True)
    # the HMAC count the export advances by must be the quantity it stores in the header (parse advances by header.data)
    stored = [norm(n.value) for n in A.walk_no_nested(ex.node) if isinstance(n, ast.Assign) and norm(n.targets[0]) == "self._header.data"]
    if len(stored) != 1:
        raise AnalysisError("C04.counter: export does not store the HMAC count in header.data exactly once")
    hexpr = stored[0]
    cex = None
    for h in range(0, 7):
        def sum_of(calls, hnames, h=h):
            tot = 0
            for c in calls:
                if not c.args:
                    tot += 1
                    continue
                def sym(x):
                    if norm(x) in hnames:
                        return h
                    return None
                tot += ordereval.Evaluator({}, sym).ev(c.args[0])
            return tot
        try:
            se = sum_of(eo, (hexpr,))
            sp = sum_of(po, ("header.data",))
        except ordereval.Unsupported as e:
            chk.bad("C04.counter", f"{SEC}::BootSectionV2.export/parse", f"counter advance uses a quantity other than the stored HMAC count `{hexpr}` / header.data: {e}",
                    "export advances by the HMAC count it writes to header.data; parse advances by header.data", A.loc(SEC, ex.node))
            cex = "reported"
            break
        if se != sp and cex is None:
            cex = (h, se, sp)
    if cex != "reported":
        chk.decide(cex is None, "C04.counter", f"{SEC}::BootSectionV2.export/parse", f"block counter advances by the same amount (1 + 2(h+1) with h = {hexpr} = header.data) before the command blocks on both sides",
                   f"for HMAC count {cex[0]}: export advances {cex[1]}, parse advances {cex[2]}" if cex else "", "equal advances", A.loc(SEC, ex.node))
    # one block per 16 bytes inside the loops
    for fn, calls in ((ex, ei), (pa, pi)):
        ok = len(calls) == 1 and not calls[0].args
        lp = [a for a in A.ancestors(calls[0]) if isinstance(a, ast.For)][0] if calls else None
        stride = norm(lp.iter) if lp is not None else ""
        ok = ok and stride.startswith("range(0, len(") and stride.endswith(", 16)")
        sl = [n for n in ast.walk(lp) if isinstance(n, ast.Subscript) and isinstance(n.slice, ast.Slice)] if lp is not None else []
        v = lp.target.id if lp is not None and isinstance(lp.target, ast.Name) else "?"
        ok = ok and any(norm(s.slice.lower) == v and norm(s.slice.upper) == f"{v} + 16" for s in sl)
        ctr = [c for c in A.calls_in(lp) if A.call_name(c) in ("aes_ctr_encrypt", "aes_ctr_decrypt")] if lp is not None else []
        ok = ok and bool(ctr) and norm(ctr[0].args[2]) == "counter.value"
        chk.decide(ok, "C04.counter", f"{fn.qual} block loop", "each 16-byte block is ciphered with counter.value and advances the counter by one", f"loop `{stride}`, increments {len(calls)}", "", A.loc(SEC, lp) if lp is not None else "")
    # image level start offsets
    v20e = ctx.own(IMG, "BootImageV20", "export")
    v20p = ctx.own(IMG, "BootImageV20", "parse")
    e_inc = [norm(c.args[0]) for c in _increments(v20e, False)[0] if c.args]
    p_inc = [norm(c.args[0]) for c in _increments(v20p, False)[0] if c.args]
    chk.decide("SecBootBlckSize.to_num_blocks(len(data))" in e_inc and "SecBootBlckSize.to_num_blocks(index)" in p_inc, "C04.counter", f"{IMG}::BootImageV20 start", "counter starts at the number of blocks that precede the first section (bytes emitted so far / bytes consumed so far)",
               f"export {e_inc} parse {p_inc}", "", A.loc(IMG, v20e.node))
    cs = ctx.own(SEC, "CertSectionV2", "parse")
    ci = [norm(c.args[0]) for c in _increments(cs, False)[0] if c.args]
    chk.decide(ci == ["SecBootBlckSize.to_num_blocks(index - offset)"] and "SecBootBlckSize.to_num_blocks(len(cert_sect_bin))" in e_inc, "C04.counter", f"{SEC}::CertSectionV2", "certificate section advances the counter by its own size on both sides", f"parse {ci}, export {e_inc}", "", A.loc(SEC, cs.node))
    v21e = ctx.own(IMG, "BootImageV21", "export")
    v21p = ctx.own(IMG, "BootImageV21", "parse")
    ctr = [c for c in A.calls_in(v21e.node, "Counter")]
    okc = bool(ctr) and len(ctr[0].args) == 2 and norm(ctr[0].args[1]) == "SecBootBlckSize.to_num_blocks(bs_offset)"
    p21 = [norm(c.args[0]) for c in _increments(v21p, False)[0] if c.args]
    chk.decide(okc and p21 == ["SecBootBlckSize.to_num_blocks(index - offset)"], "C04.counter", f"{IMG}::BootImageV21 start", "counter starts at the offset of the boot sections on both sides", f"export Counter args {[norm(a) for a in ctr[0].args] if ctr else ''}, parse {p21}", "", A.loc(IMG, v21e.node))
    # bs_offset terms equal the sizes parse skips
    bsd = [n.value for n in A.walk_no_nested(v21e.node) if isinstance(n, ast.Assign) and norm(n.targets[0]) == "bs_offset"]
    bs = bsd[0] if len(bsd) == 1 else None
    terms = sorted(t.strip() for t in norm(bs).split("+")) if bs is not None else []
    want = sorted(["ImageHeaderV2.SIZE", "self.HEADER_MAC_SIZE", "self.KEY_BLOB_SIZE", "self.cert_block.raw_size", "self.cert_block.signature_size"])
    sha = any(isinstance(n, ast.If) and "FLAGS_SHA_PRESENT_BIT" in norm(n.test) and any(norm(s) == "bs_offset += self.SHA_256_SIZE" for s in n.body) for n in A.body_of(v21e.node))
    skipped = [norm(n.value) for n in A.walk_no_nested(v21p.node) if isinstance(n, ast.AugAssign) and norm(n.target) == "index" and n.lineno < (A.calls_in(v21p.node, "Counter")[0].lineno if A.calls_in(v21p.node, "Counter") else 10**9)]
    wantp = sorted(["ImageHeaderV2.SIZE", "cls.HEADER_MAC_SIZE", "cls.KEY_BLOB_SIZE", "cert_block.raw_size", "BootImageV21.SHA_256_SIZE", "cert_block.signature_size"])
    chk.decide(terms == want and sha and sorted(skipped) == wantp, "C04.signed-range", f"{IMG}::BootImageV21 offsets", "export places the sections after header+MAC+key blob+cert block+(SHA)+signature; parse skips exactly those sizes",
               f"export terms {terms} sha={sha}; parse skips {sorted(skipped)}", f"{want} / {wantp}", A.loc(IMG, v21e.node))


def rule_structure(ctx) -> None:
    chk = ctx.chk
    # loop symmetry: every exported section is parsed
    for cn in ("BootImageV20", "BootImageV21"):
        ex = ctx.own(IMG, cn, "export")
        pa = ctx.own(IMG, cn, "parse")
        loops_e = [n for n in A.walk_no_nested(ex.node) if isinstance(n, ast.For) and "boot_sections" in norm(n.iter) and A.calls_in(n, "export")]
        loops_p = [n for n in A.walk_no_nested(pa.node) if isinstance(n, ast.While) and any(norm(c.func) == "BootSectionV2.parse" for c in A.calls_in(n)) and A.calls_in(n, "add_boot_section")]
        adv = bool(loops_p) and any(isinstance(s, ast.AugAssign) and norm(s) == "index += boot_section.raw_size" for s in loops_p[0].body)
        chk.decide(bool(loops_e) and bool(loops_p) and adv, "C04.loop-symmetry", f"{IMG}::{cn}", "sections are exported in a loop and parsed in a loop that advances by each section's raw size",
                   f"export loops {len(loops_e)}, parse loops {len(loops_p)}, advance {adv}", "a collection exported by iteration is parsed by iteration", A.loc(IMG, pa.node))
        # the loop bound is the MAC-protected block count of the header; it is never weakened by the length of the data in hand
        if loops_p:
            t = A.inline_locals(pa.node, loops_p[0].test, keep=("header",))
            tn = norm(t)
            weak = "len(data)" in tn or "min(" in tn
            uses_hdr = "header.image_blocks" in tn
            chk.decide(uses_hdr and not weak, "C04.truncation", f"{IMG}::{cn}.parse loop bound", "sections are read up to the block count of the authenticated header; a shorter file fails inside a section parser or an explicit length check",
                       f"loop condition `{tn}`: the bound follows the data length, so a file cut at a section boundary is returned with fewer sections", "while index < <header.image_blocks * block size>", A.loc(IMG, loops_p[0]))
    # signed data: V2.1 signs exactly the accumulator it emits before the signature; parse verifies data[offset:signature_index]
    ex = ctx.own(IMG, "BootImageV21", "export")
    sig = [c for c in A.calls_in(ex.node, "get_signature")]
    r = A.returns_in(ex.node)
    ok = bool(sig) and norm(sig[0].args[0]) == "signed_data" and bool(r) and norm(r[-1].value) == "signed_data + signature + bs_data"
    adds = [norm(n.value) for n in A.walk_no_nested(ex.node) if isinstance(n, ast.AugAssign) and norm(n.target) == "signed_data"]
    first = A.single_def(ex.node, "signed_data") is None and [norm(n.value) for n in A.walk_no_nested(ex.node) if isinstance(n, ast.Assign) and norm(n.targets[0]) == "signed_data"]
    order_ok = adds == ["hmac_bytes", "key_blob", "self.cert_block.export()", "get_hash(bs_data)"] and first == ["self._header.export(padding=padding)"]
    chk.decide(ok and order_ok, "C04.signed-range", ex.qual, "signature covers header | HMAC | key blob | cert block | (SHA-256 of sections) and is emitted right after it", f"first {first}, appended {adds}, signed `{norm(sig[0].args[0]) if sig else ''}`", "", A.loc(IMG, ex.node))
    pa = ctx.own(IMG, "BootImageV21", "parse")
    vd = [c for c in A.calls_in(pa.node, "verify_data")]
    ok = bool(vd) and [norm(a) for a in vd[0].args] == ["data[signature_index:signature_index + cert_block.signature_size]", "data[offset:signature_index]"]
    chk.decide(ok, "C04.signed-range", pa.qual, "parse verifies the signature over data[offset : signature_index]", [norm(a) for a in vd[0].args] if vd else "", "", A.loc(IMG, pa.node))
    p20 = ctx.own(IMG, "BootImageV20", "parse")
    vd = [c for c in A.calls_in(p20.node, "verify_data")]
    ok = bool(vd) and [norm(a) for a in vd[0].args] == ["data[image_size:]", "data[:image_size]"] and ctx.vnorm(p20, A.single_def(p20.node, "image_size")) == "header.image_blocks * 16"
    chk.decide(ok, "C04.signed-range", p20.qual, "V2.0 verifies data[:image_size] against the trailing signature", [norm(a) for a in vd[0].args] if vd else "", "", A.loc(IMG, p20.node))
    e20 = ctx.own(IMG, "BootImageV20", "export")
    sig = [c for c in A.calls_in(e20.node, "get_signature")]
    chk.decide(bool(sig) and norm(A.enclosing_stmt(sig[0])) == "data += self.signature_provider.get_signature(data)", "C04.signed-range", e20.qual, "V2.0 signs everything emitted so far and appends the signature", norm(A.enclosing_stmt(sig[0])) if sig else "", "", A.loc(IMG, e20.node))
    # key blob twin
    for cn in ("BootImageV20", "BootImageV21"):
        ex = ctx.own(IMG, cn, "export")
        pa = ctx.own(IMG, cn, "parse")
        w = [c for c in A.calls_in(ex.node, "aes_key_wrap")]
        u = [c for c in A.calls_in(pa.node, "aes_key_unwrap")]
        dek = norm(A.single_def(pa.node, "dek")) if A.single_def(pa.node, "dek") is not None else ""
        mac = norm(A.single_def(pa.node, "mac")) if A.single_def(pa.node, "mac") is not None else ""
        ok = bool(w) and [norm(a) for a in w[0].args] == ["self.kek", "self.dek + self.mac"] and bool(u) and [norm(a) for a in u[0].args] == ["kek", "key_blob[:-8]"] \
            and dek == "key_blob_unwrap[:32]" and mac == "key_blob_unwrap[32:]"
        chk.decide(ok, "C04.keyblob-twin", f"{IMG}::{cn}", "key blob = wrap(kek, dek | mac); parse unwraps with the kek and splits at 32", f"wrap {[norm(a) for a in w[0].args] if w else ''} unwrap {[norm(a) for a in u[0].args] if u else ''} dek={dek} mac={mac}", "", A.loc(IMG, ex.node))
    # values carried: constructor parameters reach the header fields of the same name
    for cn in ("BootImageV20", "BootImageV21"):
        init = ctx.own(IMG, cn, "__init__")
        hc = [c for c in A.calls_in(init.node, "ImageHeaderV2")]
        kw = {k.arg: norm(k.value) for k in hc[0].keywords} if hc else {}
        want = {"product_version": "product_version", "component_version": "component_version", "build_number": "build_number", "nonce": "advanced_params.nonce", "timestamp": "advanced_params.timestamp"}
        ok = all(kw.get(k) == v for k, v in want.items()) and kw.get("flags") in ("flags",)
        chk.decide(ok, "C04.values-carried", init.qual, "product/component version, build number, flags, nonce, timestamp reach the header under their own names", f"{kw}", f"{want}", A.loc(IMG, init.node))
        pa = ctx.own(IMG, cn, "parse")
        c = [x for x in A.calls_in(pa.node) if isinstance(x.func, ast.Name) and x.func.id == "cls"]
        kw = {k.arg: norm(k.value) for k in c[-1].keywords} if c else {}
        ok = kw.get("product_version") == "str(header.product_version)" and kw.get("component_version") == "str(header.component_version)" and kw.get("build_number") == "header.build_number"
        chk.decide(ok, "C04.values-carried", pa.qual, "parse passes the header's versions and build number back under their own names", f"{kw}", "", A.loc(IMG, pa.node))
        ap = [x for x in A.calls_in(pa.node, "SBV2xAdvancedParams")]
        kw = {k.arg: norm(k.value) for k in ap[0].keywords} if ap else {}
        chk.decide(kw == {"dek": "dek", "mac": "mac", "nonce": "header.nonce", "timestamp": "header.timestamp"}, "C04.values-carried", pa.qual + " keys", "unwrapped DEK/MAC and the header's nonce/timestamp are carried into the parsed object", f"{kw}", "", A.loc(IMG, pa.node))
    hi = ctx.own(HDR, "ImageHeaderV2", "__init__")
    st = {norm(s.targets[0]): norm(s.value) for s in A.walk_no_nested(hi.node) if isinstance(s, ast.Assign)}
    st.update({norm(s.target): norm(s.value) for s in A.walk_no_nested(hi.node) if isinstance(s, ast.AnnAssign) and s.value is not None})
    ok = st.get("self.product_version") == "BcdVersion3.to_version(product_version)" and st.get("self.component_version") == "BcdVersion3.to_version(component_version)" and st.get("self.build_number") == "build_number" and st.get("self.flags") == "flags"
    chk.decide(ok, "C04.values-carried", hi.qual, "header constructor stores each value under its own name", f"{ {k: v for k, v in st.items() if 'version' in k or 'build' in k or 'flags' in k} }", "", A.loc(HDR, hi.node))


def rule_timestamp(ctx) -> None:
    chk, prog = ctx.chk, ctx.prog
    pk = ctx.func(MISC, "pack_timestamp")
    up = ctx.func(MISC, "unpack_timestamp")
    def epoch(fn):
        c = [x for x in A.calls_in(fn.node, "datetime") if len(x.args) >= 3]
        return ([prog.fold(a, fn.module) for a in c[0].args], {k.arg: norm(k.value) for k in c[0].keywords}) if c else None
    e1, e2 = epoch(pk), epoch(up)
    scale1 = [prog.fold(n.right, pk.module) for n in ast.walk(pk.node) if isinstance(n, ast.BinOp) and isinstance(n.op, ast.Mult)]
    scale2 = [prog.fold(n.right, up.module) for n in ast.walk(up.node) if isinstance(n, ast.BinOp) and isinstance(n.op, (ast.Mult, ast.Div))]
    ok = e1 is not None and e1 == e2 and e1[0][:3] == [2000, 1, 1] and scale1 == [1000000] and set(scale2) == {1000000}
    chk.decide(ok, "C04.timestamp-twin", f"{MISC}::pack_timestamp/unpack_timestamp", "same epoch (2000-01-01 UTC) and the same microsecond scale in both directions", f"epochs {e1} / {e2}, scales {scale1} / {scale2}", "", A.loc(MISC, pk.node))
    for fn in (pk, up):
        gs = [s for s in A.body_of(fn.node) if isinstance(s, ast.If) and A.always_raises(s.body)]
        name = "result" if fn is pk else "value"
        cex = None
        for v in (-1, 0, 1, (1 << 64) - 1, 1 << 64):
            out = ordereval.Evaluator({name: v}).run(gs, stop_at_unsupported=True)
            want = "raise" if (v < 0 or v >= 1 << 64) else "fall"
            if out.kind != want and cex is None:
                cex = (v, out.kind)
        chk.decide(cex is None and bool(gs), "C04.timestamp-twin", fn.qual + " range", "accepts exactly the 64-bit unsigned range of the header item", f"{cex}", "", A.loc(MISC, fn.node))


def rule_timestamp_model(ctx) -> None:
    """C04.timestamp-model: pack_timestamp / unpack_timestamp interpreted with `datetime` modelled as a number of seconds (a datetime object
    is its POSIX time; `datetime(2000, 1, 1, tzinfo=utc)` is 946684800): the header value counts microseconds since 2000-01-01 UTC
    (0 at the epoch, 1 000 000 a second later) and unpack(pack(t)) = t for times on exactly representable fractions of a second."""
    EPOCH = 946684800
    pk = ctx.func(MISC, "pack_timestamp")
    up = ctx.func(MISC, "unpack_timestamp")
    Obj = ordereval.Obj

    def leaves(c: ast.Call, ev):
        f = norm(c.func)
        if f == "datetime" and len(c.args) >= 3:
            a = [ev.ev(x) for x in c.args]
            if a[:3] == [2000, 1, 1] and all(v == 0 for v in a[3:]) and any(k.arg == "tzinfo" and norm(k.value) in ("timezone.utc", "datetime.timezone.utc", "UTC") for k in c.keywords):
                return Obj(_ts=float(EPOCH))
            return ordereval.NOT_MODELLED
        if f == "datetime.fromtimestamp" and len(c.args) == 1 and not c.keywords:
            v = ev.ev(c.args[0])
            return Obj(_ts=float(v)) if isinstance(v, (int, float)) else ordereval.NOT_MODELLED
        if isinstance(c.func, ast.Attribute) and c.func.attr == "timestamp" and not c.args:
            try:
                o = ev.ev(c.func.value)
            except ordereval.Unsupported:
                return ordereval.NOT_MODELLED
            if isinstance(o, Obj) and "_ts" in o.__dict__:
                return o.__dict__["_ts"]
        if f == "isinstance" and len(c.args) == 2 and norm(c.args[1]) == "datetime":
            v = ev.ev(c.args[0])
            return isinstance(v, Obj) and "_ts" in v.__dict__
        if f == "int" and len(c.args) == 1:
            v = ev.ev(c.args[0])
            if isinstance(v, (int, float)):
                return int(v)
        return ordereval.NOT_MODELLED

    def run(fn, arg):
        try:
            return ordereval.Evaluator({fn.params()[0]: arg}, ctx.fold_sym(fn), opaque_return=False, call_value=ctx.model_calls(leaves, module=MISC)).run(A.body_of(fn.node))
        except ordereval.Unsupported as ex:
            raise AnalysisError(f"C04.timestamp-model: {fn.qual} left the fragment: {ex}")
    probs = []
    n = 0
    for dt, want in ((0, 0), (1, 1000000), (0.5, 500000), (86400, 86400000000), (800000000.25, 800000000250000)):
        o = run(pk, Obj(_ts=float(EPOCH) + dt))
        n += 1
        if o.kind != "return" or o.value != want:
            probs.append(f"pack_timestamp(2000-01-01 + {dt} s) = {o.value!r} ({o.kind}), expected {want} microseconds")
            continue
        b = run(up, o.value)
        if b.kind != "return" or not isinstance(b.value, Obj) or b.value.__dict__.get("_ts") != float(EPOCH) + dt:
            probs.append(f"unpack_timestamp({want}) is {getattr(b.value, '_ts', b.value)!r} s ({b.kind}), expected {EPOCH + dt}")
    o = run(pk, Obj(_ts=float(EPOCH) - 1))
    if o.kind != "raise":
        probs.append(f"a time before 2000-01-01 is packed as {o.value!r} (an unsigned field)")
    ctx.chk.decide(not probs, "C04.timestamp-model", f"{MISC}::pack_timestamp/unpack_timestamp", f"microseconds since 2000-01-01 UTC, unpack inverts pack ({n} model times)", "; ".join(probs[:2])[:500], "", A.loc(MISC, pk.node))


def rule_section_model(ctx) -> None:
    """C04.section-model: BootSectionV2.export and .parse interpreted end to end on model sections (the section class, CmdHeader and the
    Counter class are stepped into; AES-CTR is a keystream that depends on (key, counter block), HMAC an injective stand-in; commands are
    opaque records of 1-2 cipher blocks).  Obligations, for requested HMAC counts 1-4 on sections of 1-4 blocks: the section parses back to
    the same commands, section id and effective HMAC count; writer and reader leave the block counter at the same value and that value has
    advanced by exactly the number of 16-byte blocks written (the ROM's counter is nonce + block index); a flipped byte anywhere in the
    encrypted section (sampled positions incl. every field boundary) makes parse raise."""
    import hashlib
    from ..engines import roundtrip
    oe = ordereval
    Obj = oe.Obj
    SYM = "spsdk/crypto/symmetric.py"
    sec, hdr, cnt = ctx.cls(SEC, "BootSectionV2"), ctx.cls(CMD, "CmdHeader"), ctx.cls(SYM, "Counter")
    sym_map = {"Endianness.LITTLE": Obj(value="little"), "Endianness.BIG": Obj(value="big")}

    def leaves(c: ast.Call, ev):
        f = norm(c.func)
        if f in ("aes_ctr_encrypt", "aes_ctr_decrypt") and len(c.args) + len(c.keywords) == 3:
            key, data, nonce = (ev.ev(x) for x in (list(c.args) + [k.value for k in c.keywords])[:3])
            if len(data) > 16:
                raise oe.Unsupported(c, "the model cipher works block by block")
            return bytes(a ^ b for a, b in zip(bytes(data), hashlib.sha256(b"K" + bytes(key) + bytes(nonce)).digest()))
        if f == "hmac" and len(c.args) == 2:
            return hashlib.sha256(b"H" + bytes(ev.ev(c.args[0])) + bytes(ev.ev(c.args[1]))).digest()
        if f == "parse_command" and len(c.args) == 1:
            d = bytes(ev.ev(c.args[0]))
            n_ = 16 * d[0] if d else 0
            if n_ == 0 or n_ > len(d):
                raise oe.ModelRaise(oe.Outcome("raise", None, c))
            return Obj(_cmdbytes=d[:n_], raw_size=n_)
        if isinstance(c.func, ast.Attribute) and c.func.attr == "export" and not c.args:
            try:
                o = ev.ev(c.func.value)
            except oe.Unsupported:
                return oe.NOT_MODELLED
            if isinstance(o, Obj) and "_cmdbytes" in o.__dict__:
                return o.__dict__["_cmdbytes"]
        if f == "isinstance" and len(c.args) == 2 and norm(c.args[1]) == "CmdBaseClass":
            v = ev.ev(c.args[0])
            return isinstance(v, Obj) and "_cmdbytes" in v.__dict__
        return roundtrip.std_leaves(c, ev)
    calls = ctx.model_calls(leaves, sym_map, classes={"BootSectionV2": sec, "CmdHeader": hdr, "Counter": cnt}, module=SEC, max_depth=7)
    fn = ctx.own(SEC, "BootSectionV2", "export")

    def cmd(nblocks: int, tag: int):
        return Obj(_cmdbytes=bytes([nblocks]) + bytes([tag]) * (16 * nblocks - 1), raw_size=16 * nblocks)
    nonce = bytes(range(0x30, 0x40))
    probs: List[str] = []
    n = 0
    for H, cmds in ((1, [cmd(1, 0xA1)]), (2, [cmd(1, 0xA1), cmd(2, 0xB2), cmd(1, 0xC3)]), (3, [cmd(2, 0xD4), cmd(1, 0xE5)]), (4, [cmd(1, 1), cmd(1, 2), cmd(1, 3), cmd(1, 4)]),
                    (1, [cmd(2, 0x77), cmd(2, 0x78)]), (2, [cmd(1, 0x10), cmd(1, 0x11)])):
        label = f"hmac_count {H}, {sum(len(c_.__dict__['_cmdbytes']) for c_ in cmds) // 16} command blocks"
        try:
            env = {"H": H, "nonce": nonce, "dek": b"D" * 32, "mac": b"M" * 32, "BootSectionV2": ctx.class_standin(sec), "Counter": ctx.class_standin(cnt)}
            ev = oe.Evaluator(env, ctx.fold_sym(fn, sym_map), opaque_return=False, call_value=calls)
            s_ = ev.ev(ast.parse("BootSectionV2(7, hmac_count=H)", mode="eval").body)
            s_.__dict__["_commands"] = tuple(cmds)
            ev.env["s"] = s_
            for nm in ("c0", "c1", "c2"):
                ev.env[nm] = ev.ev(ast.parse("Counter(nonce)", mode="eval").body)
            try:
                data = ev.ev(ast.parse("s.export(dek, mac, c1)", mode="eval").body)
            except oe.ModelRaise as mr:
                probs.append(f"{label}: export of a valid section raises ({mr})")
                continue
            ev.env["data"] = data
            try:
                p_ = ev.ev(ast.parse("BootSectionV2.parse(data, 0, False, dek, mac, c2)", mode="eval").body)
            except oe.ModelRaise as mr:
                probs.append(f"{label}: the exported section does not parse back ({mr})")
                continue
            n += 1
            start = ev.env["c0"].__dict__.get("_ctr")
            got_cmds = [c_.__dict__.get("_cmdbytes") for c_ in p_.__dict__.get("_commands", ())]
            want_cmds = [c_.__dict__["_cmdbytes"] for c_ in cmds]
            adv1, adv2 = ev.env["c1"].__dict__.get("_ctr") - start, ev.env["c2"].__dict__.get("_ctr") - start
            hp, hs = p_.__dict__.get("_header"), s_.__dict__.get("_header")
            if got_cmds != want_cmds:
                probs.append(f"{label}: parsed commands differ from the exported ones")
            elif not (isinstance(hp, Obj) and hp.__dict__.get("address") == 7 and p_.__dict__.get("_hmac_count") == hs.__dict__.get("data")):
                probs.append(f"{label}: section id / HMAC count come back as {getattr(hp, 'address', None)} / {p_.__dict__.get('_hmac_count')} (written: 7 / {hs.__dict__.get('data')})")
            elif adv1 != adv2 or adv1 != len(data) // 16:
                probs.append(f"{label}: {len(data) // 16} blocks written, the writer's counter advanced by {adv1}, the reader's by {adv2}")
            else:
                for pos in sorted(set(list(range(0, len(data), 7)) + [15, 16, 47, 48, len(data) - 17, len(data) - 1])):
                    bad_data = bytearray(data)
                    bad_data[pos] ^= 0x40
                    ev.env["bad"] = bytes(bad_data)
                    ev.env["c3"] = ev.ev(ast.parse("Counter(nonce)", mode="eval").body)
                    try:
                        ev.ev(ast.parse("BootSectionV2.parse(bad, 0, False, dek, mac, c3)", mode="eval").body)
                        probs.append(f"{label}: byte {pos} of the section flipped and parse still returns a section")
                        break
                    except oe.ModelRaise:
                        pass
        except oe.Unsupported as ex:
            raise AnalysisError(f"C04.section-model: BootSectionV2 left the fragment ({label}): {ex}")
    ctx.chk.analysed(fn.qual)
    ctx.chk.decide(not probs, "C04.section-model", f"{SEC}::BootSectionV2.export/parse", f"sections round-trip, the block counter follows the file position on both sides, tampering is refused ({n} model sections)",
                   "; ".join(probs[:2])[:600], "", A.loc(SEC, fn.node))


def rule_wire(ctx) -> None:
    wire.check_pair(ctx, "C04.wire", HDR, "ImageHeaderV2", "export", "parse")
    wire.check_pair(ctx, "C04.wire", CMD, "CmdHeader", "_raw_data", "parse")
    hdr = ctx.cls(HDR, "ImageHeaderV2")
    fmt = ctx.prog.fold(hdr.consts.get("FORMAT"), hdr.module, hdr)
    size = ctx.prog.fold(hdr.consts.get("SIZE"), hdr.module, hdr)
    import struct as _s
    ctx.chk.decide(isinstance(fmt, str) and size == _s.calcsize(fmt) == 96, "C04.wire", f"{HDR}::ImageHeaderV2.SIZE", "SIZE is the size of FORMAT (96 bytes = 6 cipher blocks)", f"FORMAT {fmt} SIZE {size}", "96", A.loc(HDR, hdr.node))
    ch = ctx.cls(CMD, "CmdHeader")
    fmt = ctx.prog.fold(ch.consts.get("FORMAT"), ch.module, ch)
    its = struct_items(fmt) if isinstance(fmt, str) else None
    ctx.chk.decide(its is not None and [s for _c, s in its] == [1, 1, 2, 4, 4, 4], "C04.wire", f"{CMD}::CmdHeader.FORMAT", "command header is checksum(1) tag(1) flags(2) address(4) count(4) data(4) = one cipher block", f"{fmt}", "<2BH3L", A.loc(CMD, ch.node))
    if ctx.tier == "thorough":
        wire.sweep_modules(ctx, "C04.wire", [HDR, CMD, SEC, IMG])


def run(ctx) -> None:
    ctx.chk.explain("C04: PackSym on the image and command headers; constructor-to-header and header-to-constructor operand routes of the command classes must name the same header "
                    "fields; registry/tag agreement; every MAC/CRC/signature computed in a parser must reach a raising guard (must-check with allowed conditions); the block "
                    "counter advance is compared between export and parse as a function of the stored HMAC count; section loops, signed range, key-blob and timestamp twins; "
                    "setter guards decided against the header item widths; memory-id bit placement by bit provenance.")
    ctx.rule(rule_wire)
    ctx.rule(rule_timestamp_model)
    ctx.rule(rule_section_model)
    ctx.rule(rule_routes)
    ctx.rule(rule_image_routes)
    ctx.rule(rule_fill_word)
    ctx.rule(rule_roundtrip)
    ctx.rule(rule_setters)
    ctx.rule(rule_memid)
    ctx.rule(rule_mustcheck)
    ctx.rule(rule_counter)
    # the block counter object itself (spsdk.crypto.symmetric.Counter) is decided by C09's object model; SB2 decryption relies on it
    from . import c09 as _c09
    ctx.rule(lambda c: c.borrow(_c09.rule_counter, "C09.counter.increment", "C04.counter-model.increment"))
    ctx.rule(lambda c: c.borrow(_c09.rule_counter, "C09.counter.layout", "C04.counter-model.layout"))
    ctx.rule(rule_structure)
    ctx.rule(rule_timestamp)
    ctx.chk.assumptions = ["the ROM model itself (AES/HMAC/CRC values) is not re-implemented; crypto wrappers are decided in C09",
                           "not decided: byte-exact ROM acceptance, HMAC table block arithmetic for all sizes"]


MANIFEST = {
    "level": "Static structural decision of the clauses that make 'the ROM decodes what was given' possible: field-position agreement of the packed headers, operand routing symmetry "
             "of all command classes, tag registry agreement, verification results guarding success, equal counter advance on both sides, every section parsed, signed range "
             "agreement. Each clause is a necessary condition; values (MACs, ciphertext) are not computed.",
    "note": "Trusted: struct semantics, the evaluators in sa/engines. Not decided: ROM acceptance at value level, wrong-KEK behaviour beyond the must-check structure.",
    "technique": "static analysis: writer/reader struct symmetry, route dataflow, must-check guard analysis, symbolic counter sums, bit provenance, export/parse round trip of every SB2 command class and of the image header interpreted on model objects (E19), constructor argument vs header field routes of parse, FILL word value model, Counter object model (shared with C09), end-to-end BootSectionV2 export/parse model (keystream cipher, Counter class stepped into: counter follows file position, tamper refused), timestamp model with datetime as a number",
}
