"""C08 Keys and signatures: serialisation is lossless and sign/verify is sound (structural clauses + length-sniffing analysis)."""
from __future__ import annotations

import ast
import math
from typing import Any, Dict, List, Optional, Set, Tuple

from ..core import astutil as A
from ..core import callgraph as CG
from ..core.loader import AnalysisError
from ..core.report import norm
from ..core.symtab import UNKNOWN, ClassInfo, FuncInfo
from ..engines.ordereval import Evaluator, Unsupported

KEYS = "spsdk/crypto/keys.py"
SP = "spsdk/crypto/signature_provider.py"
CT = "spsdk/crypto/crypto_types.py"

CURVE_BITS = {"SECP256R1": 256, "SECP384R1": 384, "SECP521R1": 521}


# --------------------------------------------------------------------------- sign / verify twins
def _defs(fn: FuncInfo, names: List[str]) -> Dict[str, List[str]]:
    out: Dict[str, List[str]] = {n: [] for n in names}
    for st in A.walk_no_nested(fn.node):
        if isinstance(st, ast.Assign) and norm(st.targets[0]) in out:
            conds = [norm(a.test) for a in A.ancestors(st) if isinstance(a, ast.If)]
            out[norm(st.targets[0])].append((" & ".join(conds) + " => " if conds else "") + norm(st.value))
    return out


def _pss_sites(ctx, fn: FuncInfo, cls: Optional[ClassInfo], depth: int = 0, binding: Optional[Dict[str, ast.expr]] = None) -> List[Tuple[str, str, str]]:
    """(mgf hash expr, salt expr, where) for every padding.PSS(...) reachable from fn through same-module helpers (one level), with helper parameters substituted."""
    out = []
    for c in [x for x in ast.walk(fn.node) if isinstance(x, ast.Call)]:
        if norm(c.func) in ("padding.PSS", "PSS"):
            mgf = A.arg_of(c, 0, "mgf")
            salt = A.arg_of(c, 1, "salt_length")
            mgf = A.inline_locals(fn.node, mgf, keep=("hash_alg",)) if mgf is not None else None
            alg = None
            if isinstance(mgf, ast.Call) and norm(mgf.func) in ("padding.MGF1", "MGF1"):
                alg = A.arg_of(mgf, 0, "algorithm")
            if alg is not None and binding is not None:
                alg = A.subst(alg, binding)
            out.append((norm(alg) if alg is not None else "?", norm(salt) if salt is not None else "?", fn.qual))
        elif depth == 0 and isinstance(c.func, (ast.Name, ast.Attribute)):
            tg = CG.resolve_call(ctx.prog, fn.module, cls, c)
            for t in tg or []:
                if t.module is fn.module and t is not fn and any(norm(x.func) in ("padding.PSS", "PSS") for x in ast.walk(t.node) if isinstance(x, ast.Call)):
                    b = A.bind_args(t.node, c, skip_self=t.cls is not None and not isinstance(c.func, ast.Name)) or {}
                    # parameters that were not passed take their defaults
                    a = t.node.args
                    dflt = dict(zip([x.arg for x in a.args[len(a.args) - len(a.defaults):]], a.defaults))
                    for p, d in dflt.items():
                        b.setdefault(p, d)
                    out += _pss_sites(ctx, t, t.cls, 1, b)
    return out


def rule_twins(ctx) -> None:
    chk = ctx.chk
    # RSA
    sg, vf = ctx.own(KEYS, "PrivateKeyRsa", "sign"), ctx.own(KEYS, "PublicKeyRsa", "verify_signature")
    names = ["hash_alg", "pad", "sign_alg"]
    ds, dv = _defs(sg, names), _defs(vf, names)
    chk.decide(ds == dv and all(ds[n] for n in names), "C08.sign-verify-twin", "RSA sign <-> verify_signature", "hash, padding and pre-hash selection are built by identical expressions on both sides",
               f"sign {ds} vs verify {dv}", "", A.loc(KEYS, vf.node))
    chk.decide(ds["hash_alg"] == ["get_hash_algorithm(algorithm or self.default_hash_algorithm)"] and ds["sign_alg"] == ["utils.Prehashed(hash_alg) if prehashed else hash_alg"], "C08.sign-verify-twin", sg.qual + " parameters",
               "the requested hash (or the key's default) is the message hash; Prehashed only when asked", f"{ds}", "", A.loc(KEYS, sg.node))
    for fn in (sg, vf):
        sites = _pss_sites(ctx, fn, fn.cls)
        ok = len(sites) == 1 and sites[0][0] == "hash_alg" and sites[0][1] == "padding.PSS.DIGEST_LENGTH"
        chk.decide(ok, "C08.pss-parameters", fn.qual, "RSA-PSS uses MGF1 with the message hash and a salt of digest length (the conventional parameter set an independent verifier assumes)",
                   f"PSS constructions reachable: {sites}", "padding.PSS(mgf=padding.MGF1(algorithm=hash_alg), salt_length=padding.PSS.DIGEST_LENGTH)", A.loc(KEYS, fn.node))
        prim = [c for c in ast.walk(fn.node) if isinstance(c, ast.Call) and norm(c.func) == ("self.key.sign" if fn is sg else "self.key.verify")]
        kw = {k.arg: norm(k.value) for k in prim[0].keywords} if len(prim) == 1 and not prim[0].args else {}
        want_kw = {"data": "data", "padding": "pad", "algorithm": "sign_alg"}
        if fn is vf:
            want_kw["signature"] = "signature"
        ok = kw == want_kw
        if fn is vf:
            hs = [h for h in ast.walk(fn.node) if isinstance(h, ast.ExceptHandler) and isinstance(h.type, ast.Name) and h.type.id == "InvalidSignature"]
            ok = ok and len(hs) == 1 and [norm(x) for x in hs[0].body] == ["return False"]
        chk.decide(ok, "C08.sign-verify-twin", fn.qual + " primitive", "the built padding and algorithm are the ones handed to the primitive", "", "", A.loc(KEYS, fn.node))
    # ECC
    sg, vf = ctx.own(KEYS, "PrivateKeyEcc", "sign"), ctx.own(KEYS, "PublicKeyEcc", "verify_signature")
    # decision tables over the symbolic paths: {prehashed?: algorithm object handed to the primitive}
    def alg_table(fn, prim, pos):
        tab = {}
        for q in A.spaths(fn.node):
            for c in q.calls():
                if norm(c.func) == prim and len(c.args) > pos:
                    pol = True if q.assumes("prehashed", True) else False if q.assumes("prehashed", False) else None
                    tab.setdefault(pol, set()).add((norm(c.args[pos]), tuple(norm(a) for a in c.args[:pos])))
        return tab
    ts, tv = alg_table(sg, "self.key.sign", 1), alg_table(vf, "self.key.verify", 2)
    algs_s = {k: {a for a, _ in v} for k, v in ts.items()}
    algs_v = {k: {a for a, _ in v} for k, v in tv.items()}
    chk.decide(algs_s == algs_v and bool(algs_s), "C08.sign-verify-twin", "ECC sign <-> verify_signature", "hash and pre-hash selection hand the same algorithm object to the primitive on both sides", f"sign {algs_s} vs verify {algs_v}", "", A.loc(KEYS, vf.node))
    H = "get_hash_algorithm(algorithm or self.default_hash_algorithm)"
    want = {True: {f"ec.ECDSA(utils.Prehashed({H}))"}, False: {f"ec.ECDSA({H})"}}
    chk.decide(algs_s == want, "C08.sign-verify-twin", sg.qual + " parameters", "ECDSA over the requested hash (or the curve's default), Prehashed only when asked", f"{algs_s}", "", A.loc(KEYS, sg.node))
    # output of sign: DER on request, otherwise r||s at the curve's coordinate size
    outs = {}
    for q in A.spaths(sg.node):
        if q.end == "return" and q.value is not None:
            pol = True if q.assumes("der_format", True) else False if q.assumes("der_format", False) else None
            v = norm(q.value)
            for a in sorted({a for x in algs_s.values() for a in x}, key=len, reverse=True):
                v = v.replace(a, "ALG")
            outs.setdefault(pol, set()).add(v)
    ok = outs == {True: {"self.key.sign(data, ALG)"}, False: {"self.serialize_signature(self.key.sign(data, ALG), self.coordinate_size)"}} and all(d == ("data",) for v in ts.values() for _, d in v)
    chk.decide(ok, "C08.sign-verify-twin", sg.qual + " output", "DER on request, otherwise r||s at the curve's coordinate size", f"{outs}", "", A.loc(KEYS, sg.node))
    # verify: a raw signature is split at the coordinate size, re-encoded and tried first; the given bytes are tried as DER
    CS = "math.ceil(self.key.key_size / 8)"
    eargs = set()
    for q in A.spaths(vf.node):
        for c in q.calls("encode_dss_signature"):
            eargs.add((tuple(norm(ctx.prop_inline(vf, a)) for a in c.args), q.assumes("len(signature) == self.signature_size", True)))
    want_e = {((f"int.from_bytes(signature[:{CS}], byteorder=Endianness.BIG.value)", f"int.from_bytes(signature[{CS}:], byteorder=Endianness.BIG.value)"), True)}
    vargs = {d for v in tv.values() for _, d in v}
    ok = eargs == want_e and vargs == {("der_signature", "data")}
    chk.decide(ok, "C08.sign-verify-twin", vf.qual + " raw input", "a raw signature is split at the coordinate size into r and s and re-encoded for the primitive, which is called with the data and the built algorithm", f"encode args {sorted(eargs)}; verify args {sorted(vargs)}", "", A.loc(KEYS, vf.node))
    rets = [norm(r.value) for r in A.returns_in(vf.node)]
    chk.decide(rets.count("True") == 1 and rets[-1] == "False" and any(isinstance(h.type, ast.Name) and h.type.id == "InvalidSignature" for h in ast.walk(vf.node) if isinstance(h, ast.ExceptHandler)), "C08.sign-verify-twin", vf.qual + " verdict",
               "True only right after a successful primitive verification, False otherwise", f"returns {rets}", "", A.loc(KEYS, vf.node))
    # private -> public consistency
    for cn in ("PrivateKeyRsa", "PrivateKeyEcc"):
        f = ctx.own(KEYS, cn, "verify_public_key")
        chk.decide("self.get_public_key() == public_key" in norm(f.node), "C08.sign-verify-twin", f.qual, "key pair check compares the derived public key", "", "", A.loc(KEYS, f.node))


# --------------------------------------------------------------------------- fixed width
def rule_fixed_width(ctx) -> None:
    chk, prog = ctx.chk, ctx.prog
    m = ctx.m(KEYS)
    sites = 0
    ECC_CLASSES = {"KeyEccCommon", "PrivateKeyEcc", "PublicKeyEcc", "ECDSASignature"}
    for fn in CG.all_functions(prog):
        if fn.module is not m or fn.cls is None or fn.cls.name not in ECC_CLASSES:
            continue
        for c in [x for x in ast.walk(fn.node) if isinstance(x, ast.Call) and isinstance(x.func, ast.Attribute) and x.func.attr == "to_bytes"]:
            L = A.arg_of(c, 0, "length")
            if L is None:
                chk.bad("C08.fixed-width", fn.qual, f"`{norm(c)}` has no explicit length", "ECC integers are serialised at the curve's fixed width", A.loc(KEYS, c))
                continue
            Li = norm(A.inline_locals(fn.node, L))
            sites += 1
            ok = "bit_length" not in Li and ("coordinate" in Li.lower() or "COORDINATE_LENGTHS" in Li)
            chk.decide(ok, "C08.fixed-width", f"{fn.qual} `{norm(c.func.value)}.to_bytes`", f"length `{Li}` comes from the curve, not from the value", f"length `{Li}` does not come from the curve's coordinate size (a value with leading zero bytes would be exported shorter)", "", A.loc(KEYS, c))
    if sites < 5:
        raise AnalysisError(f"C08.fixed-width: only {sites} ECC to_bytes sites found (expected >= 5)")
    # consumers anywhere in the package that serialise an ECC number (.x / .y / .d of a key) themselves: the width is never the FLOOR of
    # key_size / 8 (65 for P-521, whose numbers need 66 bytes: to_bytes overflows for most keys and the rest is unparsable)
    import re as _re
    ext = 0
    for fn in CG.all_functions(prog):
        if fn.module is m:
            continue
        for c in [x for x in ast.walk(fn.node) if isinstance(x, ast.Call) and isinstance(x.func, ast.Attribute) and x.func.attr == "to_bytes"
                  and isinstance(x.func.value, ast.Attribute) and x.func.value.attr in ("x", "y", "d")]:
            L = A.arg_of(c, 0, "length")
            if L is None:
                continue
            Li = norm(A.inline_locals(fn.node, L))
            ext += 1
            chk.decide(not _re.search(r"key_size\s*//\s*8", Li), "C08.fixed-width", f"{fn.qual} `{norm(c.func.value)}.to_bytes`", f"length `{Li}` is not the floor of key_size / 8",
                       f"length `{Li}` rounds the curve's bit size DOWN: a P-521 number needs 66 bytes, 521 // 8 is 65", "coordinate_size", A.loc(fn.module.relpath, c))
    chk.extra["ecc_to_bytes_sites_outside_keys"] = ext
    if ext < 3:
        raise AnalysisError(f"C08.fixed-width: only {ext} ECC to_bytes sites outside crypto/keys.py found (expected >= 3)")
    # callers of serialize_signature pass the key's coordinate size
    n = 0
    for fn in CG.all_functions(prog):
        for c in [x for x in ast.walk(fn.node) if isinstance(x, ast.Call) and A.call_name(x) == "serialize_signature"]:
            n += 1
            a = A.arg_of(c, 1, "coordinate_length")
            chk.decide(a is not None and "coordinate_size" in norm(a), "C08.fixed-width", f"{fn.qual} -> serialize_signature", "the coordinate length handed over is the key's coordinate_size", norm(a) if a is not None else "missing", "", A.loc(fn.module.relpath, c))
    if n < 1:
        raise AnalysisError("C08.fixed-width: no caller of serialize_signature found")
    cs = ctx.own(KEYS, "KeyEccCommon", "coordinate_size")
    ss = ctx.own(KEYS, "KeyEccCommon", "signature_size")
    chk.decide(norm(A.returns_in(cs.node)[-1].value) == "math.ceil(self.key.key_size / 8)" and norm(A.returns_in(ss.node)[-1].value) == "self.coordinate_size * 2", "C08.fixed-width", cs.qual,
               "coordinate size = ceil(curve bits / 8); raw signature = two coordinates", "", "", A.loc(KEYS, cs.node))


# --------------------------------------------------------------------------- tables
def rule_tables(ctx) -> None:
    chk, prog = ctx.chk, ctx.prog
    es = ctx.cls(KEYS, "ECDSASignature")
    cl = es.consts.get("COORDINATE_LENGTHS")
    tab = {norm(k).split(".")[-1]: prog.fold(v, es.module, es) for k, v in zip(cl.keys, cl.values)} if isinstance(cl, ast.Dict) else {}
    probs = [f"{c}: {tab.get(c)} != {math.ceil(b / 8)}" for c, b in CURVE_BITS.items() if tab.get(c) != math.ceil(b / 8)]
    chk.decide(not probs and len(tab) == 3, "C08.tables", f"{KEYS}::ECDSASignature.COORDINATE_LENGTHS", f"coordinate lengths {tab} = ceil(bits/8) for P-256/384/521", "; ".join(probs), "", A.loc(KEYS, es.node))
    dh = ctx.own(KEYS, "KeyEccCommon", "default_hash_algorithm")
    d = [n for n in ast.walk(dh.node) if isinstance(n, ast.Dict)]
    m = {prog.fold(k, dh.module): norm(v).split(".")[-1] for k, v in zip(d[0].keys, d[0].values)} if d else {}
    chk.decide(m == {256: "SHA256", 384: "SHA384", 521: "SHA512"}, "C08.tables", dh.qual, "default hash per curve: SHA-256/384/512", f"{m}", "", A.loc(KEYS, dh.node))
    # PlainFileSP._get_hash_algorithm thresholds agree with the key's default
    gh = ctx.own(SP, "PlainFileSP", "_get_hash_algorithm")
    ecc_if = [s for s in ast.walk(gh.node) if isinstance(s, ast.If) and "PrivateKeyEcc" in norm(s.test)]
    probs = []
    if ecc_if:
        for bits, want in ((256, 256), (384, 384), (521, 512)):
            ev = Evaluator({"self.private_key.key_size": bits})
            try:
                ev.run([s for s in ecc_if[0].body if isinstance(s, ast.If)])
            except Unsupported as u:
                raise AnalysisError(f"C08.tables: PlainFileSP._get_hash_algorithm left the fragment: {u}")
            if ev.env.get("hash_size") != want:
                probs.append(f"P-{bits}: sha{ev.env.get('hash_size')} (key default sha{want})")
    chk.decide(bool(ecc_if) and not probs, "C08.tables", gh.qual, "the provider's default hash per curve equals the key's default hash", "; ".join(probs), "", A.loc(SP, gh.node))
    # raw public-key length windows are pairwise disjoint (auto-detection by length is unambiguous across key types)
    sizes = prog.fold(ctx.cls(KEYS, "PrivateKeyRsa").consts.get("SUPPORTED_KEY_SIZES"), ctx.m(KEYS))
    rp = ctx.own(KEYS, "PublicKeyRsa", "recreate_public_numbers")
    if not isinstance(sizes, list):
        raise AnalysisError("C08.tables: RSA key sizes not found")
    # recreate_public_numbers evaluated on byte strings of every length: which lengths are accepted, and where they are split
    from ..engines import ordereval as _oe

    def cv_rsa(c: ast.Call, ev):
        f = norm(c.func)
        if f == "int.from_bytes" and len(c.args) + len(c.keywords) == 2:
            order = ev.ev(A.arg_of(c, 1, "byteorder"))
            return int.from_bytes(ev.ev(c.args[0]), order)
        if f == "rsa.RSAPublicNumbers" and not c.args and {k.arg for k in c.keywords} == {"e", "n"}:
            kw = {k.arg: ev.ev(k.value) for k in c.keywords}
            return ("NUMS", kw["n"], kw["e"])
        if f == "rsa.RSAPublicNumbers" and len(c.args) == 2 and not c.keywords:
            return ("NUMS", ev.ev(c.args[1]), ev.ev(c.args[0]))
        return _oe.NOT_MODELLED
    rsa_win: Dict[int, Set[int]] = {k: set() for k in sizes}
    split_probs = []
    sym_rsa = ctx.fold_sym(rp, {"PrivateKeyRsa.SUPPORTED_KEY_SIZES": tuple(sizes), "cls.SUPPORTED_KEY_SIZES": tuple(sizes), "Endianness.BIG.value": "big", "Endianness.LITTLE.value": "little"})
    for L in range(0, 700):
        data = bytes((i % 251) + 1 for i in range(L))
        try:
            out = Evaluator({"data": data}, sym_rsa, opaque_return=False, call_value=cv_rsa).run(A.body_of(rp.node))
        except Unsupported as u:
            raise AnalysisError(f"C08.tables: PublicKeyRsa.recreate_public_numbers left the fragment: {u}")
        if out.kind == "return" and isinstance(out.value, tuple) and out.value[0] == "NUMS":
            ks = [k for k in sizes if out.value[1] == int.from_bytes(data[:k // 8], "big") and out.value[2] == int.from_bytes(data[k // 8:], "big")]
            if len(ks) != 1:
                split_probs.append(f"{L} bytes: not split into big-endian modulus || exponent at a supported modulus size")
            else:
                rsa_win[ks[0]].add(L)
        elif out.kind != "raise":
            split_probs.append(f"{L} bytes: {out.kind}")
    ecc_win: Dict[str, Set[int]] = {}
    rf = ctx.own(KEYS, "PublicKeyEcc", "recreate_from_data")
    gc = [n for n in ast.walk(rf.node) if isinstance(n, ast.FunctionDef) and n.name == "get_curve"]
    if not gc:
        raise AnalysisError("C08.tables: PublicKeyEcc.recreate_from_data.get_curve not found")
    loop = [s for s in gc[0].body if isinstance(s, ast.For)][0]
    for cv, bits in CURVE_BITS.items():
        acc = set()
        for L in range(0, 700):
            ev = Evaluator({"curve_obj.key_size": bits, "data_length": L, "cur": cv})
            out = ev.run([s for s in loop.body if not (isinstance(s, ast.Assign) and norm(s.targets[0]) == "curve_obj")])
            if out.kind == "return":
                acc.add(L)
        ecc_win[cv] = acc
    wins = {f"RSA-{k}": v for k, v in rsa_win.items()}
    wins.update({f"ECC-{k}": v for k, v in ecc_win.items()})
    clash = [(a, b, sorted(wins[a] & wins[b])) for a in wins for b in wins if a < b and wins[a] & wins[b]]
    exp_ok = all({k // 8 + 3, k // 8 + 4} <= rsa_win[k] for k in sizes) and all(2 * math.ceil(b / 8) in ecc_win[c] for c, b in CURVE_BITS.items())
    chk.decide(not clash and exp_ok, "C08.tables", "raw public key length windows", f"accepted raw lengths are pairwise disjoint across {sorted(wins)} and contain modulus+3/4-byte exponent resp. two coordinates",
               f"overlaps {clash}; windows { {k: sorted(v) for k, v in wins.items()} }", "", A.loc(KEYS, rp.node))
    # RSA raw export/parse: modulus first, exponent after, big endian
    ex = ctx.own(KEYS, "PublicKeyRsa", "export")
    t = norm(ex.node)
    from ..engines import bytelayout
    nf = bytelayout.normal_form(lambda e: prog.fold(e, ex.module, ex.cls), ex.node)
    # the raw form as a field list (however the bytes are put together): modulus at its length, then exponent at its length
    ok = nf == [("modulus_length", "int", "big", "self.n"), ("exp_length", "int", "big", "self.e")]
    ok = ok and not split_probs
    chk.decide(ok, "C08.tables", "RSA raw export <-> recreate_public_numbers", "modulus || exponent, big endian, split at the modulus size on both sides", f"export {nf}; parse: {split_probs[:2]}", "", A.loc(KEYS, ex.node))
    px = ctx.own(KEYS, "PublicKeyEcc", "export")
    t, t2 = norm(px.node), norm(rf.node)
    nfx = bytelayout.normal_form(lambda e: prog.fold(e, px.module, px.cls), px.node)
    ok = nfx == [("self.coordinate_size", "int", "big", "self.x"), ("self.coordinate_size", "int", "big", "self.y")] and "coordinate_length = data_length // 2" in t2 and "coor_x = int.from_bytes(data[:coordinate_length], byteorder=Endianness.BIG.value)" in t2 and "coor_y = int.from_bytes(data[coordinate_length:], byteorder=Endianness.BIG.value)" in t2
    chk.decide(ok, "C08.tables", "ECC raw export <-> recreate_from_data", "x || y, big endian, split in the middle on both sides", "", "", A.loc(KEYS, px.node))
    # encodings
    ge = ctx.own(CT, "SPSDKEncoding", "get_cryptography_encodings")
    d = [n for n in ast.walk(ge.node) if isinstance(n, ast.Dict)]
    m = {norm(k): norm(v) for k, v in zip(d[0].keys, d[0].values)} if d else {}
    chk.decide(m == {"SPSDKEncoding.PEM": "Encoding.PEM", "SPSDKEncoding.DER": "Encoding.DER"}, "C08.tables", ge.qual, "PEM -> PEM, DER -> DER, anything else rejected", f"{m}", "", A.loc(CT, ge.node))
    # loader selection as a decision table over the symbolic paths (dictionary dispatch, if/elif chain and conditional expression agree)
    def loader_table(fn, subject: str, loaders: Dict[str, str]):
        """{encoding: {loader calls seen under it}} and the problems found"""
        probs, seen = [], {}
        for q in A.spaths(fn.node):
            for c in q.calls():
                f = norm(c.func)
                if f not in loaders.values():
                    continue
                encs = [e for e, l in loaders.items() if l == f]
                enc = encs[0]
                others = [e for e in loaders if e != enc]
                sel = q.assumes(f"{subject} == SPSDKEncoding.{enc}", True) or (len(others) == 1 and q.assumes(f"{subject} == SPSDKEncoding.{others[0]}", False))
                if not sel:
                    probs.append(f"{f} is reached without the encoding being {enc}: {q!r}"[:200])
                seen.setdefault(enc, set()).add(", ".join(norm(a) for a in c.args) + ("|pw" if q.assumes("password", True) else "|nopw" if q.assumes("password", False) else ""))
        return seen, probs
    pp = ctx.own(KEYS, "PrivateKey", "parse")
    seen, probs = loader_table(pp, "SPSDKEncoding.get_file_encodings(data)", {"PEM": "_load_pem_private_key", "DER": "_load_der_private_key"})
    want_args = {"data, password.encode('utf-8')|pw", "data, None|nopw"}
    chk.decide(not probs and seen == {"PEM": want_args, "DER": want_args}, "C08.tables", pp.qual,
               "the sniffed encoding selects the matching loader; the password is passed as UTF-8 bytes", "; ".join(probs) or f"{seen}", "", A.loc(KEYS, pp.node))
    cl = ctx.func(KEYS, "_crypto_load_private_key")
    seen, probs = loader_table(cl, "encoding", {"DER": "crypto_load_der_private_key", "PEM": "crypto_load_pem_private_key"})
    chk.decide(not probs and seen == {"DER": {"data, password"}, "PEM": {"data, password"}}, "C08.tables", cl.qual, "DER -> DER loader, PEM -> PEM loader", "; ".join(probs) or f"{seen}", "", A.loc(KEYS, cl.node))
    # private export: same container and the same password rule for RSA and ECC
    exps = {}
    for cn in ("PrivateKeyRsa", "PrivateKeyEcc"):
        f = ctx.own(KEYS, cn, "export")
        c = [x for x in A.calls_in(f.node, "private_bytes")]
        d = {}
        if c:
            for nm, a in zip(("encoding", "format", "encryption_algorithm"), c[0].args):
                d[nm] = a
            for k in c[0].keywords:
                d[k.arg] = k.value
        exps[cn] = {k: norm(A.inline_locals(f.node, v)).replace("BestAvailableEncryption(password=", "BestAvailableEncryption(") for k, v in d.items()}
    want = {"encoding": "SPSDKEncoding.get_cryptography_encodings(encoding)", "format": "PrivateFormat.PKCS8", "encryption_algorithm": "BestAvailableEncryption(password.encode('utf-8')) if password else NoEncryption()"}
    chk.decide(exps["PrivateKeyRsa"] == want and exps["PrivateKeyEcc"] == want, "C08.tables", "private key export", "PKCS#8 in the requested encoding, encrypted with the UTF-8 password exactly when one is given (the parser decodes the same way)", f"{exps}", "", A.loc(KEYS, ctx.own(KEYS, "PrivateKeyRsa", "export").node))
    for cn, fmt in (("PublicKeyRsa", "PublicFormat.PKCS1"), ("PublicKeyEcc", "PublicFormat.SubjectPublicKeyInfo")):
        f = ctx.own(KEYS, cn, "export")
        c = [x for x in A.calls_in(f.node, "public_bytes")]
        args = [norm(a) for a in c[0].args] if c else []
        chk.decide(args == ["SPSDKEncoding.get_cryptography_encodings(encoding)", fmt], "C08.tables", f.qual + " PEM/DER", f"public export in the requested encoding ({fmt})", f"{args}", "", A.loc(KEYS, f.node))


# --------------------------------------------------------------------------- provider plumbing
def rule_provider(ctx) -> None:
    chk = ctx.chk
    ip = ctx.own(SP, "InteractivePlainFileSP", "__init__")
    calls = [c for c in ast.walk(ip.node) if isinstance(c, ast.Call) and norm(c.func) == "super().__init__"]
    if len(calls) != 2:
        raise AnalysisError("C08.provider: InteractivePlainFileSP.__init__ no longer has a first attempt and a retry")
    def sig(c: ast.Call) -> Dict[str, str]:
        d = {k.arg or "**": norm(k.value) for k in c.keywords}
        return d
    a, b = sig(calls[0]), sig(calls[1])
    own_params = [p for p in ip.params() if p not in ("self",)]
    a2 = {k: v for k, v in a.items() if k != "password"}
    b2 = {k: v for k, v in b.items() if k != "password"}
    missing = [p for p in own_params if p not in b and p != "kwargs"]
    chk.decide(a2 == b2 and not missing and "password" in b, "C08.provider", ip.qual, "the retry after the passphrase prompt passes every named parameter of the first attempt (only the password differs)",
               f"first attempt {a}; retry {b}; named parameters not forwarded on retry: {missing}", "", A.loc(SP, calls[1]))
    pf = ctx.own(SP, "PlainFileSP", "__init__")
    # attribute stores along the symbolic paths, in order (temporaries and renamed locals do not matter)
    ok = True
    detail = ""
    for q in A.spaths(pf.node):
        if q.end not in ("fall", "return"):
            continue
        order = [(norm(s2.targets[0]), norm(s2.value)) for s2 in q.sstmts if isinstance(s2, ast.Assign) and isinstance(s2.targets[0], ast.Attribute)]
        d_ = dict(order)
        pw = "load_secret(password, search_paths)" if q.assumes("password", True) else "None"
        names = [k for k, _v in order]
        good = d_.get("self.sign_kwargs") == "kwargs" and d_.get("self.private_key") == f"PrivateKey.load(self.file_path, password={pw})" and d_.get("self.hash_alg") == "hash_alg" \
            and "self.sign_kwargs" in names and "self.hash_alg" in names and names.index("self.sign_kwargs") < names.index("self.hash_alg")
        if not good:
            ok = False
            detail = f"{order}"[:260]
    chk.decide(ok, "C08.provider", pf.qual, "extra parameters become the signing keyword arguments; the key is loaded with the resolved secret; the hash is applied after the arguments are stored", detail, "", A.loc(SP, pf.node))
    hs = ctx.own(SP, "PlainFileSP", "hash_alg", "setter")
    # the setter evaluated on its three kinds of input: nothing, an algorithm object, a label given as text (provider strings hand
    # every parameter over as text) - what is stored and what becomes the `algorithm` signing argument must be an algorithm, never text
    from ..engines import ordereval as _oe
    E384 = _oe.Obj(_enum="SHA384", label="sha384")
    probs = []
    for val in (None, E384, "sha384", "SHA256"):
        me = _oe.Obj(sign_kwargs={}, _hash_alg="<unset>")

        def cv_hs(c: ast.Call, ev):
            if norm(c.func) == "EnumHashAlgorithm.from_label" and len(c.args) == 1:
                return ("ENUM", ev.ev(c.args[0]).lower())
            return _oe.NOT_MODELLED
        try:
            _oe.Evaluator({"self": me, "hash_alg": val}, None, opaque_return=False, call_value=cv_hs).run(A.body_of(hs.node))
        except _oe.Unsupported as ex:
            raise AnalysisError(f"C08.provider: PlainFileSP.hash_alg setter left the fragment: {ex}")
        stored, arg = me.__dict__.get("_hash_alg"), me.__dict__["sign_kwargs"].get("algorithm", "<none>")
        want_s = None if val is None else val if val is E384 else ("ENUM", val.lower())
        want_a = "<none>" if val is None else want_s
        if stored != want_s or arg != want_a or isinstance(stored, str) or isinstance(arg, str) and arg != "<none>":
            probs.append(f"hash_alg={val!r}: stored {stored!r}, signing argument {arg!r}")
    chk.decide(not probs, "C08.provider", hs.qual + " setter", "a configured hash becomes the `algorithm` signing argument; a label given as text is converted to the algorithm first", "; ".join(probs[:2]), "", A.loc(SP, hs.node))
    sg = ctx.own(SP, "PlainFileSP", "sign")
    chk.decide(norm(A.returns_in(sg.node)[-1].value) == "self.private_key.sign(data, **self.sign_kwargs)", "C08.provider", sg.qual, "signs with the loaded key and the stored parameters", "", "", A.loc(SP, sg.node))
    gs = ctx.own(SP, "SignatureProvider", "get_signature")
    # return values along the symbolic paths: the normalised ECDSA form when parsing succeeds, the signature as it is when the parser
    # refuses it (the handler path starts from the state before the try)
    rets = {q.vtext for q in A.spaths(gs.node) if q.end == "return"}
    want_r = {"ECDSASignature.parse(self.sign(data)).export(encoding or SPSDKEncoding.NXP)", "self.sign(data)"}
    tr = [n for n in ast.walk(gs.node) if isinstance(n, ast.Try)]
    h_ok = len(tr) == 1 and len(tr[0].handlers) == 1 and norm(tr[0].handlers[0].type) == "SPSDKValueError" and any("ECDSASignature.parse" in norm(x) for x in tr[0].body)
    # (a name re-bound inside the try is opaque on the handler path: `signature` there still is what was bound before the try)
    pre = [norm(s2.value) for s2 in A.body_of(gs.node) if isinstance(s2, ast.Assign) and norm(s2.targets[0]) == "signature"]
    if "signature" in rets and pre[:1] == ["self.sign(data)"]:
        rets = (rets - {"signature"}) | {"self.sign(data)"}
    chk.decide(rets == want_r and h_ok, "C08.provider", gs.qual, "ECDSA signatures are normalised to the requested encoding (raw by default); other signatures pass unchanged", f"{sorted(rets)}; handler ok {h_ok}", "", A.loc(SP, gs.node))
    gp = ctx.func(SP, "get_signature_provider")
    t = norm(gp.node)
    chk.decide("signature_provider = InteractivePlainFileSP(file_path=local_file_key, **kwargs)" in t and "if k not in params: params[k] = v" in t.replace("\n", " ").replace("    ", ""), "C08.provider", gp.qual,
               "keyword parameters (hash, padding, search paths) are forwarded to either kind of provider", "", "", A.loc(SP, gp.node))


# --------------------------------------------------------------------------- length sniffing
def der_lengths(bits: int) -> Set[int]:
    """Feasible lengths of a DER ECDSA-Sig-Value for r, s in [1, n-1] on a curve of `bits` bits."""
    c = math.ceil(bits / 8)
    lmax = c + (1 if bits % 8 == 0 else 0)
    out = set()
    for l1 in range(1, lmax + 1):
        for l2 in range(1, lmax + 1):
            s = 4 + l1 + l2
            out.add(s + (2 if s < 128 else 3))
    return out


def _ranges(s: Set[int]) -> str:
    xs = sorted(s)
    if not xs:
        return "{}"
    out, a, p = [], xs[0], xs[0]
    for x in xs[1:] + [None]:
        if x is None or x != p + 1:
            out.append(f"{a}" if a == p else f"{a}..{p}")
            a = x
        p = x if x is not None else p
    return "{" + ",".join(out) + "}"


def rule_sniffing(ctx) -> None:
    """Encoding detection by length: derive, from the code's own tests and tables, the signature lengths for which raw/DER detection is wrong."""
    chk, prog = ctx.chk, ctx.prog
    es = ctx.cls(KEYS, "ECDSASignature")
    cl = es.consts.get("COORDINATE_LENGTHS")
    tab = {norm(k).split(".")[-1]: prog.fold(v, es.module, es) for k, v in zip(cl.keys, cl.values)}
    D = {c: der_lengths(b) for c, b in CURVE_BITS.items()}
    allD = set().union(*D.values())
    # (a) get_encoding: the raw test
    ge = ctx.own(KEYS, "ECDSASignature", "get_encoding")
    ifs = [s for s in A.body_of(ge.node) if isinstance(s, ast.If) and "signature_length" in norm(s.test)]
    if len(ifs) != 1:
        raise AnalysisError("C08.sniffing: raw-length test of ECDSASignature.get_encoding not found")
    vals = tuple(tab.values())

    class Ev(Evaluator):
        def ev(self, e):
            if norm(e) == "cls.COORDINATE_LENGTHS.values()":
                return vals
            return super().ev(e)
    raw_accept = {L for L in range(0, 200) if Ev({"signature_length": L}).ev(ifs[0].test)}
    exact = {2 * v for v in vals}
    chk.decide(exact <= raw_accept, "C08.sniffing", ge.qual + " raw lengths", f"raw signatures of {sorted(exact)} bytes are recognised as raw", f"accepted as raw: {_ranges(raw_accept)}", "", A.loc(KEYS, ifs[0]))
    amb = {c: raw_accept & D[c] for c in D}
    odd = raw_accept - exact
    text = "; ".join(f"{c} DER lengths {_ranges(amb[c])}" for c in sorted(amb) if amb[c])
    chk.decide(not any(amb.values()), "C08.sniffing", ge.qual, "no feasible DER signature length is classified as raw",
               f"DER-encoded signatures whose length is accepted by the raw test (r/s with leading zero bytes): {text}; lengths accepted as raw that are no raw signature length: {sorted(odd)}",
               "an explicit encoding parameter (detection by length is ambiguous)", A.loc(KEYS, ifs[0]))
    # (b) get_ecc_curve: DER lengths that map to no curve or the wrong one
    gc = ctx.own(KEYS, "ECDSASignature", "get_ecc_curve")
    loop = [s for s in A.body_of(gc.node) if isinstance(s, ast.For)]
    if len(loop) != 1:
        raise AnalysisError("C08.sniffing: ECDSASignature.get_ecc_curve loop not found")
    tests = [s for s in loop[0].body if isinstance(s, ast.If)]

    def curve_of(L: int) -> Optional[str]:
        for c, v in tab.items():
            for t in tests:
                if Evaluator({"signature_length": L, "coord_len": v}).ev(t.test):
                    return c
        return None
    wrong = {c: {L for L in D[c] - raw_accept if curve_of(L) != c and not any(L in D[o] and curve_of(L) == o for o in D if o != c and L in D[o])} for c in D}
    unm = {c: {L for L in D[c] - raw_accept if curve_of(L) is None} for c in D}
    text = "; ".join(f"{c} {_ranges(unm[c])}" for c in sorted(unm) if unm[c])
    chk.decide(not any(unm.values()), "C08.sniffing", gc.qual, "every feasible DER signature length maps to a curve",
               f"DER lengths that map to no curve (short r/s): {text}", "curve from the key, not from the signature length", A.loc(KEYS, gc.node))
    top = {c: max(D[c]) for c in D}
    ok_top = all(curve_of(top[c]) == c and curve_of(2 * tab[c]) == c for c in D)
    chk.decide(ok_top, "C08.sniffing", gc.qual + " nominal", "raw and full-length DER signatures map to their curve", f"{ {c: (curve_of(2 * tab[c]), curve_of(top[c])) for c in D} }", "", A.loc(KEYS, gc.node))
    # (c) verify_signature raw test
    vf = ctx.own(KEYS, "PublicKeyEcc", "verify_signature")
    ifs = [s for s in ast.walk(vf.node) if isinstance(s, ast.If) and "len(signature)" in norm(s.test)]
    if len(ifs) != 1:
        raise AnalysisError("C08.sniffing: raw test of PublicKeyEcc.verify_signature not found")
    amb_v = {}
    for c, b in CURVE_BITS.items():
        cs = math.ceil(b / 8)
        acc = {L for L in range(0, 200) if Evaluator({"self.signature_size": 2 * cs, "coordinate_size": cs}, sym=lambda e, _L=L: _L if norm(e) == "len(signature)" else None).ev(ifs[0].test)}
        if acc != {2 * cs}:
            chk.bad("C08.sniffing", vf.qual, f"{c}: lengths treated as raw: {sorted(acc)}", "only 2 x coordinate size is raw", A.loc(KEYS, ifs[0]))
        amb_v[c] = acc & D[c]
    text = "; ".join(f"{c} {_ranges(amb_v[c])}" for c in sorted(amb_v) if amb_v[c])
    # an ambiguous length is harmless when the unmodified signature (DER interpretation) is verified as well
    both = False
    for loop in [n for n in ast.walk(vf.node) if isinstance(n, ast.For) and isinstance(n.target, ast.Name)]:
        src = A.single_def(vf.node, norm(loop.iter)) if isinstance(loop.iter, ast.Name) else loop.iter
        uncond = isinstance(src, ast.List) and any(norm(e) == "signature" for e in src.elts)
        verifies = any(isinstance(c, ast.Call) and norm(c.func) == "self.key.verify" and c.args and norm(c.args[0]) == loop.target.id for c in ast.walk(loop))
        if uncond and verifies:
            both = True
    chk.decide(not any(amb_v.values()) or both, "C08.sniffing", vf.qual, "a signature of the raw length is verified under both interpretations (raw r||s and DER), so a DER signature of that length is not lost" if both else "no feasible DER signature has the raw length",
               f"a DER signature of exactly the raw length is re-interpreted as r||s and rejected: {text}", "verify the DER interpretation as well", A.loc(KEYS, ifs[0]))
    ctx.chk.extra["der_lengths"] = {c: _ranges(D[c]) for c in D}


CRYPTO_MODULES = ["spsdk/crypto/keys.py", "spsdk/crypto/certificate.py", "spsdk/crypto/signature_provider.py", "spsdk/crypto/crypto_types.py", "spsdk/crypto/utils.py"]
CERT = "spsdk/crypto/certificate.py"


def rule_forwarding(ctx) -> None:
    """C08.override-forwarding: type-specific entry points hand every shared parameter to the generic implementation."""
    from ..engines import superflow
    n = superflow.check(ctx, "C08.override-forwarding", CRYPTO_MODULES)
    if n < 8:
        raise AnalysisError(f"C08.override-forwarding: only {n} delegating overrides found in the crypto modules (expected >= 8)")


def rule_certificate(ctx) -> None:
    """C08.certificate: a certificate signature is verified with the signed certificate's own hash, signature and TBS bytes under the issuer's key."""
    chk = ctx.chk
    for mn, subject, issuer in (("validate", "self", "issuer_certificate"), ("validate_subject", "subject_certificate", "self")):
        f = ctx.own(CERT, "Certificate", mn)
        vs = [c for c in ast.walk(f.node) if isinstance(c, ast.Call) and isinstance(c.func, ast.Attribute) and c.func.attr == "verify_signature"]
        if len(vs) != 1:
            raise AnalysisError(f"C08.certificate: verify_signature call of Certificate.{mn} not found")
        c = vs[0]
        args = [norm(A.inline_locals(f.node, a)) for a in c.args] + [f"{k.arg}={norm(A.inline_locals(f.node, k.value))}" for k in c.keywords]
        want = [f"{subject}.signature", f"{subject}.tbs_certificate_bytes", f"EnumHashAlgorithm.from_label({subject}.signature_hash_algorithm.name)"]
        key = norm(c.func.value)
        chk.decide(args == want and key == f"{issuer}.get_public_key()", "C08.certificate", f.qual,
                   f"issuer key verifies ({subject}.signature, {subject}.tbs_certificate_bytes) with the hash named in {subject}'s own signature algorithm",
                   f"key `{key}`, arguments {args}", f"{issuer}.get_public_key().verify_signature({', '.join(want)})", A.loc(CERT, c))


def run(ctx) -> None:
    ctx.chk.explain("C08: sign/verify parameter twins for RSA and ECC (hash, padding, Prehashed), PSS parameter binding (MGF1 hash = message hash, salt = digest length) followed through helpers, "
                    "fixed-width rule for every ECC to_bytes site, table agreement (coordinate lengths, default hashes, raw-length windows pairwise disjoint, encoding maps, private export/parse), "
                    "signature-provider plumbing (every named parameter forwarded on the passphrase retry), and a derivation - from the code's own length tests and tables - of the signature "
                    "lengths for which raw/DER detection is wrong.")
    ctx.rule(rule_twins)
    ctx.rule(rule_fixed_width)
    ctx.rule(rule_tables)
    ctx.rule(rule_provider)
    ctx.rule(rule_sniffing)
    ctx.rule(rule_certificate)
    ctx.chk.assumptions = ["the `cryptography` primitives implement the named algorithms", "RSA moduli have their top bit set and the public exponent is 65537 (bit_length-based RSA lengths are then exact)",
                           "not decided: lossless round trip of every concrete key, rejection of modified signatures/messages (primitive security), PEM/DER container parsing inside `cryptography`"]


MANIFEST = {
    "level": "Static decision of the structural necessary conditions: identical parameter construction in sign and verify, conventional PSS parameters, curve-derived widths at every ECC "
             "serialisation site, agreement of the size/hash/encoding tables, disjoint raw-length windows, complete parameter forwarding in the providers; plus an exact derivation of the "
             "signature lengths at which length-based raw/DER detection misclassifies (recorded as known findings). Value-level round trips and unforgeability are not executed.",
    "note": "Trusted: `cryptography` primitives. DER length model: INTEGER content 1..coordinate size (+1 pad byte when the curve size is a multiple of 8).",
    "technique": "static analysis: AST expression twins with helper substitution, call-site rules over all ECC to_bytes sites, constant folding of tables, abstract evaluation of the length tests over 0..700, symbolic-path decision tables (loader selection, ECDSA algorithm objects), byte-layout normal forms, whole-function model of raw key recreation over all lengths, package-wide width clause for ECC numbers serialised outside crypto/keys.py",
}
