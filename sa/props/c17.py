"""C17 Secrets SPSDK invents are fresh for every artifact (E8 Fresh)."""
from __future__ import annotations

import ast
from typing import Dict, List, Optional, Set, Tuple

from ..core import astutil as A
from ..core import callgraph as CG
from ..core.loader import AnalysisError
from ..core.report import norm
from ..core.symtab import ClassInfo, FuncInfo, ModuleInfo

RNG = "spsdk/crypto/rng.py"
EXTERNAL_RNG = ("secrets.", "os.urandom", "random.", "uuid.uuid4", "uuid.uuid1", "numpy.random.")
STRONG_SOURCES = ("secrets.token_bytes", "secrets.token_hex", "secrets.randbelow", "os.urandom", "secrets.SystemRandom")

# (file, class, method, kind, target) - the self-chosen secrets named by the property. `target` is the
# normalised store target whose "not supplied" alternative must draw from the RNG per call.
SECRETS: List[Tuple[str, str, str, str, str]] = [
    ("spsdk/sbfile/sb2/images.py", "SBV2xAdvancedParams", "__init__", "plain", "self._dek"),
    ("spsdk/sbfile/sb2/images.py", "SBV2xAdvancedParams", "__init__", "plain", "self._mac"),
    ("spsdk/sbfile/sb2/images.py", "SBV2xAdvancedParams", "__init__", "plain", "self._nonce"),
    ("spsdk/sbfile/sb2/images.py", "SBV2xAdvancedParams", "__init__", "plain", "self._padding"),
    ("spsdk/sbfile/sb2/images.py", "SBV2xAdvancedParams", "_create_nonce", "plain", "nonce"),
    ("spsdk/sbfile/sb2/images.py", "BootImageV20", "__init__", "plain", "nonce"),
    ("spsdk/sbfile/sb2/headers.py", "ImageHeaderV2", "export", "plain", "padding"),
    ("spsdk/image/mbi/mbi_mixin.py", "Mbi_MixinCtrInitVector", "ctr_init_vector", "plain", "self._ctr_init_vector"),
    ("spsdk/image/mbi/mbi_mixin.py", "Mbi_MixinCtrInitVector", "ctr_init_vector", "setter", "self._ctr_init_vector"),
    ("spsdk/utils/crypto/otfad.py", "KeyBlob", "__init__", "plain", "key"),
    ("spsdk/utils/crypto/otfad.py", "KeyBlob", "__init__", "plain", "counter_iv"),
    ("spsdk/utils/crypto/iee.py", "IeeKeyBlob", "__init__", "plain", "key1"),
    ("spsdk/utils/crypto/iee.py", "IeeKeyBlob", "__init__", "plain", "key2"),
    ("spsdk/image/bee.py", "BeeProtectRegionBlock", "__init__", "plain", "self.counter"),
    ("spsdk/image/bee.py", "BeeKIB", "__init__", "plain", "self.kib_key"),
    ("spsdk/image/bee.py", "BeeKIB", "__init__", "plain", "self.kib_iv"),
    ("spsdk/image/bee.py", "BeeRegionHeader", "__init__", "plain", "self._sw_key"),
    ("spsdk/image/hab/segments.py", "CsfHabSegment", "get_dek_from_config", "plain", "secret_key"),
    ("spsdk/image/hab/segments.py", "CsfHabSegment", "encrypt", "plain", "self.nonce"),
    ("spsdk/image/images.py", "BootImgRT", "add_image", "plain", "self._nonce"),
    ("spsdk/image/images.py", "BootImgRT", "add_image", "plain", "self._dek_key"),
]
# returns that hand out a fresh secret: every `return` on the not-supplied path must be an RNG call
FRESH_RETURNS = [
    ("spsdk/image/hab/segments.py", "CsfHabSegment", "generate_nonce"),
]


def _is_external_rng(name: Optional[str]) -> bool:
    return bool(name) and any(name.startswith(p) or name == p for p in EXTERNAL_RNG)


def build_taint(ctx):
    prog = ctx.prog
    rng_mod = ctx.m(RNG)
    rng_funcs = {q for q, f in prog.functions.items() if f.module is rng_mod}
    if not rng_funcs:
        raise AnalysisError("C17: spsdk.crypto.rng defines no functions")

    def is_seed(m: ModuleInfo, c: ast.Call) -> Optional[str]:
        ext = CG.external_name(prog, m, c)
        if _is_external_rng(ext):
            return ext
        return None

    tainted, resolved, unresolved = CG.reach_closure(prog, rng_funcs, is_seed)
    ctx.chk.extra["callgraph"] = {"resolved_calls": resolved, "unresolved_calls": unresolved, "rng_reaching_functions": len(tainted)}
    return tainted


def t_calls(ctx, tainted, m: ModuleInfo, cls: Optional[ClassInfo], node: ast.AST) -> List[ast.Call]:
    out = []
    for c in [n for n in ast.walk(node) if isinstance(n, ast.Call)]:
        ext = CG.external_name(ctx.prog, m, c)
        if _is_external_rng(ext):
            out.append(c)
            continue
        tg = CG.resolve_call(ctx.prog, m, cls, c)
        if tg and any(t.qual in tainted for t in tg):
            out.append(c)
    return out


# ------------------------------------------------------------------------------------ rules
def rule_source(ctx) -> None:
    """C17.source: spsdk.crypto.rng delegates to the OS CSPRNG and passes its argument through."""
    prog = ctx.prog
    m = ctx.m(RNG)
    n = 0
    for q, f in sorted(prog.functions.items()):
        if f.module is not m or "rand" not in f.name.lower():
            continue
        ctx.chk.analysed(q)
        rets = A.returns_in(f.node)
        ok = len(rets) == 1 and isinstance(rets[0].value, ast.Call)
        ext = CG.external_name(prog, m, rets[0].value) if ok else None
        params = f.params()
        args_ok = ok and [norm(a) for a in rets[0].value.args] == params and not rets[0].value.keywords
        only_stmt = len(A.body_of(f.node)) == 1
        ctx.chk.decide(bool(ok and ext in STRONG_SOURCES and args_ok and only_stmt), "C17.source", q,
                       f"returns {ext}({', '.join(params)}) directly", norm(rets[0]) if rets else "no single return",
                       "a single `return <secrets.token_bytes|token_hex|randbelow|os.urandom>(<the parameter>)`", A.loc(RNG, f.node))
        n += 1
    ctx.chk.floor("C17.source", 3)
    # no module of the package imports the non-cryptographic `random` module
    offenders = []
    for name, mod in prog.modules.items():
        for st in ast.walk(mod.tree):
            if isinstance(st, ast.Import) and any(a.name == "random" or a.name.startswith("random.") for a in st.names):
                offenders.append((mod.relpath, st))
            if isinstance(st, ast.ImportFrom) and st.module == "random" and st.level == 0:
                offenders.append((mod.relpath, st))
    if offenders:
        for rp, st in offenders:
            ctx.chk.bad("C17.no-weak-rng", rp, norm(st), "spsdk draws randomness from `secrets` only", A.loc(rp, st))
    else:
        ctx.chk.ok("C17.no-weak-rng", "spsdk/**", f"none of {len(prog.modules)} modules imports the `random` module")
    # embedded positive example: the matcher must recognise `import random`
    t = ast.parse("import random\nfrom random import randint")
    assert sum(1 for st in ast.walk(t) if isinstance(st, (ast.Import, ast.ImportFrom))) == 2


def _import_time_nodes(tree: ast.Module):
    """Yield (context label, expression/statement node) evaluated at import time."""
    def scan(body, label, in_import_time):
        for st in body:
            if isinstance(st, (ast.FunctionDef, ast.AsyncFunctionDef)):
                if in_import_time:
                    for d in st.args.defaults + [k for k in st.args.kw_defaults if k is not None]:
                        yield f"default argument of {label}{st.name}", d
                    for d in st.decorator_list:
                        yield f"decorator of {label}{st.name}", d
                # nested defs: their defaults are evaluated when the enclosing function runs (not import time)
                continue
            if isinstance(st, ast.ClassDef):
                if in_import_time:
                    for d in st.decorator_list:
                        yield f"decorator of class {st.name}", d
                    for kw in st.keywords:
                        yield f"class keyword of {st.name}", kw.value
                    yield from scan(st.body, f"{label}{st.name}.", True)
                continue
            if isinstance(st, ast.If):
                t = norm(st.test)
                if "__name__" in t or "TYPE_CHECKING" in t:
                    continue
                yield f"{label}<body>", st.test
                yield from scan(st.body, label, in_import_time)
                yield from scan(st.orelse, label, in_import_time)
                continue
            if isinstance(st, (ast.Try,)):
                yield from scan(st.body, label, in_import_time)
                for h in st.handlers:
                    yield from scan(h.body, label, in_import_time)
                yield from scan(st.orelse, label, in_import_time)
                yield from scan(st.finalbody, label, in_import_time)
                continue
            if isinstance(st, (ast.With, ast.For, ast.While)):
                yield f"{label}<body>", st
                continue
            yield f"{label}<body>", st
    yield from scan(tree.body, "", True)


def rule_import_time(ctx, tainted) -> None:
    """C17.no-import-time-rng: no RNG-reaching call in a module body, class body, default argument or decorator."""
    prog = ctx.prog
    n_ctx = 0
    for name, mod in sorted(prog.modules.items()):
        for label, node in _import_time_nodes(mod.tree):
            n_ctx += 1
            # lambdas defer evaluation
            calls = []
            for c in t_calls(ctx, tainted, mod, None, node):
                if any(isinstance(a, ast.Lambda) for a in A.ancestors(c) if a is not node) and not isinstance(node, ast.Lambda):
                    inside_lambda = False
                    for a in A.ancestors(c):
                        if a is node:
                            break
                        if isinstance(a, ast.Lambda):
                            inside_lambda = True
                    if inside_lambda:
                        continue
                # default_factory=random_bytes (a reference, not a call) is fine; only calls are collected
                calls.append(c)
            # defs nested in a class: resolve with the class for cls./self. (not needed at import time)
            for c in calls:
                ctx.chk.bad("C17.no-import-time-rng", f"{mod.relpath}::{label}", norm(c),
                            "a value drawn once per process is shared by every artifact built in it; draw it per call/instance",
                            A.loc(mod.relpath, c))
    ctx.chk.ok("C17.no-import-time-rng", "spsdk/** import-time contexts",
               f"{n_ctx} import-time evaluated statements/default arguments/decorators scanned in {len(prog.modules)} modules")
    ctx.chk.exhaustive_rules.add("C17.no-import-time-rng")
    # positive example (must match on every run)
    t = ast.parse("class K:\n    X = {'iv': random_bytes(16)}\n    def f(self, p=Params()):\n        pass\n")
    labels = [l for l, _ in _import_time_nodes(t)]
    if not (any("default argument" in l for l in labels) and any(l.startswith("K.") for l in labels)):
        raise AnalysisError("C17.no-import-time-rng: embedded positive example no longer matches")


def rule_no_shared_cache(ctx, tainted) -> None:
    """C17.no-shared-cache: no RNG-derived value is memoised or stored on a class / module global."""
    prog = ctx.prog
    n = 0
    for fn in CG.all_functions(prog):
        memo = [d for d in fn.decorators if d.split("(")[0].split(".")[-1] in ("lru_cache", "cache", "cached")]
        if memo and fn.qual in tainted:
            ctx.chk.bad("C17.no-shared-cache", fn.qual, f"@{memo[0]} on a function that reaches the RNG ({' <- '.join(tainted[fn.qual][:3])})",
                        "memoising a random value makes it constant for the process", A.loc(fn.module.relpath, fn.node))
        globs: Set[str] = set()
        for st in A.walk_no_nested(fn.node):
            if isinstance(st, ast.Global):
                globs.update(st.names)
        for st in A.walk_no_nested(fn.node):
            targets: List[ast.expr] = []
            val = None
            if isinstance(st, ast.Assign):
                targets, val = st.targets, st.value
            elif isinstance(st, (ast.AugAssign, ast.AnnAssign)) and st.value is not None:
                targets, val = [st.target], st.value
            if val is None:
                continue
            for t in targets:
                shared = None
                if isinstance(t, ast.Name) and t.id in globs:
                    shared = f"module global {t.id}"
                elif isinstance(t, ast.Attribute):
                    b = t.value
                    if isinstance(b, ast.Name) and b.id == "cls":
                        shared = f"class attribute cls.{t.attr}"
                    elif isinstance(b, ast.Name) and isinstance(prog.resolve(fn.module, b.id), ClassInfo):
                        shared = f"class attribute {b.id}.{t.attr}"
                    elif norm(b) in ("type(self)", "self.__class__"):
                        shared = f"class attribute {norm(b)}.{t.attr}"
                elif isinstance(t, ast.Subscript):
                    b = t.value
                    d = A.dotted(b)
                    if d and (d.split(".")[0] == "cls" or (isinstance(b, ast.Name) and (b.id in globs or b.id.isupper()))):
                        shared = f"shared container {d}"
                if shared is None:
                    continue
                n += 1
                tc = t_calls(ctx, tainted, fn.module, fn.cls, val)
                if tc:
                    ctx.chk.bad("C17.no-shared-cache", fn.qual, norm(st), f"RNG-derived value stored in {shared}", A.loc(fn.module.relpath, st))
    ctx.chk.ok("C17.no-shared-cache", "spsdk/** stores to class/module state",
               f"{n} stores to class attributes / module globals scanned, memoising decorators checked on {len(tainted)} RNG-reaching functions")


def _alternatives(e: ast.expr) -> List[ast.expr]:
    if isinstance(e, ast.IfExp):
        return _alternatives(e.body) + _alternatives(e.orelse)
    if isinstance(e, ast.BoolOp) and isinstance(e.op, ast.Or):
        out: List[ast.expr] = []
        for v in e.values:
            out += _alternatives(v)
        return out
    return [e]


def rule_fresh_default(ctx, tainted) -> None:
    """C17.fresh-default: on the not-supplied path the stored secret is drawn from the RNG in this call."""
    prog = ctx.prog
    for rp, cn, mn, kind, target in SECRETS:
        fn = ctx.own(rp, cn, mn, kind)
        cls = fn.cls
        params = set(fn.params())
        defs = []
        for st in A.walk_no_nested(fn.node):
            if isinstance(st, ast.Assign) and any(norm(t) == target for t in st.targets):
                defs.append(st.value)
            elif isinstance(st, ast.AnnAssign) and st.value is not None and norm(st.target) == target:
                defs.append(st.value)
        construct = f"{fn.qual}{'.setter' if kind == 'setter' else ''} -> {target}"
        if not defs:
            ctx.chk.analysis_errors.append(f"C17.fresh-default: no store to {target} in {fn.qual} (anchor vanished)")
            continue
        fresh = 0
        stale: List[str] = []
        for d in defs:
            for alt in _alternatives(d):
                if isinstance(alt, ast.Name) and alt.id not in params:
                    # a local that carries the value (a temporary an inlined / extracted helper left behind): decided on what it holds
                    try:
                        alt = A.inline_locals(fn.node, alt)
                    except Exception:  # noqa: BLE001
                        pass
                if t_calls(ctx, tainted, fn.module, cls, alt):
                    fresh += 1
                    continue
                names = set(A.names_in(alt)) | {a.split(".")[0] for a in A.attrs_in(alt)}
                txt = norm(alt)
                supplied = bool(names & params) or target in txt or (target.split(".")[-1].lstrip("_") in txt and "self" in names and txt != target and False)
                # value read back from the object's own state that was itself supplied (e.g. self.padding)
                if not supplied and "self" in names and any(a.startswith("self.") for a in A.attrs_in(alt)):
                    supplied = True
                if not supplied:
                    stale.append(txt)
        if fresh == 0:
            ctx.chk.bad("C17.fresh-default", construct, "; ".join(norm(d) for d in defs)[:200],
                        "the not-supplied alternative must contain a per-call RNG draw (spsdk.crypto.rng / secrets)", A.loc(rp, fn.node))
        elif stale:
            ctx.chk.bad("C17.fresh-default", construct, f"alternative without RNG and without a supplied value: {stale[0][:120]}",
                        "every alternative is either the supplied value or a fresh RNG draw", A.loc(rp, fn.node))
        else:
            ctx.chk.ok("C17.fresh-default", construct, f"{len(defs)} store(s); {fresh} alternative(s) draw from the RNG per call; the others pass a supplied value through")
    ctx.chk.floor("C17.fresh-default", len(SECRETS))
    for rp, cn, mn in FRESH_RETURNS:
        fn = ctx.own(rp, cn, mn)
        rets = A.returns_in(fn.node)
        ok = bool(rets) and all(r.value is not None and t_calls(ctx, tainted, fn.module, fn.cls, r.value) for r in rets)
        ctx.chk.decide(ok, "C17.fresh-return", fn.qual, "every return is an RNG draw", "; ".join(norm(r) for r in rets), "return random_bytes(...)", A.loc(rp, fn.node))
    # OTFAD zero-fill filler: when no filler was supplied the exported blob appends an RNG draw
    fn = ctx.own("spsdk/utils/crypto/otfad.py", "KeyBlob", "plain_data")
    ifs = [n for n in A.walk_no_nested(fn.node) if isinstance(n, ast.If) and norm(n.test) in ("self.zero_fill", "self.zero_fill is not None")]
    if len(ifs) != 1:
        raise AnalysisError("C17.fresh-default: OTFAD zero_fill branch not found")
    ok = bool(t_calls(ctx, tainted, fn.module, fn.cls, ast.Module(body=ifs[0].orelse, type_ignores=[])))
    ctx.chk.decide(ok, "C17.fresh-default", f"{fn.qual} -> zero_fill filler", "else-branch of `if self.zero_fill` appends an RNG draw",
                   "; ".join(norm(s) for s in ifs[0].orelse), "result += random_bytes(4)", A.loc(fn.module.relpath, ifs[0]))
    # load_hex_string: `not source` returns an RNG draw
    fn = ctx.func("spsdk/utils/misc.py", "load_hex_string")
    ifs = [n for n in A.body_of(fn.node) if isinstance(n, ast.If) and norm(n.test) in ("not source", "source is None")]
    ok = bool(ifs) and any(isinstance(s, ast.Return) and s.value is not None and t_calls(ctx, tainted, fn.module, None, s.value) for s in ifs[0].body)
    ctx.chk.decide(ok, "C17.fresh-default", f"{fn.qual} -> filler", "`if not source` returns an RNG draw", norm(ifs[0])[:120] if ifs else "branch missing", "return random_bytes(expected_size)", A.loc(fn.module.relpath, fn.node))


def rule_hab_dek(ctx, tainted) -> None:
    """C17.hab-dek: unless the user asked to re-use an existing DEK, the HAB DEK is an RNG draw (never read back from a file).
    Decided on the symbolic paths of the function: every path that returns a key without the re-use request being set returns a
    value whose outermost call is an RNG draw."""
    from ..engines import ordereval
    rp = "spsdk/image/hab/segments.py"
    fn = ctx.own(rp, "CsfHabSegment", "get_dek_from_config")

    def reuse_requested(q) -> Optional[bool]:
        """Truth of 'the configuration asks for DEK re-use' on path q (None: the path does not depend on it)."""
        for text, pol in q.conds:
            if "ReuseDek" not in text:
                continue
            vals = []
            for setting in (1, 0):
                def cv(c: ast.Call, ev, setting=setting):
                    if isinstance(c.func, ast.Attribute) and c.func.attr == "get" and c.args and "ReuseDek" in norm(c.args[0]):
                        return setting
                    return ordereval.NOT_MODELLED
                try:
                    vals.append(bool(ordereval.Evaluator({}, None, call_value=cv).ev(ast.parse(text, mode="eval").body)))
                except ordereval.Unsupported:
                    vals = []  # mentions the setting but is not a test OF the setting (e.g. a file look-up parametrised by it)
                    break
            if len(vals) != 2 or vals[0] == vals[1]:
                continue
            return vals[0] == pol
        return None
    paths = [q for q in A.spaths(fn.node) if q.end == "return" and q.value is not None and not (isinstance(q.value, ast.Constant) and q.value.value is None)]
    have_reuse = any(reuse_requested(q) is True for q in paths)
    bad, fresh = [], 0
    for q in paths:
        if reuse_requested(q) is True:
            continue
        v = q.value
        if isinstance(v, ast.Call) and v in t_calls(ctx, tainted, fn.module, fn.cls, v):
            fresh += 1
        else:
            bad.append(q.vtext[:100])
    if not bad and not have_reuse:
        raise AnalysisError("C17.hab-dek: the reuse_dek decision was not found")
    ctx.chk.decide(not bad and fresh > 0, "C17.hab-dek", fn.qual + " (reuse not requested)", f"every key returned without a re-use request is an RNG draw ({fresh} path(s))",
                   f"a DEK that is not freshly drawn is returned although re-use was not requested: {bad[0] if bad else 'no RNG draw found'}", "random_bytes(key_length)", A.loc(rp, fn.node))


def rule_config_redraws(ctx, tainted) -> None:
    """C17.config-redraws: a class whose self-chosen secret is stored through a drawing setter (table row kind "setter") and that can be
    configured again (`mix_load_from_config` / `load_from_config` as an instance method) stores the secret on EVERY completing path of
    that method: a path that leaves it untouched keeps the secret of the previous configuration for the next image (same key, same
    counter IV, different data)."""
    n = 0
    for rp, cn, attr, kind, _store in SECRETS:
        if kind != "setter":
            continue
        k = ctx.cls(rp, cn)
        for mname in ("mix_load_from_config", "load_from_config"):
            for f in k.methods.get(mname, []):
                if f.params()[:1] != ["self"]:
                    continue
                n += 1
                ctx.chk.analysed(f.qual)
                missing = None
                for q in A.gpaths(f.node):
                    if q.end not in ("fall", "return"):
                        continue
                    if not any(isinstance(st, (ast.Assign, ast.AnnAssign)) and any(norm(t) == f"self.{attr}" for t in (st.targets if isinstance(st, ast.Assign) else [st.target])) for st in q.stmts):
                        missing = q
                        break
                ctx.chk.decide(missing is None, "C17.config-redraws", f.qual, f"every completing path stores self.{attr} (supplied value or a fresh draw through the setter)",
                               f"a path ({' and '.join(('' if p_ else 'not ') + c for c, p_ in missing.conds) or 'unconditional'}) leaves self.{attr} as it was: a second configuration of the same object re-uses the previous secret" if missing is not None else "",
                               f"self.{attr} = <configured value or None>", A.loc(rp, f.node))
    ctx.chk.floor("C17.config-redraws", 1)


def rule_routing(ctx, tainted) -> None:
    """C17.routing: the freshly drawn values are the ones the image uses (constructor routing)."""
    rp = "spsdk/sbfile/sb2/images.py"
    # accessor properties return the private attribute they are named after
    for p in ("dek", "mac", "nonce", "padding"):
        fn = ctx.own(rp, "SBV2xAdvancedParams", p)
        r = A.returns_in(fn.node)
        ctx.chk.decide(len(r) == 1 and norm(r[0].value) == f"self._{p}", "C17.routing", fn.qual, f"property returns self._{p}", norm(r[0]) if r else "", f"return self._{p}", A.loc(rp, fn.node))
    for cn in ("BootImageV20", "BootImageV21"):
        fn = ctx.own(rp, cn, "__init__")
        # default is None and the None path constructs a fresh parameter object
        a = fn.node.args
        allp = a.posonlyargs + a.args + a.kwonlyargs
        dflt: Dict[str, ast.expr] = {}
        for arg, d in zip(a.args[len(a.args) - len(a.defaults):], a.defaults):
            dflt[arg.arg] = d
        for arg, d in zip(a.kwonlyargs, a.kw_defaults):
            if d is not None:
                dflt[arg.arg] = d
        if "advanced_params" not in dflt:
            raise AnalysisError(f"C17.routing: {fn.qual} has no advanced_params default")
        fresh_ctor = False
        for st in A.body_of(fn.node):
            if isinstance(st, ast.If) and norm(st.test) in ("advanced_params is None", "not advanced_params"):
                for s in st.body:
                    if isinstance(s, ast.Assign) and norm(s.targets[0]) == "advanced_params" and t_calls(ctx, tainted, fn.module, fn.cls, s.value):
                        fresh_ctor = True
        ctx.chk.decide(isinstance(dflt["advanced_params"], ast.Constant) and dflt["advanced_params"].value is None and fresh_ctor, "C17.routing", f"{fn.qual} advanced_params",
                       "default is None and the None path builds a fresh SBV2xAdvancedParams()", f"default {norm(dflt['advanced_params'])}, fresh construction on None path: {fresh_ctor}",
                       "advanced_params=None; if advanced_params is None: advanced_params = SBV2xAdvancedParams()", A.loc(rp, fn.node))
        stores = {norm(s.targets[0]): norm(s.value) for s in A.walk_no_nested(fn.node) if isinstance(s, ast.Assign) and len(s.targets) == 1}
        ann = {norm(s.target): norm(s.value) for s in A.walk_no_nested(fn.node) if isinstance(s, ast.AnnAssign) and s.value is not None}
        stores.update(ann)
        ok = stores.get("self._dek") == "advanced_params.dek" and stores.get("self._mac") == "advanced_params.mac"
        hdr = [c for c in A.calls_in(fn.node, "ImageHeaderV2")]
        nonce_kw = norm(A.arg_of(hdr[0], None, "nonce")) if hdr and A.arg_of(hdr[0], None, "nonce") is not None else None
        ctx.chk.decide(ok and nonce_kw == "advanced_params.nonce", "C17.routing", f"{fn.qual} dek/mac/nonce",
                       "DEK, MAC and header nonce are taken from advanced_params", f"self._dek={stores.get('self._dek')} self._mac={stores.get('self._mac')} nonce={nonce_kw}",
                       "advanced_params.dek / .mac / .nonce", A.loc(rp, fn.node))


def rule_stable_getter(ctx, tainted, P: str = "C17") -> None:
    """{P}.stable-getter: a property never hands out an RNG draw directly - a value invented on first read is stored, so that every
    later read (the export reads it several times: once to encrypt, once to embed it) sees the same value."""
    prog = ctx.prog
    n = 0
    for fn in CG.all_functions(prog):
        if "property" not in fn.decorators and not any(d.endswith(".getter") for d in fn.decorators):
            continue
        n += 1
        for r in A.returns_in(fn.node):
            if r.value is not None and t_calls(ctx, tainted, fn.module, fn.cls, r.value):
                ctx.chk.bad(f"{P}.stable-getter", fn.qual, f"`{norm(r)}` returns a fresh random value on every read", "store the drawn value on the instance and return the stored value", A.loc(fn.module.relpath, r))
    ctx.chk.ok(f"{P}.stable-getter", "spsdk/** properties", f"{n} property getters scanned; none returns an RNG draw directly")
    if n < 300:
        raise AnalysisError(f"{P}.stable-getter: only {n} property getters found")


def run(ctx) -> None:
    ctx.chk.explain("C17: RNG-taint closure over the resolved call graph of the whole package; no RNG-reaching call in any import-time context "
                    "(module/class body, default argument, decorator); no RNG-derived value memoised or stored on class/module state; for the frozen table of "
                    "self-chosen secrets the not-supplied alternative of the stored value contains a per-call RNG draw; spsdk.crypto.rng delegates to `secrets`.")
    tainted = build_taint(ctx)
    ctx.rule(rule_source)
    ctx.rule(rule_import_time, tainted)
    ctx.rule(rule_no_shared_cache, tainted)
    ctx.rule(rule_fresh_default, tainted)
    ctx.rule(rule_hab_dek, tainted)
    ctx.rule(rule_config_redraws, tainted)
    ctx.rule(rule_routing, tainted)
    ctx.rule(rule_stable_getter, tainted)
    ctx.chk.assumptions = ["secrets/os.urandom are cryptographically strong and independent across calls and processes",
                           "call resolution is name/MRO based; unresolved calls are counted in evidence and not followed",
                           "not decided: statistical quality, secrets created outside the listed sites"]


MANIFEST = {
    "level": "Static dataflow over the whole package: every value the listed artifacts invent is shown to come from a per-call draw of the OS CSPRNG and no RNG-reaching call "
             "can be evaluated once per process (import-time contexts, memoisation, class/module storage). This decides the 'same process' and 'across restarts' quantifier "
             "structurally (a per-call CSPRNG draw cannot repeat by construction); it does not measure randomness.",
    "note": "Trusted: `secrets` is a CSPRNG; call resolution by names/imports/MRO (unresolved calls counted in evidence). Frozen table of 24 secret sites (floor).",
    "technique": "static analysis: RNG-taint closure on the resolved call graph + import-time-context and shared-state dataflow rules, config-redraws on guarded paths (a re-configurable object stores its secret on every path)",
}
