"""C12 Per-device configuration areas: the device database as source (E15 DataLint) + code clauses."""
from __future__ import annotations

import ast
import os
from typing import Any, Dict, List, Optional, Set, Tuple

from ..core import astutil as A
from ..core import regspec as RS
from ..core.devdb import DevDB
from ..core.loader import AnalysisError
from ..core.report import norm
from ..engines import bitprov, ordereval

PFR = "spsdk/pfr/pfr.py"
SEGB = "spsdk/image/segments_base.py"


def _specs(ctx, db: DevDB):
    cache: Dict[str, List[RS.SpecReg]] = {}
    areas = []
    for dev, rev, feat, area, d, kind in RS.iter_areas(db):
        name = d["reg_spec"]
        rp = RS.resolve_spec_path(db, dev, name)
        if rp is None:
            ctx.chk.bad("C12.spec-sanity", f"spsdk/data/devices/{dev}/database.yaml {feat}.{area} ({rev})", f"register specification file `{name}` does not exist", "reg_spec names an existing file", f"spsdk/data/devices/{dev}/database.yaml")
            continue
        if rp.endswith((".yaml", ".yml")):
            continue  # TrustZone presets are YAML lists (checked by C01 data rules)
        if rp not in cache:
            cache[rp] = RS.load_spec(db, rp)
        areas.append((dev, rev, feat, area, d, kind, rp))
    return cache, areas


def rule_spec_sanity(ctx, db: DevDB, cache, areas) -> None:
    chk = ctx.chk
    nregs = nbf = nenum = 0
    for rp, regs in sorted(cache.items()):
        for r in regs:
            nregs += 1
            if r.bits_used > r.width:
                chk.bad("C12.spec-sanity", f"{rp} register {r.uid or r.name}", f"bit-fields need {r.bits_used} bits but the register has {r.width}", "sum of bit-field widths <= register width", rp)
            if r.reset >= (1 << r.width):
                chk.bad("C12.spec-sanity", f"{rp} register {r.uid or r.name}", f"reset value {r.reset:#x} does not fit {r.width} bits", "", rp)
            for b in r.bitfields:
                nbf += 1
                if b["width"] and b["reset"] >= (1 << b["width"]):
                    chk.bad("C12.spec-sanity", f"{rp} bit-field {b['uid'] or b['name']}", f"reset value {b['reset']:#x} does not fit {b['width']} bits", "", rp)
                for v in b["values"]:
                    nenum += 1
                    iv = RS.to_int(v.get("value"))
                    if iv is not None and b["width"] and iv >= (1 << b["width"]):
                        chk.bad("C12.spec-sanity", f"{rp} bit-field {b['uid'] or b['name']} enum {v.get('name')}", f"enum value {iv} does not fit {b['width']} bits", "", rp)
    chk.ok("C12.spec-sanity", "register specifications", f"{len(cache)} spec files: {nregs} registers, {nbf} bit-fields, {nenum} enum values fit their widths")
    chk.extra["spec_files"] = len(cache)
    chk.extra["registers"] = nregs
    if len(cache) < 80 or nregs < 5000:
        raise AnalysisError(f"C12.spec-sanity: only {len(cache)} spec files / {nregs} registers found")
    # layout of memory-mapped areas
    seen: Set[Tuple[str, str]] = set()
    nlay = 0
    sizes = area_sizes(ctx)
    for dev, rev, feat, area, d, kind, rp in areas:
        if kind != "memory":
            continue
        key = (rp, area.split(".")[0] + str(d.get("size")))
        if key in seen:
            continue
        seen.add(key)
        nlay += 1
        regs = sorted(cache[rp], key=lambda r: (r.offset, r.width))
        for i, a in enumerate(regs):
            for b in regs[i + 1:]:
                if b.offset >= a.end:
                    break
                if a.offset == b.offset and a.width == b.width:
                    continue  # accepted alias idiom of add_register
                chk.bad("C12.spec-layout", f"{rp}", f"register {a.uid}@{a.offset:#x}/{a.width}b overlaps {b.uid}@{b.offset:#x}/{b.width}b", "registers of a memory-laid-out area do not overlap", rp)
        size = RS.to_int(d.get("size")) or sizes.get(area)
        ext = max((r.end for r in regs), default=0)
        if size and ext > size:
            chk.bad("C12.spec-layout", f"{rp} ({dev} {area})", f"registers extend to {ext:#x} but the area is {size:#x} bytes", "extent <= area size", rp)
        uids: Dict[str, int] = {}
        for r in regs:
            if r.uid:
                uids[r.uid] = uids.get(r.uid, 0) + 1
        for u, c in sorted(uids.items()):
            if c > 1:
                chk.bad("C12.spec-layout", f"{rp}", f"uid {u} is used by {c} registers", "register uids are unique", rp)
    chk.ok("C12.spec-layout", "memory-laid-out areas", f"{nlay} distinct (spec file, area) layouts checked for overlaps, extent and unique uids")
    chk.exhaustive_rules.update({"C12.spec-sanity", "C12.spec-layout"})


def area_sizes(ctx) -> Dict[str, int]:
    """BINARY_SIZE of the PFR/IFR area classes folded from code."""
    out = {}
    for cn, key in (("CMPA", "cmpa"), ("CFPA", "cfpa"), ("ROMCFG", "romcfg"), ("CMACTABLE", "cmactable")):
        c = ctx.cls(PFR, cn)
        fc = ctx.prog.find_const(c, "BINARY_SIZE")
        v = ctx.prog.fold(fc[1], fc[0].module, fc[0]) if fc else None
        if not isinstance(v, int):
            raise AnalysisError(f"C12: BINARY_SIZE of {cn} does not fold")
        out[key] = v
    return out


def rule_references(ctx, db: DevDB, cache, areas) -> None:
    chk, prog = ctx.chk, ctx.prog
    base = ctx.cls(PFR, "BaseConfigArea")
    sizes = area_sizes(ctx)
    n = 0
    for dev, rev, feat, area, d, kind, rp in areas:
        if feat not in ("pfr", "ifr"):
            continue
        regs = {r.uid: r for r in cache[rp] if r.uid}
        where = f"spsdk/data/devices/{dev}/database.yaml {feat}.{area} ({rev})"
        cname = {"cmpa": "CMPA", "cfpa": "CFPA", "romcfg": "ROMCFG", "cmactable": "CMACTABLE"}[area]
        cls = ctx.cls(PFR, cname)
        for reg_uid, fields in (d.get("computed_fields") or {}).items():
            n += 1
            if reg_uid not in regs:
                chk.bad("C12.references", where, f"computed_fields names register `{reg_uid}` which {rp} does not define", "existing register uid", rp)
                continue
            bf = {b["uid"] for b in regs[reg_uid].bitfields}
            for bf_uid, method in (fields or {}).items():
                if bf_uid not in bf:
                    chk.bad("C12.references", where, f"computed_fields names bit-field `{bf_uid}` which register {reg_uid} does not define", "existing bit-field uid", rp)
                if prog.find_method(cls, method) is None:
                    chk.bad("C12.references", where, f"compute method `{method}` is not a method of {cname}", "a method of the area class", PFR)
        ss = d.get("seal_start")
        if ss:
            n += 1
            sc = RS.to_int(d.get("seal_count")) or 0
            size = RS.to_int(d.get("size")) or sizes[area]
            if ss not in regs:
                chk.bad("C12.references", where, f"seal_start `{ss}` is not a register of {rp}", "existing register uid", rp)
            elif sc < 1 or regs[ss].offset + 4 * sc > size:
                chk.bad("C12.references", where, f"seal window [{regs[ss].offset:#x} : {regs[ss].offset + 4 * sc:#x}] leaves the {size:#x}-byte area (seal_count {sc})", "seal window inside the area", rp)
        for g in d.get("grouped_registers") or []:
            n += 1
            present = [regs[u] for u in g.get("sub_regs", []) if u in regs]
            absent = [u for u in g.get("sub_regs", []) if u not in regs]
            if absent:
                chk.report(f"C12.references (report only): {where} group {g.get('uid')} names registers the spec lacks: {absent[:4]}")
            ws = {r.width for r in present}
            if len(ws) > 1:
                chk.bad("C12.references", where, f"group {g.get('uid')} mixes sub-register widths {sorted(ws)}", "equal widths", rp)
            gw = RS.to_int(g.get("width")) or 0
            if gw and present and sum(r.width for r in present) > gw:
                chk.bad("C12.references", where, f"group {g.get('uid')}: sub-registers need {sum(r.width for r in present)} bits, declared width {gw}", "", rp)
    chk.ok("C12.references", "pfr/ifr references", f"{n} computed-field / seal / group references resolve against their specs and area classes")
    chk.exhaustive_rules.add("C12.references")
    if n < 150:
        raise AnalysisError(f"C12.references: only {n} references found")
    # sub-feature registry: every area name offered by a database has a class
    reg = prog.module_consts(ctx.m(PFR)).get("CONFIG_AREA_CLASSES")
    names = {prog.fold(k, ctx.m(PFR)) for k in reg.keys} if isinstance(reg, ast.Dict) else set()
    used = {area for _d, _r, feat, area, _dd, _k, _rp in areas if feat in ("pfr", "ifr")}
    chk.decide(used <= names, "C12.references", f"{PFR}::CONFIG_AREA_CLASSES", f"classes exist for all offered areas {sorted(used)}", f"missing {sorted(used - names)}", "", PFR)
    for cn, key in (("CMPA", "cmpa"), ("CFPA", "cfpa"), ("ROMCFG", "romcfg"), ("CMACTABLE", "cmactable")):
        c = ctx.cls(PFR, cn)
        v = prog.fold(c.consts.get("DB_SUB_FEATURE"), c.module, c)
        chk.decide(v == key, "C12.references", f"{PFR}::{cn}.DB_SUB_FEATURE", f"class reads the `{key}` sub-feature", f"{v}", key, A.loc(PFR, c.node))


def rule_computed(ctx) -> None:
    chk = ctx.chk
    f1 = ctx.own(PFR, "BaseConfigArea", "pfr_reg_inverse_high_half")
    f2 = ctx.own(PFR, "BaseConfigArea", "pfr_reg_inverse_lower_8_bits")

    def bits_of(fn):
        env = {"val": bitprov.var_bits("v", 32)}
        ret = None
        for st in A.body_of(fn.node):
            be = bitprov.BitEval(env)
            if isinstance(st, ast.Assign) and isinstance(st.targets[0], ast.Name):
                env[st.targets[0].id] = be.ev(st.value)
            elif isinstance(st, ast.AugAssign) and isinstance(st.target, ast.Name) and isinstance(st.op, ast.BitOr):
                env[st.target.id] = be.ev(ast.BinOp(left=st.target, op=ast.BitOr(), right=st.value))
            elif isinstance(st, ast.Return):
                ret = be.ev(st.value)
        return ret
    try:
        b1, b2 = bits_of(f1), bits_of(f2)
    except (bitprov.Top, bitprov.SymbolicShift) as e:
        raise AnalysisError(f"C12.computed-functions: outside the bit-provenance fragment: {e}")
    ok1 = b1 is not None and all(b1[i] == ("v", i, False) for i in range(16)) and all(b1[16 + i] == ("v", i, True) for i in range(16)) and all(b1[i] == 0 for i in range(32, bitprov.W))
    chk.decide(ok1, "C12.computed-functions", f1.qual, "keeps bits 0..15 and writes their complement into bits 16..31", f"{b1[:32] if b1 else None}", "bit 16+i = not bit i", A.loc(PFR, f1.node))
    ok2 = b2 is not None and all(b2[i] == ("v", i, False) for i in list(range(8)) + list(range(16, 32))) and all(b2[8 + i] == ("v", i, True) for i in range(8)) and all(b2[i] == 0 for i in range(32, bitprov.W))
    chk.decide(ok2, "C12.computed-functions", f2.qual, "keeps bits 0..7 and 16..31 and writes the complement of bits 0..7 into bits 8..15", f"{b2[:32] if b2 else None}", "bit 8+i = not bit i", A.loc(PFR, f2.node))
    cr = ctx.own(PFR, "BaseConfigArea", "compute_register")
    sv = [c for c in A.calls_in(cr.node, "set_value")]
    guard = [n for n in ast.walk(cr.node) if isinstance(n, ast.If) and "hasattr(self, method)" in norm(n.test) and (A.always_raises(n.body) or (n.orelse and A.always_raises(n.orelse)))]
    ok = bool(sv) and [norm(a) for a in sv[0].args] == ["method_ref(reg.get_value(True))", "True"] and len(guard) == 1
    chk.decide(ok, "C12.computed-functions", cr.qual, "register := method(raw value), stored raw; unknown method raises", norm(sv[0]) if sv else "", "reg.set_value(method_ref(reg.get_value(True)), True)", A.loc(PFR, cr.node))
    sc = ctx.own(PFR, "BaseConfigArea", "set_config")
    body = norm(sc.node)
    ok = "self.registers.load_yml_config(cfg)" in norm(A.body_of(sc.node)[0]) and "for reg_uid, bitfields_rec in self.computed_fields.items()" in body and "self.compute_register(reg, method)" in body
    chk.decide(ok, "C12.computed-functions", sc.qual, "computed fields are recomputed after the configuration is loaded", "", "", A.loc(PFR, sc.node))


def rule_seal_and_size(ctx) -> None:
    chk = ctx.chk
    ex = ctx.own(PFR, "BaseConfigArea", "export")
    base = ctx.cls(PFR, "BaseConfigArea")
    mark = ctx.prog.fold(base.consts.get("MARK"), base.module, base)
    st = [n for n in ast.walk(ex.node) if isinstance(n, ast.Assign) and isinstance(n.targets[0], ast.Subscript) and isinstance(n.targets[0].slice, ast.Slice)]
    ok = False
    detail = ""
    if st:
        sl = st[0].targets[0].slice
        detail = f"data[{norm(sl.lower)} : {norm(sl.upper)}] = {norm(st[0].value)}"
        ok = norm(sl.lower) == "seal_start" and norm(sl.upper) in ("seal_start + seal_count * 4", "seal_start + 4 * seal_count") and norm(st[0].value) in ("self.MARK * seal_count", "seal_count * self.MARK") \
            and isinstance(mark, bytes) and len(mark) == 4
    chk.decide(ok, "C12.seal-window", ex.qual, f"seal marker ({mark!r}, 4 bytes) fills exactly the window it is written to: {detail}", detail, "data[seal_start : seal_start + 4*seal_count] = MARK * seal_count", A.loc(PFR, ex.node))
    guard = [s for s in A.body_of(ex.node) if isinstance(s, ast.If) and A.always_raises(s.body) and norm(s.test) == "len(data) != self.BINARY_SIZE"]
    last = A.body_of(ex.node)[-1]
    chk.decide(bool(guard) and isinstance(last, ast.Return) and guard[0].lineno < last.lineno, "C12.fixed-size", ex.qual, "the exported binary is rejected unless it has BINARY_SIZE bytes", "", "if len(data) != self.BINARY_SIZE: raise", A.loc(PFR, ex.node))
    ii = [c for c in A.calls_in(ex.node, "image_info")]
    kw = {k.arg: norm(k.value) for k in ii[0].keywords} if ii else {}
    chk.decide(kw.get("size") == "self.BINARY_SIZE" and kw.get("pattern") == "BinaryPattern(self.IMAGE_PREFILL_PATTERN)", "C12.fixed-size", ex.qual + " image", "image is laid out in BINARY_SIZE bytes with the area's fill pattern", f"{kw}", "", A.loc(PFR, ex.node))
    # ROTKH is written before the image is taken
    rk = [c for c in A.calls_in(ex.node, "set_value") if "rotkh" in norm(c.func.value)]
    chk.decide(bool(rk) and bool(ii) and rk[0].lineno < ii[0].lineno and [norm(a) for a in rk[0].args] == ["rotkh_data", "False"], "C12.rotkh-order", ex.qual, "ROTKH is stored (processed form) before the image is exported", norm(rk[0]) if rk else "", "", A.loc(PFR, ex.node))
    pa = ctx.own(PFR, "BaseConfigArea", "parse")
    chk.decide([norm(s) for s in A.body_of(pa.node)] == ["self.registers.parse(data)"], "C12.segment-base", pa.qual, "parse delegates to the register file", "", "", A.loc(PFR, pa.node))
    # seal getters read the same database keys the lint checks
    for mn, key in (("_get_seal_start_address", "seal_start"), ("_get_seal_count", "seal_count")):
        f = ctx.own(PFR, "BaseConfigArea", mn)
        chk.decide(f"[self.DB_SUB_FEATURE, '{key}']" in norm(f.node), "C12.seal-window", f.qual, f"reads database key `{key}` of its own sub-feature", "", "", A.loc(PFR, f.node))
    f = ctx.own(PFR, "BaseConfigArea", "_get_seal_start_address")
    r = A.returns_in(f.node)
    chk.decide(bool(r) and norm(r[-1].value) == "self.registers.get_reg(start).offset", "C12.seal-window", f.qual + " offset", "seal start is the offset of the named register", norm(r[-1]) if r else "", "", A.loc(PFR, f.node))


def rule_segment_base(ctx) -> None:
    chk = ctx.chk
    if not ctx.repo.exists(SEGB):
        raise AnalysisError(f"{SEGB} missing")
    cls = ctx.cls(SEGB, "SegmentBase")
    ex = ctx.prog.find_method(cls, "export")
    rex = A.returns_in(ex.node) if ex else []
    chk.decide(bool(rex) and norm(rex[-1].value) in ("self.registers.export()", "self.registers.image_info().export()"), "C12.segment-base", f"{SEGB}::SegmentBase.export", "export is the register file's export", norm(rex[-1]) if rex else "", "", SEGB)
    # concrete register-backed segments parse through the register file
    n = 0
    for k in ctx.prog.subclasses(cls):
        pa = k.method("parse")
        if pa is None:
            continue
        n += 1
        body = norm(pa.node)
        delegates = "registers.parse(" in body or any(isinstance(c.func, ast.Attribute) and c.func.attr == "parse" and norm(c.func.value) not in ("super()", "cls") for c in A.calls_in(pa.node))
        chk.decide(delegates, "C12.segment-base", f"{k.qual}.parse", "parse feeds the binary into the register file", "parse does not reach registers.parse", "", A.loc(k.module.relpath, pa.node))
    if n < 3:
        raise AnalysisError(f"C12.segment-base: only {n} register-backed segment parsers found")


AREA_MODULES = ["spsdk/pfr/pfr.py", "spsdk/image/bca/bca.py", "spsdk/image/fcf/fcf.py", "spsdk/image/fcb/fcb.py", "spsdk/image/xmcd/xmcd.py", "spsdk/image/trustzone.py",
                "spsdk/fuses/fuses.py", "spsdk/fuses/fuse_registers.py", "spsdk/memcfg/memcfg.py", "spsdk/image/segments_base.py", "spsdk/utils/registers.py"]
MUTATORS = {"load_from_config", "load_yml_config", "load_config", "parse", "set_value", "set_config", "load_spec", "reset_value"}


def rule_revision_flow(ctx) -> None:
    """C12.revision-flow: an area built for (family, revision) hands the revision to every callee that takes one."""
    from ..engines import paramflow
    n = paramflow.check(ctx, "C12.revision-flow", AREA_MODULES)
    ctx.chk.floor("C12.revision-flow", 50)
    if n < 50:
        raise AnalysisError(f"C12.revision-flow: only {n} revision-accepting call sites resolved in the area modules (expected >= 50)")


def _root(e: ast.AST):
    while isinstance(e, (ast.Attribute, ast.Call, ast.Subscript)):
        e = e.func if isinstance(e, ast.Call) else e.value
    return e.id if isinstance(e, ast.Name) else None


def rule_fresh_derived(ctx) -> None:
    """C12.fresh-derived: a local computed from an object's state by a method call is not used after that object was re-loaded in between."""
    from ..core import callgraph as CG
    chk = ctx.chk
    n = 0
    for fn in CG.all_functions(ctx.prog):
        if fn.module.relpath not in AREA_MODULES:
            continue
        body = list(A.walk_no_nested(fn.node))
        for st in body:
            if not (isinstance(st, ast.Assign) and len(st.targets) == 1 and isinstance(st.targets[0], ast.Name)):
                continue
            v = st.targets[0].id
            roots = {_root(c.func) for c in ast.walk(st.value) if isinstance(c, ast.Call) and isinstance(c.func, ast.Attribute)} - {None, "self", "cls"}
            if not roots:
                continue
            uses = [u.lineno for u in body if isinstance(u, ast.Name) and u.id == v and isinstance(u.ctx, ast.Load) and u.lineno > st.lineno]
            if not uses:
                continue
            n += 1
            last = max(uses)
            for m in body:
                if isinstance(m, ast.Expr) and isinstance(m.value, ast.Call) and isinstance(m.value.func, ast.Attribute) and m.value.func.attr in MUTATORS and st.lineno < m.lineno < last:
                    r = _root(m.value.func)
                    if r not in roots or r == v or any(isinstance(x, ast.Name) and x.id == v for x in ast.walk(m.value)):
                        continue
                    chk.bad("C12.fresh-derived", fn.qual, f"`{norm(st)[:80]}` is computed before `{norm(m)[:70]}` changes `{r}` and is used afterwards (stale value)",
                            "compute the derived value after the object is loaded", A.loc(fn.module.relpath, st))
    chk.ok("C12.fresh-derived", "area modules", f"{n} locals derived from object state by a method call; none is used across a re-load of that object")
    if n < 60:
        raise AnalysisError(f"C12.fresh-derived: only {n} candidates analysed (expected >= 60)")
    # embedded positive example
    t = ast.parse("def f(cfg):\n    x = K()\n    size = len(x.registers.image_info())\n    x.block.load_from_config(cfg)\n    if x.size != size:\n        pass\n")
    fnode = t.body[0]
    st = fnode.body[1]
    if not ({_root(c.func) for c in ast.walk(st.value) if isinstance(c, ast.Call) and isinstance(c.func, ast.Attribute)} == {"x"} and fnode.body[2].value.func.attr in MUTATORS):
        raise AnalysisError("C12.fresh-derived: embedded positive example no longer matches")



def rule_template_yaml(ctx, db) -> None:
    """C12.template-yaml: the template dumper never folds a mapping key (a plain key folded over two lines is not valid YAML)."""
    import yaml as _yaml
    chk, prog = ctx.chk, ctx.prog
    SV = "spsdk/utils/schema_validator.py"
    f = ctx.own(SV, "CommentedConfig", "convert_cm_to_yaml")
    w = [s.value for s in A.walk_no_nested(f.node) if isinstance(s, ast.Assign) and isinstance(s.targets[0], ast.Attribute) and s.targets[0].attr == "width"]
    width = prog.fold(w[0], f.module) if len(w) == 1 else 80  # ruamel's default best_width
    dumps = [c for c in A.calls_in(f.node, "dump")]
    order_ok = bool(dumps) and (not w or w[0].lineno < dumps[0].lineno)
    # longest key the database can put into a template: TrustZone preset names (indented by one level)
    longest, where, n = 0, "", 0
    seen = set()
    for dev, rev, tz in db.iter_features("tz"):
        rs = tz.get("reg_spec")
        if not rs:
            continue
        rp = db.data_file(dev, rs) or db.data_file(dev, os.path.basename(rs))
        if rp is None:
            cand = f"spsdk/data/{rs}" if not rs.startswith("spsdk/") else rs
            rp = cand if ctx.repo.exists(cand) else None
        if rp is None or rp in seen:
            continue
        seen.add(rp)
        try:
            data = _yaml.load(ctx.repo.read(rp), Loader=getattr(_yaml, "CSafeLoader", _yaml.SafeLoader)) if rp.endswith((".yaml", ".yml")) else db.load_json(rp)
        except Exception as e:  # noqa
            raise AnalysisError(f"C12.template-yaml: cannot read {rp}: {e}")
        for k in (data or {}):
            n += 1
            if len(str(k)) > longest:
                longest, where = len(str(k)), f"{rp}: {k}"
    if n == 0:
        raise AnalysisError("C12.template-yaml: no TrustZone preset names found in the database")
    need = longest + 2 + 2  # indentation + ': '
    chk.decide(isinstance(width, int) and width > need and order_ok, "C12.template-yaml", f.qual, f"dump width {width} exceeds the longest template key ({longest} characters: {where[:90]}) of {n} preset names in {len(seen)} files",
               f"dump width {width} (set before dump: {order_ok}) but the longest key needs {need} columns ({where[:110]}): ruamel folds the key over two lines and the template no longer loads", "yaml.width larger than any key", A.loc(SV, f.node))


def run(ctx) -> None:
    ctx.chk.explain("C12: every register specification referenced by any (device, revision, feature, sub-feature/memory type) of the database is loaded as data and linted: bit-fields "
                    "fit registers, resets and enum values fit their widths, memory-laid-out areas have no overlapping registers, fit their declared/class size and have unique uids; "
                    "computed-field, seal and group references resolve against spec and area class; the two computed-field functions are proved by bit provenance; seal window, "
                    "fixed size guard and ROTKH ordering of BaseConfigArea.export are checked. Exhaustive over the database (a finite, static quantifier).")
    db = DevDB(ctx.repo)
    cache, areas = _specs(ctx, db)
    ctx.chk.units.update({rp: "data" for rp in cache})
    ctx.chk.extra["areas"] = len(areas)
    ctx.rule(rule_spec_sanity, db, cache, areas)
    ctx.rule(rule_references, db, cache, areas)
    ctx.rule(rule_computed)
    ctx.rule(rule_seal_and_size)
    ctx.rule(rule_segment_base)
    ctx.rule(rule_revision_flow)
    ctx.rule(rule_fresh_derived)
    ctx.rule(rule_template_yaml, db)
    from . import c03
    ctx.rule(c03.rule_rotkh_value, "C12.rotkh-value")
    # the configuration writer/reader pair of every register-backed area (shared with C11): what get_config writes loads back
    from . import c11
    ctx.borrow(c11.rule_config, "C11.config-keys", "C12.config-keys")
    ctx.chk.assumptions = ["hardware layouts are as the specs state (3 IFR spec files with overlapping registers are known findings)", "register arithmetic itself is decided in C11",
                           "not decided: schema validity of generated templates, parse(export) identity at value level, verifier acceptance"]


MANIFEST = {
    "level": "Exhaustive static lint of the device database (all ~1100 device x revision x area combinations, 98 spec files, ~9600 registers) against the code model, plus structural "
             "decision of the computed-field functions (bit provenance), the seal window and the fixed-size guard. Value-level round trips are not decided here (per-operation "
             "register contracts are in C11).",
    "note": "Trusted: PyYAML/json parsing, the merge model in sa/core/devdb.py (mirrors Device.load). Known findings: overlapping/duplicate registers in three IFR spec files.",
    "technique": "static analysis: data lint of YAML/JSON device database against the AST-derived code model, bit provenance, slice-window rules",
}
