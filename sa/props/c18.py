"""C18 Database cache: crash points and concurrent starts (E9 ExcCover / LockDisc)."""
from __future__ import annotations

import ast
import builtins
import pickle
from typing import Dict, List, Optional, Set, Tuple

from ..core import astutil as A
from ..core.loader import AnalysisError
from ..core.report import norm
from ..core.symtab import ClassInfo

DB = "spsdk/utils/database.py"

# what unpickling an empty / truncated / foreign file can raise (Python docs, pickle module: "other exceptions
# may also be raised during unpickling, including (but not necessarily limited to) AttributeError, EOFError,
# ImportError, and IndexError") + opening a file that a concurrent process just removed + lock timeout
UNPICKLE_FAILURES = ["EOFError", "pickle.UnpicklingError", "AttributeError", "ImportError", "IndexError",
                     "KeyError", "ValueError", "TypeError"]
OPEN_FAILURES = ["FileNotFoundError", "PermissionError"]
LOCK_FAILURES = ["TimeoutError"]  # filelock.Timeout derives from TimeoutError


def _exc_class(prog, mod, e: ast.expr):
    """Resolve an exception expression to a Python class (builtin / pickle) or a project ClassInfo chain root."""
    d = A.dotted(e)
    if d is None:
        return None
    if hasattr(builtins, d) and isinstance(getattr(builtins, d), type):
        return getattr(builtins, d)
    if d.startswith("pickle.") and hasattr(pickle, d.split(".", 1)[1]):
        return getattr(pickle, d.split(".", 1)[1])
    k = prog.resolve_expr_class(mod, e)
    if isinstance(k, ClassInfo):
        # project exception: find the first builtin base through the MRO
        for c in prog.mro(k):
            for b in c.node.bases:
                bd = A.dotted(b)
                if bd and hasattr(builtins, bd):
                    # model as a fresh subclass of that builtin, named after the project class
                    return type(k.name, (getattr(builtins, bd),), {})
        return type(k.name, (Exception,), {})
    return None


def _by_name(name: str):
    if name.startswith("pickle."):
        return getattr(pickle, name.split(".", 1)[1])
    return getattr(builtins, name)


def handler_classes(prog, mod, h: ast.ExceptHandler) -> Optional[list]:
    if h.type is None:
        return [BaseException]
    items = h.type.elts if isinstance(h.type, ast.Tuple) else [h.type]
    out = []
    for it in items:
        c = _exc_class(prog, mod, it)
        if c is None:
            return None
        out.append(c)
    return out


def covers(classes: list, exc) -> bool:
    return any(issubclass(exc, c) for c in classes)


def enclosing_try(node: ast.AST, fn: ast.AST) -> Optional[ast.Try]:
    """Nearest Try whose *body* (not handlers/else/finally) contains node."""
    child = node
    for anc in A.ancestors(node):
        if isinstance(anc, ast.Try):
            if any(child is s or child in ast.walk(s) for s in anc.body):
                return anc
        if anc is fn:
            break
        child = anc
    return None


def suppressed_by(node: ast.AST, prog, mod, need: str) -> bool:
    """node sits in `with contextlib.suppress(X)` with X covering `need`."""
    for anc in A.ancestors(node):
        if isinstance(anc, ast.With):
            for it in anc.items:
                c = it.context_expr
                if isinstance(c, ast.Call) and A.call_name(c) == "suppress":
                    cls = [_exc_class(prog, mod, a) for a in c.args]
                    if all(cls) and covers(cls, _by_name(need)):
                        return True
    return False


def in_lock(node: ast.AST, name_txt: str) -> Optional[str]:
    """Returns the lock expression text if node is inside `with FileLock(<name> + '.lock')`."""
    for anc in A.ancestors(node):
        if isinstance(anc, ast.With):
            for it in anc.items:
                c = it.context_expr
                if isinstance(c, ast.Call) and A.call_name(c) == "FileLock" and c.args:
                    return norm(c.args[0])
    return None


def _cache_functions(ctx):
    """Functions of database.py that touch cache files (pickle / FileLock / cache file names)."""
    prog = ctx.prog
    m = ctx.m(DB)
    out = []
    for n in ast.walk(m.tree):
        if isinstance(n, (ast.FunctionDef, ast.AsyncFunctionDef)):
            txt_calls = [A.dotted(c.func) or "" for c in A.calls_in(n)]
            if any(t in ("pickle.load", "pickle.dump", "FileLock", "pickle.loads") for t in txt_calls):
                out.append(n)
    return m, out


def run(ctx) -> None:
    ctx.chk.explain("C18: for every pickle.load on a cache file the enclosing handler covers the documented failure set of unpickling a truncated/empty/foreign "
                    "file plus everything the try body itself raises (builtin exception hierarchy), does not re-raise, resets the unpickled variable before any later use, "
                    "validates type and fingerprint before trusting it; all cache file I/O sits under the file's FileLock with one lock-name convention; removals are "
                    "race tolerant; writers cannot be fatal; the disabled switch returns before any cache I/O.")
    ctx.rule(rule_loads)
    ctx.rule(rule_lock)
    ctx.rule(rule_replace)
    ctx.rule(rule_writers)
    ctx.rule(rule_switch)
    ctx.rule(rule_fingerprint)
    ctx.rule(rule_quick_info_twin)
    ctx.rule(rule_deterministic_content)
    ctx.rule(rule_trust_decision)
    ctx.chk.assumptions = ["pickle's documented failure set; filelock.Timeout is a TimeoutError (OSError); FileLock gives mutual exclusion between processes",
                           "not decided: equality of cached and uncached answers (fingerprint completeness), N-process interleavings beyond lock discipline"]


_SET_ORDER_EXAMPLE = """
def build(a, b):
    merged = list(set(a + b))
    for x in {1, 2}:
        pass
    ok = sorted(set(a))
    return merged
"""


def _set_order_uses(fn_node: ast.AST) -> List[ast.AST]:
    """Places where the iteration order of a set becomes the order of data: list(<set>) / tuple(<set>) / "".join(<set>) /
    `for x in <set>` / a comprehension over a set - unless immediately given to sorted() / min / max / sum / len / any / all / set ops."""
    def is_set(e: ast.AST, env: Dict[str, bool]) -> bool:
        if isinstance(e, (ast.Set, ast.SetComp)):
            return True
        if isinstance(e, ast.Call) and isinstance(e.func, ast.Name) and e.func.id in ("set", "frozenset"):
            return True
        if isinstance(e, ast.Name):
            return env.get(e.id, False)
        if isinstance(e, ast.BinOp) and isinstance(e.op, (ast.BitOr, ast.BitAnd, ast.Sub, ast.BitXor)):
            return is_set(e.left, env) or is_set(e.right, env)
        return False
    env: Dict[str, bool] = {}
    for n in ast.walk(fn_node):
        if isinstance(n, ast.Assign) and len(n.targets) == 1 and isinstance(n.targets[0], ast.Name):
            env[n.targets[0].id] = env.get(n.targets[0].id, False) or is_set(n.value, {})
    out: List[ast.AST] = []
    for n in ast.walk(fn_node):
        if isinstance(n, ast.Call) and isinstance(n.func, ast.Name) and n.func.id in ("list", "tuple") and len(n.args) == 1 and is_set(n.args[0], env):
            out.append(n)
        elif isinstance(n, ast.Call) and isinstance(n.func, ast.Attribute) and n.func.attr == "join" and len(n.args) == 1 and is_set(n.args[0], env):
            out.append(n)
        elif isinstance(n, (ast.For, ast.AsyncFor)) and is_set(n.iter, env):
            out.append(n)
        elif isinstance(n, (ast.ListComp, ast.GeneratorExp, ast.DictComp)) and any(is_set(g.iter, env) for g in n.generators):
            par = A.parent(n)
            if isinstance(par, ast.Call) and isinstance(par.func, ast.Name) and par.func.id in ("sorted", "set", "frozenset", "min", "max", "sum", "any", "all", "len"):
                continue
            out.append(n)
    return out


def rule_deterministic_content(ctx) -> None:
    """C18.deterministic-content: what is put into the cache must not depend on the process that wrote it, otherwise a process that
    reads the cache answers differently from one that computes the answer itself.  Set iteration order over strings depends on the
    per-process hash seed: no function reachable from QuickDatabase.create (inside the database module) turns a set into ordered data."""
    from ..core import callgraph as CG
    pos = ast.parse(_SET_ORDER_EXAMPLE).body[0]
    for par_ in ast.walk(pos):
        for ch_ in ast.iter_child_nodes(par_):
            ch_._parent = par_  # type: ignore[attr-defined]
    if len(_set_order_uses(pos)) != 2:
        raise AnalysisError("C18.deterministic-content: the embedded positive example is no longer recognised")
    prog = ctx.prog
    root = ctx.own(DB, "QuickDatabase", "create")
    seen = {root.qual: root}
    work = [root]
    while work:
        f = work.pop()
        for c in A.calls_in(f.node):
            for t in CG.resolve_call(prog, f.module, f.cls, c) or []:
                if t.module.relpath == DB and t.qual not in seen:
                    seen[t.qual] = t
                    work.append(t)
            # ClassName(...) constructs: follow __init__
            if isinstance(c.func, ast.Name):
                k = prog.resolve(f.module, c.func.id)
                if isinstance(k, ClassInfo) and k.module.relpath == DB:
                    init = prog.find_method(k, "__init__")
                    if init is not None and init.qual not in seen:
                        seen[init.qual] = init
                        work.append(init)
    if len(seen) < 5:
        raise AnalysisError(f"C18.deterministic-content: only {len(seen)} functions reachable from QuickDatabase.create (expected the quick-info builders)")
    for q, f in sorted(seen.items()):
        ctx.chk.analysed(q)
        uses = _set_order_uses(f.node)
        ctx.chk.decide(not uses, "C18.deterministic-content", q, "no set is turned into ordered data while the cached object is built",
                       f"the order of {norm(uses[0])[:110] if uses else ''} depends on the writer's hash seed: the cached answer differs from the one a process computes itself",
                       "sorted(...) or an order preserving de-duplication (dict.fromkeys)", A.loc(DB, uses[0] if uses else f.node))
    ctx.chk.floor("C18.deterministic-content", 5)


def rule_trust_decision(ctx) -> None:
    """C18.trust-decision: both cache readers evaluated as whole functions on a model (file system, lock, pickle and the fingerprint
    function are leaves): a cached object is used exactly when its stored fingerprint equals the current one; a stale one is dropped,
    the answer is computed from the database and carries the CURRENT fingerprint.  (The crash states - load raising - are the
    exc-cover / fallback / no-trust rules; the evaluator does not model exceptions entering handlers.)"""
    from ..engines import ordereval as oe
    Obj = oe.Obj

    def leaves(log, cached, cur_hash):
        def cv(c: ast.Call, ev):
            f = norm(c.func)
            if f == "isinstance" and len(c.args) == 2:
                return True
            if f == "type" and len(c.args) == 1:
                return "T"
            if f.endswith("get_restricted_data"):
                return "R"
            if f.endswith("get_quick_info_hash") or f.endswith("hash_db_data"):
                log.append("hash")
                return cur_hash
            if f == "get_spsdk_cache_dirname":
                return "/c"
            if f.endswith("_get_quick_info_db_path") or f.endswith("get_cache_filename"):
                return "/c/file.cache"
            if f == "os.path.exists":
                return True
            if f == "os.path.join":
                return "/".join(str(ev.ev(a_)) for a_ in c.args)
            if f in ("FileLock", "contextlib.suppress"):
                return Obj(_ctx=1)
            if f == "open":
                return Obj(_file=1)
            if f == "pickle.load":
                log.append("load")
                return cached
            if f.endswith("get_db"):
                return Obj(_db=1)
            if f == "QuickDatabase.create":
                return Obj(_kind="fresh", db_hash=None)
            if f == "load_configuration":
                return "FRESH-DEFAULTS"
            if f in ("os.makedirs", "os.remove"):
                log.append(f)
                return None
            if f == "pickle.dump":
                log.append(("dump", ev.ev(c.args[0])))
                return None
            if f.endswith("clear_cache"):
                return None
            if isinstance(c.func, ast.Attribute) and c.func.attr == "keys" and not c.args:
                return ("k",)
            return oe.NOT_MODELLED
        return cv
    # 1. quick-info database
    fn = ctx.own(DB, "DatabaseManager", "_get_quick_info_db")
    probs = []
    for stored, fresh_expected in ((b"H", False), (b"X", True), (b"", True)):
        cached = Obj(_kind="cached", db_hash=stored)
        log: list = []
        try:
            out = oe.Evaluator({"cls": Obj(_k=1), "SPSDK_CACHE_DISABLED": False}, ctx.fold_sym(fn), opaque_return=False, call_value=leaves(log, cached, b"H")).run(A.body_of(fn.node))
        except oe.Unsupported as ex:
            raise AnalysisError(f"C18.trust-decision: {fn.qual} left the fragment: {ex}")
        kind = getattr(out.value, "_kind", None) if out.kind == "return" else out.kind
        if fresh_expected:
            if kind != "fresh" or getattr(out.value, "db_hash", None) != b"H":
                probs.append(f"stored fingerprint {stored!r} != current b'H': answer is {kind} with fingerprint {getattr(out.value, 'db_hash', None)!r}")
            elif not any(isinstance(x, tuple) and x[0] == "dump" and x[1] is out.value for x in log):
                probs.append(f"stored fingerprint {stored!r}: the stale cache is not replaced")
        elif kind != "cached":
            probs.append(f"stored fingerprint equals the current one: answer is {kind} (cache never used)")
    ctx.chk.exhaustive_rules.add("C18.trust-decision")
    ctx.chk.decide(not probs, "C18.trust-decision", fn.qual, "cached quick-info object used exactly when its fingerprint is current; otherwise recomputed, stamped with the current fingerprint and written back (3 models)",
                   "; ".join(probs[:2]), "if db_hash == loaded_db.db_hash: return loaded_db", A.loc(DB, fn.node))
    # 2. per-database data cache
    init_node = None
    for k in ast.walk(ctx.m(DB).tree):
        if isinstance(k, ast.ClassDef) and k.name == "DatabaseData":
            for st in k.body:
                if isinstance(st, ast.FunctionDef) and st.name == "__init__":
                    init_node = st
    if init_node is None:
        raise AnalysisError("C18.trust-decision: DatabaseData.__init__ not found")
    init_qual = f"{DB}::Database.DatabaseData.__init__"
    ctx.chk.analysed(init_qual)
    probs = []
    for stored, trusted in ((b"H", True), (b"X", False)):
        cached = Obj(_kind="cached", db_hash=stored, cfg_cache={"k": "CACHED-CFG"}, defaults="CACHED-DEFAULTS")
        me = Obj()
        log = []
        env = {"self": me, "path": "/data", "restricted_data_path": None, "addons_data_path": None, "complete_load": False, "SPSDK_CACHE_DISABLED": False}
        try:
            out = oe.Evaluator(env, ctx.fold_sym(fn), opaque_return=False, call_value=leaves(log, cached, b"H")).run(A.body_of(init_node))
        except oe.Unsupported as ex:
            raise AnalysisError(f"C18.trust-decision: {init_qual} left the fragment: {ex}")
        got = (me.__dict__.get("cfg_cache"), me.__dict__.get("defaults"), me.__dict__.get("db_hash"))
        want = ({"k": "CACHED-CFG"}, "CACHED-DEFAULTS", b"H") if trusted else ({}, "FRESH-DEFAULTS", b"")
        if out.kind == "raise" or got != want:
            probs.append(f"stored fingerprint {stored!r}, current b'H': (cfg_cache, defaults, db_hash) = {got} expected {want}")
        if not trusted and "os.remove" not in log:
            probs.append(f"stored fingerprint {stored!r}: the stale cache file is not removed")
    ctx.chk.decide(not probs, "C18.trust-decision", init_qual, "cached configuration data used exactly when its fingerprint is current; a stale cache is dropped and removed (2 models)",
                   "; ".join(probs[:2])[:500], "if db_hash != loaded_db_data.db_hash: loaded_db_data = None", A.loc(DB, init_node))


def rule_fingerprint(ctx) -> None:
    """The quick-info fingerprint evaluated on model file systems (os.* and the hash object are modelled, the function's own code is
    evaluated): it must change when the (mtime, size) of any devices/<name>/database.yaml or of common/database_defaults.yaml
    changes, when a device folder is added or removed, and it must not change when nothing changed."""
    from ..engines import ordereval as oe
    Obj = oe.Obj
    fn = ctx.own(DB, "DatabaseManager", "get_quick_info_hash")

    def run_on(fs: dict, fn=fn, env=None):
        """fs: {path: (mtime, size)} for files, {dir: None} for directories"""
        def cv(c: ast.Call, ev):
            f = norm(c.func)
            if f == "os.path.join":
                return "/".join(str(ev.ev(a)) for a in c.args)
            if f == "os.path.exists" and len(c.args) == 1:
                return ev.ev(c.args[0]) in fs
            if f == "os.path.isdir" and len(c.args) == 1:
                p_ = ev.ev(c.args[0])
                return p_ in fs and fs[p_] is None
            if f == "os.path.isfile" and len(c.args) == 1:
                p_ = ev.ev(c.args[0])
                return p_ in fs and fs[p_] is not None
            if f in ("os.listdir", "os.scandir", "sorted") and len(c.args) == 1 and f != "sorted":
                d = ev.ev(c.args[0])
                names = sorted({k[len(d) + 1:].split("/")[0] for k in fs if k.startswith(d + "/")})
                if f == "os.listdir":
                    return tuple(names)
                return tuple(Obj(name=n_, path=f"{d}/{n_}") for n_ in names)
            if f == "os.stat" and len(c.args) == 1:
                p_ = ev.ev(c.args[0])
                if p_ not in fs:
                    raise oe.ModelRaise(oe.Outcome("raise", "FileNotFoundError", c))
                st_ = fs[p_] if fs[p_] is not None else (111, 4096)  # a directory: its own inode data, not the files below it
                return Obj(st_mtime_ns=st_[0], st_size=st_[1], st_mtime=st_[0] / 1e9)
            if f in ("os.path.getmtime", "os.path.getsize") and len(c.args) == 1:
                p_ = ev.ev(c.args[0])
                st_ = fs.get(p_) or (111, 4096)
                return st_[0] if f.endswith("getmtime") else st_[1]
            if f == "Hash" and len(c.args) + len(c.keywords) == 1:
                return Obj(_hash=True, log=())
            if isinstance(c.func, ast.Attribute) and c.func.attr in ("update", "update_int", "finalize"):
                try:
                    o = ev.ev(c.func.value)
                except oe.Unsupported:
                    o = None
                if isinstance(o, Obj) and "_hash" in o.__dict__:
                    if c.func.attr == "finalize":
                        return ("DIGEST", o.__dict__["log"])
                    v = ev.ev(c.args[0])
                    o.__dict__["log"] = o.__dict__["log"] + ((c.func.attr, bytes(v) if isinstance(v, (bytes, bytearray)) else v),)
                    return None
            return oe.NOT_MODELLED
        sym = ctx.fold_sym(fn, {"SPSDK_DEBUG_DB": False})
        try:
            out = oe.Evaluator(dict(env) if env is not None else {"paths": ("/d", None)}, sym, opaque_return=False, call_value=cv).run(A.body_of(fn.node))
        except oe.Unsupported as ex:
            raise AnalysisError(f"C18.fingerprint: {fn.name} left the fragment: {ex}")
        return (out.kind, out.value)
    base = {"/d": None, "/d/common": None, "/d/common/database_defaults.yaml": (1000, 50), "/d/devices": None,
            "/d/devices/alpha": None, "/d/devices/alpha/database.yaml": (2000, 70), "/d/devices/alpha/other.json": (1, 1),
            "/d/devices/beta": None, "/d/devices/beta/database.yaml": (3000, 90)}
    ref = run_on(base)
    probs = []
    if ref[0] != "return" or run_on(dict(base)) != ref:
        probs.append(f"not a function of the file system state: {ref[0]}")
    variants = {"alpha/database.yaml rewritten in place (mtime)": {"/d/devices/alpha/database.yaml": (2001, 70)},
                "beta/database.yaml rewritten in place (size)": {"/d/devices/beta/database.yaml": (3000, 91)},
                "common defaults rewritten": {"/d/common/database_defaults.yaml": (1001, 50)},
                "device gamma added": {"/d/devices/gamma": None, "/d/devices/gamma/database.yaml": (4000, 10)}}
    for what, delta in variants.items():
        fs2 = dict(base)
        fs2.update(delta)
        if run_on(fs2) == ref:
            probs.append(f"unchanged when {what}")
    fs3 = {k: v for k, v in base.items() if not k.startswith("/d/devices/beta")}
    if run_on(fs3) == ref:
        probs.append("unchanged when device beta is removed")
    ctx.chk.decide(not probs, "C18.fingerprint", fn.qual, "the cache fingerprint depends on (mtime, size) of every devices/*/database.yaml and of the common defaults and on the set of device folders (6 model file systems)",
                   "; ".join(probs), "a rewritten database file changes the fingerprint", A.loc(DB, fn.node))
    # the DATA cache (db_data_*.cache) stores the parsed configuration files AND the defaults (DatabaseData.__init__ restores
    # `defaults` from the cache): its fingerprint must change when any cached file or the defaults file is rewritten
    nested: dict = {}
    for k_ in ast.walk(ctx.m(DB).tree):
        if isinstance(k_, ast.ClassDef) and k_.name == "DatabaseData":
            for st_ in k_.body:
                if isinstance(st_, ast.FunctionDef):
                    nested[st_.name] = type("NestedFn", (), {"module": ctx.m(DB), "cls": None, "node": st_, "name": st_.name, "qual": f"{DB}::Database.DatabaseData.{st_.name}"})()
    if "__init__" not in nested or "hash_db_data" not in nested:
        raise AnalysisError("C18.fingerprint: Database.DatabaseData.__init__ / hash_db_data not found")
    init = nested["__init__"]
    if not any(isinstance(n, ast.Attribute) and n.attr == "defaults" and "loaded_db_data" in norm(n) for n in ast.walk(init.node)):
        raise AnalysisError("C18.fingerprint: DatabaseData.__init__ no longer restores `defaults` from the cache object (rule needs review)")
    hd = nested["hash_db_data"]
    base2 = {"/d": None, "/d/common": None, "/d/common/database_defaults.yaml": (1000, 50), "/d/devices": None, "/d/devices/alpha": None,
             "/d/devices/alpha/database.yaml": (2000, 70), "/d/devices/alpha/pfr.json": (2500, 80)}
    env2 = {"cached_configs": ("/d/devices/alpha/database.yaml", "/d/devices/alpha/pfr.json"), "path": "/d", "restricted_data_path": None, "addons_data_path": None}
    ref2 = run_on(base2, hd, env2)
    probs2 = []
    if ref2[0] != "return" or run_on(dict(base2), hd, env2) != ref2:
        probs2.append(f"not a function of the file system state: {ref2[0]}")
    for what, delta in {"a cached configuration file rewritten in place (mtime)": {"/d/devices/alpha/pfr.json": (2501, 80)},
                        "a cached configuration file rewritten in place (size)": {"/d/devices/alpha/database.yaml": (2000, 71)},
                        "common/database_defaults.yaml rewritten (mtime)": {"/d/common/database_defaults.yaml": (1001, 50)},
                        "common/database_defaults.yaml rewritten (size)": {"/d/common/database_defaults.yaml": (1000, 51)}}.items():
        fs2 = dict(base2)
        fs2.update(delta)
        if run_on(fs2, hd, env2) == ref2:
            probs2.append(f"unchanged when {what}")
    ctx.chk.decide(not probs2, "C18.fingerprint", hd.qual, "the data-cache fingerprint depends on (mtime, size) of every cached configuration file and of the defaults file whose content the cache restores (5 model file systems)",
                   "; ".join(probs2), "a rewritten file whose content the cache holds changes the fingerprint", A.loc(DB, hd.node))


def rule_quick_info_twin(ctx) -> None:
    """Every path of _get_quick_info_db that builds a fresh quick-info database builds it from the same (completely loaded) database:
    the answers with the cache disabled are the reference the property compares with, they must not come from a lazily loaded one."""
    fn = ctx.own(DB, "DatabaseManager", "_get_quick_info_db")
    builds = {}
    for q in A.spaths(fn.node):
        for c in q.calls("create"):
            if norm(c.func) == "QuickDatabase.create" and c.args:
                mode = "cache disabled" if q.assumes("SPSDK_CACHE_DISABLED", True) else "cache enabled"
                builds.setdefault(mode, set()).add(norm(c.args[0]))
    if set(builds) != {"cache disabled", "cache enabled"}:
        raise AnalysisError(f"C18.quick-info-twin: constructions found only for {sorted(builds)}")
    gd = ctx.own(DB, "DatabaseManager", "get_db")
    dflt = {a.arg: norm(d) for a, d in zip(gd.node.args.args[-len(gd.node.args.defaults):], gd.node.args.defaults)} if gd.node.args.defaults else {}
    full = {"cls.get_db(complete_load=True)", "cls.get_db(True)"} | ({"cls.get_db()"} if dflt.get("complete_load") == "True" else set())
    ok = all(v <= full for v in builds.values())
    ctx.chk.decide(ok and builds["cache disabled"] and builds["cache enabled"], "C18.quick-info-twin", fn.qual, "with and without the cache the quick-info database is created from a completely loaded database",
                   f"{ {k: sorted(v) for k, v in builds.items()} }", "QuickDatabase.create(cls.get_db(complete_load=True)) on every path", A.loc(DB, fn.node))


def rule_loads(ctx) -> None:
    prog = ctx.prog
    m, fns = _cache_functions(ctx)
    loads = []
    for fn in fns:
        for c in A.calls_in(fn):
            if (A.dotted(c.func) or "") in ("pickle.load", "pickle.loads"):
                loads.append((fn, c))
    if len(loads) < 3:
        raise AnalysisError(f"C18: expected at least 3 pickle.load sites in {DB}, found {len(loads)}")
    for fn, call in loads:
        site = f"{DB}::{fn.name} pickle.load"
        ctx.chk.analysed(f"{DB}::{fn.name}")
        tr = enclosing_try(call, fn)
        if tr is None:
            ctx.chk.bad("C18.exc-cover", site, "pickle.load outside any try", "a damaged cache must never be fatal", A.loc(DB, call))
            continue
        hc: list = []
        unresolved = False
        for h in tr.handlers:
            cl = handler_classes(prog, m, h)
            if cl is None:
                unresolved = True
            else:
                hc += cl
        if unresolved:
            raise AnalysisError(f"C18.exc-cover: cannot resolve an exception class in the handler of {site}")
        need = list(UNPICKLE_FAILURES) + OPEN_FAILURES
        # FileLock acquired inside the try body -> its timeout must be covered too
        if any(A.call_name(c) == "FileLock" for s in tr.body for c in A.calls_in(s)):
            need += LOCK_FAILURES
        # what the try body raises itself
        own: List[Tuple[str, type]] = []
        for s in tr.body:
            for n in A.walk_no_nested(s):
                if isinstance(n, ast.Assert):
                    own.append(("assert -> AssertionError", AssertionError))
                elif isinstance(n, ast.Raise) and n.exc is not None:
                    ex = n.exc.func if isinstance(n.exc, ast.Call) else n.exc
                    k = _exc_class(prog, m, ex)
                    if k is not None:
                        # raise nested in an inner try that handles it is not ours
                        inner = enclosing_try(n, fn)
                        if inner is not tr and inner is not None:
                            continue
                        own.append((f"raise {norm(ex)}", k))
        missing = [n for n in need if not covers(hc, _by_name(n))]
        missing += [lbl for lbl, k in own if not any(issubclass(k, c) or k.__name__ == c.__name__ for c in hc)]
        ctx.chk.decide(not missing, "C18.exc-cover", site,
                       f"handler {[c.__name__ for c in hc]} covers {len(need)} unpickle/open/lock failure classes and {len(own)} raise(s) of the try body",
                       f"handler {[c.__name__ for c in hc]} lets escape: {', '.join(missing)}",
                       "every failure of loading a truncated/empty/foreign/vanished cache file is caught (e.g. `except Exception`)", A.loc(DB, tr.handlers[0] if tr.handlers else tr))
        # fallback: handlers neither re-raise nor return/exit
        for h in tr.handlers:
            esc = [n for n in A.walk_no_nested(ast.Module(body=h.body, type_ignores=[])) if isinstance(n, (ast.Raise, ast.Return))
                   or (isinstance(n, ast.Call) and (A.dotted(n.func) or "") in ("sys.exit", "exit", "os._exit"))]
            ctx.chk.decide(not esc, "C18.fallback", site, "handler falls through to the full (uncached) load",
                           f"handler leaves the function: {norm(esc[0]) if esc else ''}", "log and fall through", A.loc(DB, h))
        # no-trust: the variable bound to the unpickled object
        stmt = A.enclosing_stmt(call)
        var = None
        if isinstance(stmt, ast.Assign) and isinstance(stmt.targets[0], ast.Name):
            var = stmt.targets[0].id
        if var is None:
            raise AnalysisError(f"C18.no-trust: unpickled object of {site} is not bound to a simple name")
        # (a) type validated before the first attribute use inside the try body
        uses = []
        seen_load = False
        validated_at = None
        for s in tr.body:
            for n in A.walk_no_nested(s):
                if n is call:
                    seen_load = True
                if not seen_load:
                    continue
                if isinstance(n, ast.Call) and A.call_name(n) == "isinstance" and n.args and norm(n.args[0]) == var:
                    par = A.enclosing_stmt(n)
                    if isinstance(par, ast.Assert) or (isinstance(par, ast.If) and A.always_raises(par.body)):
                        if validated_at is None:
                            validated_at = par.lineno
                if isinstance(n, ast.Attribute) and isinstance(n.value, ast.Name) and n.value.id == var:
                    uses.append(n)
        first_use = min((u.lineno for u in uses), default=None)
        ctx.chk.decide(validated_at is not None and (first_use is None or validated_at <= first_use), "C18.validate-type", site,
                       f"`{var}` is type-checked (raising) before its first attribute use", f"type check line {validated_at}, first attribute use line {first_use}",
                       f"assert/raise on `isinstance({var}, ...)` before any `{var}.x`", A.loc(DB, call))
        # (b) fingerprint compared before the object is accepted
        cmp_ok = False
        for s in tr.body:
            for n in A.walk_no_nested(s):
                if isinstance(n, ast.Compare) and any(norm(x) == f"{var}.db_hash" for x in [n.left] + n.comparators):
                    cmp_ok = True
        ctx.chk.decide(cmp_ok, "C18.validate-hash", site, f"`{var}.db_hash` is compared with the current fingerprint", "no comparison of the cached fingerprint",
                       f"if db_hash == {var}.db_hash", A.loc(DB, call))
        # (c) on every handler path the variable is reset before any later use
        later = _uses_after(fn, tr, var)
        if later:
            for h in tr.handlers:
                reset = any(isinstance(s, ast.Assign) and norm(s.targets[0]) == var and isinstance(s.value, ast.Constant) and s.value.value is None for s in h.body)
                ctx.chk.decide(reset, "C18.no-trust", site, f"handler resets `{var}` = None; it is read again after the try ({norm(later[0])[:60]})",
                               f"`{var}` keeps the unpickled object after a failed validation and is used later: {norm(later[0])[:80]}",
                               f"{var} = None in the handler", A.loc(DB, h))
            # mismatch branch resets too
            for s in tr.body:
                for n in A.walk_no_nested(s):
                    if isinstance(n, ast.If) and isinstance(n.test, ast.Compare) and f"{var}.db_hash" in norm(n.test):
                        op = n.test.ops[0]
                        bad_branch = n.body if isinstance(op, ast.NotEq) else n.orelse
                        reset = any(isinstance(x, ast.Assign) and norm(x.targets[0]) == var and isinstance(x.value, ast.Constant) and x.value.value is None for x in bad_branch)
                        ctx.chk.decide(reset, "C18.no-trust", site + " stale branch", f"fingerprint mismatch resets `{var}`", "stale cache object kept after fingerprint mismatch", f"{var} = None", A.loc(DB, n))
        else:
            ctx.chk.ok("C18.no-trust", site, f"`{var}` is not read after the try statement")
    ctx.chk.floor("C18.exc-cover", 3)


def _uses_after(fn: ast.AST, tr: ast.Try, var: str) -> List[ast.AST]:
    """Loads of `var` in statements that execute after the try statement (any enclosing block)."""
    out = []
    node: ast.AST = tr
    while node is not fn:
        par = A.parent(node)
        if par is None:
            break
        for field in ("body", "orelse", "finalbody"):
            blk = getattr(par, field, None)
            if isinstance(blk, list) and node in blk:
                for s in blk[blk.index(node) + 1:]:
                    for n in ast.walk(s):
                        if isinstance(n, ast.Name) and n.id == var and isinstance(n.ctx, ast.Load):
                            out.append(A.enclosing_stmt(n))
        node = par
    return out


def rule_lock(ctx) -> None:
    prog = ctx.prog
    m, fns = _cache_functions(ctx)
    lock_names: Set[str] = set()
    n_io = 0
    for fn in fns:
        for c in A.calls_in(fn):
            d = A.dotted(c.func) or ""
            if d == "open" and c.args:
                name = norm(c.args[0])
                if "cache" not in name:
                    continue
                n_io += 1
                lk = in_lock(c, name)
                ok = lk is not None and lk.replace(" ", "") == f'{name}+".lock"'.replace(" ", "").replace('"', "'") or (lk is not None and lk == f"{name} + '.lock'")
                ctx.chk.decide(bool(ok), "C18.lock", f"{DB}::{fn.name} {norm(c)[:50]}", f"inside `with FileLock({lk})`",
                               f"cache file opened {'under lock ' + lk if lk else 'outside any FileLock'}", f"with FileLock({name} + '.lock')", A.loc(DB, c))
                if lk:
                    lock_names.add(lk.replace(name, "<file>"))
            if d == "FileLock":
                # timeout must be finite and the acquisition covered by a non-fatal handler
                tr = enclosing_try(c, fn)
                hc: list = []
                if tr is not None:
                    for h in tr.handlers:
                        hc += handler_classes(prog, m, h) or []
                to = A.arg_of(c, 1, "timeout")
                tv = prog.fold(to, m) if to is not None else None
                ctx.chk.decide(tr is not None and covers(hc, TimeoutError) and isinstance(tv, (int, float)) and tv >= 0, "C18.lock-timeout", f"{DB}::{fn.name} FileLock",
                               f"bounded wait (timeout={tv}) and Timeout is handled", f"timeout={tv}, handled={tr is not None and covers(hc, TimeoutError)}",
                               "finite timeout inside a try that covers TimeoutError", A.loc(DB, c))
            if d in ("os.remove", "os.unlink") and c.args and "cache" in norm(c.args[0]):
                n_io += 1
                name = norm(c.args[0])
                tol = suppressed_by(c, prog, m, "FileNotFoundError")
                tr = enclosing_try(c, fn)
                if not tol and tr is not None:
                    hc = []
                    for h in tr.handlers:
                        hc += handler_classes(prog, m, h) or []
                    tol = covers(hc, FileNotFoundError)
                lk = in_lock(c, name)
                ctx.chk.decide(bool(tol or lk), "C18.remove-race", f"{DB}::{fn.name} {norm(c)[:50]}", "removal tolerates a concurrent removal (suppress/try) or is under the lock",
                               f"`{norm(c)}` guarded only by an existence test (TOCTOU between processes)", "contextlib.suppress(OSError) / try-except / under FileLock", A.loc(DB, c))
            if d == "shutil.rmtree":
                tr = enclosing_try(c, fn)
                hc = []
                if tr is not None:
                    for h in tr.handlers:
                        hc += handler_classes(prog, m, h) or []
                ign = A.arg_of(c, 1, "ignore_errors")
                ctx.chk.decide(covers(hc, FileNotFoundError) or (ign is not None and prog.fold(ign, m) is True), "C18.remove-race", f"{DB}::{fn.name} rmtree",
                               "cache directory removal tolerates concurrent removal", norm(c), "try/except OSError", A.loc(DB, c))
    # every directory creation on the cache path tolerates a concurrent creation
    for rp in (DB, "spsdk/__init__.py"):
        mm = ctx.m(rp)
        for fnode in [n for n in ast.walk(mm.tree) if isinstance(n, (ast.FunctionDef, ast.Module))]:
            for c in A.calls_in(fnode):
                d = A.dotted(c.func) or ""
                if d not in ("os.makedirs", "os.mkdir"):
                    continue
                if isinstance(fnode, ast.Module) and any(isinstance(a, ast.FunctionDef) for a in A.ancestors(c)):
                    continue
                eo = A.arg_of(c, None, "exist_ok")
                tol = eo is not None and prog.fold(eo, mm) is True
                if not tol:
                    tr = enclosing_try(c, fnode) if not isinstance(fnode, ast.Module) else None
                    hc2: list = []
                    if tr is not None:
                        for h in tr.handlers:
                            hc2 += handler_classes(prog, mm, h) or []
                    tol = covers(hc2, FileExistsError) or suppressed_by(c, prog, mm, "FileExistsError")
                nm = getattr(fnode, "name", "<module>")
                ctx.chk.decide(bool(tol), "C18.mkdir-race", f"{rp}::{nm} {norm(c)[:60]}", "directory creation tolerates a concurrent creation (exist_ok=True / handled)",
                               f"`{norm(c)}` races between processes on a cold cache (check-then-create)", "os.makedirs(..., exist_ok=True)", A.loc(rp, c))
    # rmtree in clear_cache (no pickle there)
    for n in ast.walk(m.tree):
        if isinstance(n, ast.FunctionDef) and n.name == "clear_cache":
            for c in A.calls_in(n, "rmtree"):
                tr = enclosing_try(c, n)
                hc = []
                if tr is not None:
                    for h in tr.handlers:
                        hc += handler_classes(prog, m, h) or []
                ctx.chk.decide(covers(hc, FileNotFoundError), "C18.remove-race", f"{DB}::clear_cache rmtree", "cache directory removal tolerates concurrent removal",
                               norm(c), "try/except OSError", A.loc(DB, c))
    ctx.chk.decide(len(lock_names) == 1, "C18.lock-name", DB, f"all cache I/O sites derive the lock name the same way: {sorted(lock_names)}",
                   f"lock names differ between sites: {sorted(lock_names)}", "one convention <file> + '.lock'", DB)
    ctx.chk.floor("C18.lock", 4)


def rule_replace(ctx) -> None:
    """C18.replace: a writer that first loads+merges the existing file (and gives up when that load fails) can only replace a damaged
    or stale cache if every reader path that found the file invalid removed it."""
    prog = ctx.prog
    m, fns = _cache_functions(ctx)
    merge_writers = []
    for fn in fns:
        loads = [c for c in A.calls_in(fn) if (A.dotted(c.func) or "") == "pickle.load"]
        dumps = [c for c in A.calls_in(fn) if (A.dotted(c.func) or "") == "pickle.dump"]
        for l in loads:
            for d in dumps:
                if l.lineno < d.lineno and enclosing_try(l, fn) is enclosing_try(d, fn):
                    merge_writers.append(fn)
    if not merge_writers:
        ctx.chk.ok("C18.replace", DB, "no writer reads the existing cache before overwriting it; a damaged file is simply overwritten")
        return
    for w in merge_writers:
        # readers of the same file-name getter
        getters = {A.call_name(c) for c in A.calls_in(w) if "cache_filename" in A.call_name(c) or "db_path" in A.call_name(c)}
        for fn in fns:
            if fn is w or not any(A.call_name(c) in getters for c in A.calls_in(fn)):
                continue
            for call in [c for c in A.calls_in(fn) if (A.dotted(c.func) or "") == "pickle.load"]:
                tr = enclosing_try(call, fn)
                if tr is None:
                    continue
                site = f"{DB}::{fn.name} (writer {w.name} merges the existing file)"
                for h in tr.handlers:
                    rm = [c for c in A.calls_in(ast.Module(body=h.body, type_ignores=[])) if (A.dotted(c.func) or "") in ("os.remove", "os.unlink")]
                    ctx.chk.decide(bool(rm), "C18.replace", site + " handler", "a cache file that failed to load is removed, so the merging writer can replace it",
                                   "damaged cache file is left in place; the writer re-reads it, fails and never replaces it", "os.remove(cache file) in the handler", A.loc(DB, h))
                var = None
                st = A.enclosing_stmt(call)
                if isinstance(st, ast.Assign) and isinstance(st.targets[0], ast.Name):
                    var = st.targets[0].id
                for n in [x for s in tr.body for x in A.walk_no_nested(s)]:
                    if isinstance(n, ast.If) and isinstance(n.test, ast.Compare) and var and f"{var}.db_hash" in norm(n.test):
                        stale = n.body if isinstance(n.test.ops[0], ast.NotEq) else n.orelse
                        rm = [c for c in A.calls_in(ast.Module(body=stale, type_ignores=[])) if (A.dotted(c.func) or "") in ("os.remove", "os.unlink")]
                        ctx.chk.decide(bool(rm), "C18.replace", site + " stale branch", "a stale cache file is removed, so its entries cannot be merged back by the writer",
                                       "stale cache file is left in place; the merging writer copies its outdated entries into the new cache", "os.remove(cache file) when the fingerprint differs", A.loc(DB, n))


def rule_writers(ctx) -> None:
    prog = ctx.prog
    m, fns = _cache_functions(ctx)
    n = 0
    for fn in fns:
        for c in A.calls_in(fn):
            if (A.dotted(c.func) or "") != "pickle.dump":
                continue
            n += 1
            site = f"{DB}::{fn.name} pickle.dump"
            tr = enclosing_try(c, fn)
            hc: list = []
            esc: list = []
            if tr is not None:
                for h in tr.handlers:
                    hc += handler_classes(prog, m, h) or []
                    esc += [x for x in A.walk_no_nested(ast.Module(body=h.body, type_ignores=[])) if isinstance(x, ast.Raise)]
            need = [OSError, pickle.PicklingError, TimeoutError, AttributeError, TypeError, RecursionError]
            miss = [k.__name__ for k in need if not covers(hc, k)]
            ctx.chk.decide(tr is not None and not miss and not esc, "C18.writer-nonfatal", site, "a failing cache write is caught and not re-raised",
                           f"escaping: {miss} reraise: {bool(esc)}", "try/except Exception around the cache write", A.loc(DB, c))
            # the dump target is a file opened for binary write under the lock (checked by C18.lock)
            w = [a for a in A.ancestors(c) if isinstance(a, ast.With) and any(isinstance(i.context_expr, ast.Call) and A.call_name(i.context_expr) == "open" for i in a.items)]
            mode = None
            if w:
                oc = [i.context_expr for i in w[0].items if isinstance(i.context_expr, ast.Call) and A.call_name(i.context_expr) == "open"][0]
                md = A.arg_of(oc, 1, "mode")
                mode = prog.fold(md, m) if md is not None else None
            ctx.chk.decide(mode == "wb", "C18.writer-mode", site, "written through open(..., 'wb')", f"mode {mode}", "wb", A.loc(DB, c))
    if n < 2:
        raise AnalysisError(f"C18.writer: expected 2 pickle.dump sites, found {n}")
    # reader modes
    for fn in fns:
        for c in A.calls_in(fn):
            if (A.dotted(c.func) or "") == "pickle.load":
                w = [a for a in A.ancestors(c) if isinstance(a, ast.With) and any(isinstance(i.context_expr, ast.Call) and A.call_name(i.context_expr) == "open" for i in a.items)]
                if w:
                    oc = [i.context_expr for i in w[0].items if isinstance(i.context_expr, ast.Call) and A.call_name(i.context_expr) == "open"][0]
                    md = A.arg_of(oc, 1, "mode")
                    mode = prog.fold(md, m) if md is not None else "r"
                    ctx.chk.decide(mode == "rb", "C18.reader-mode", f"{DB}::{fn.name} pickle.load", "read through open(..., 'rb')", f"mode {mode}", "rb", A.loc(DB, c))


def rule_switch(ctx) -> None:
    fn = ctx.own(DB, "DatabaseManager", "_get_quick_info_db")
    body = A.body_of(fn.node)
    idx_sw = idx_io = None
    for i, s in enumerate(body):
        if idx_sw is None and isinstance(s, ast.If) and norm(s.test) == "SPSDK_CACHE_DISABLED" and A.is_terminal(s.body) and isinstance(s.body[-1], ast.Return):
            idx_sw = i
        if idx_io is None and any((A.dotted(c.func) or "") in ("open", "pickle.load", "FileLock", "pickle.dump") for c in A.calls_in(s)):
            idx_io = i
    ctx.chk.decide(idx_sw is not None and idx_io is not None and idx_sw < idx_io, "C18.disabled-switch", fn.qual,
                   "`if SPSDK_CACHE_DISABLED: ... return` precedes every cache file access", f"switch at statement {idx_sw}, first cache I/O at statement {idx_io}",
                   "the disabled switch returns before any cache I/O", A.loc(DB, fn.node))
    if idx_sw is not None:
        sw = body[idx_sw]
        io_in = [c for c in A.calls_in(sw) if (A.dotted(c.func) or "") in ("open", "pickle.load", "pickle.dump")]
        ctx.chk.decide(not io_in, "C18.disabled-switch", fn.qual + " branch", "disabled branch does no cache file I/O", norm(io_in[0]) if io_in else "", "", A.loc(DB, sw))
    init = ctx.prog.cls(DB, "Database")
    # data cache: the reading condition is reported (see DESIGN.md: reads the cache although disabled when complete_load is False)
    for n in ast.walk(init.node):
        if isinstance(n, ast.If) and "SPSDK_CACHE_DISABLED" in norm(n.test) and "complete_load" in norm(n.test):
            ctx.chk.report(f"C18.disabled-switch (report only): data cache is consulted under `{norm(n.test)}` at {A.loc(DB, n)}")


MANIFEST = {
    "level": "Necessary conditions for every crash point and schedule, decided on the source: (crash points) every unpickle of a cache file is covered by a handler for the whole "
             "documented failure set of truncated/empty/foreign files plus the body's own raises, falls through to the full load, and never leaves the foreign object in use; "
             "(schedules) every cache open/dump/remove is under the file's FileLock or individually race-tolerant, lock names agree, lock waits are bounded and handled. "
             "This is a decision over all prefixes/interleavings for these clauses because they do not depend on file contents or timing.",
    "note": "Trusted: pickle's documented exception set, filelock semantics (Timeout is a TimeoutError). Not decided: cached answers equal uncached answers; fingerprint completeness.",
    "technique": "static analysis: exception-cover over the builtin hierarchy, handler dataflow (reset-before-use), lock-region discipline on the AST, dependence of the cache fingerprint on model file systems (os.* modelled), sibling construction of the quick-info database on symbolic paths, trust decision of both cache readers as whole-function models (stale vs current fingerprint), determinism of the cached content over the call closure of the builder, data-cache finger print interpreted on model file systems",
}
